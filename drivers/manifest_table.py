"""The table MANIFEST.json is generated from (python3 drivers/manifest.py)."""
HOOK_COMMITS = ["62117ca"]
CHECKS = {}
NOT_APPLICABLE = {}


def claim(pid, category, technique, text, note, ref):
    CHECKS[pid] = (category, technique, text, note, ref)


def skip(pid, reason):
    NOT_APPLICABLE[pid] = reason


claim("C10", "model_checking", "TLA+ implementation spec refines contract (TLC) + transition replay on both allocator copies + TLC validation of recorded traces",
      "WaHeap.tla transcribes malloc.wat block by block; TLC checks the C10 contract (WaHeapContract: in-heap, aligned, large enough, "
      "no overlap, tiling, list well-formedness, writes outside live data, fails only when exhausted) in every state of bounded "
      "configurations (cap 0/1/2/3, page-boundary heap bases, 5-8 request sizes, up to 9 operations). Every transition of the emitted "
      "configurations is executed on both real allocator copies (internal/waroot/malloc/malloc.wat and waroot/src/runtime/heap_malloc.wat.ws) "
      "and compared step by step; random recorded executions are judged by TLC against the contract (WaHeapObs) and the implementation "
      "spec (WaHeapTrace). A verdict needs a real execution that the contract spec rejects.",
      "Trusted: TLC, the harness's projection of linear memory (list walks, canaries over the requested bytes), wazero as executor of the "
      "allocator. Bounded: sizes/configurations of the cfgs; recorded traces up to 2*10^4 events per run.",
      "DESIGN.md section 4 C10")

claim("C13", "model_checking", "TLA+ transcription of map.wa refines the finite-map contract (TLC) + every model transition and simulated long histories rendered as Wa programs and run by the real toolchain",
      "WaMap.tla transcribes waroot/src/runtime/map.wa (red-black tree + nodes slice) statement by statement; TLC checks that it refines "
      "FiniteMap.tla (lookup/comma-ok, len, range as a set of pairs) plus red-black and index invariants at bounded keys/values/operations. "
      "Every transition of the emitted bound, and TLC-simulated histories of 60-120 operations over 7 keys, are compiled into Wa programs for "
      "nine key kinds (int, i64, u8, string, f64, bool, struct, pointer, interface{} of mixed dynamic types) and executed with the real `wa run`; "
      "the observations must equal the contract's. The spec's prediction of the range order is compared too but only reported as drift.",
      "Trusted: TLC, the program renderer (operations interpreted from a byte string by a small Wa loop, so map operations use variable keys), "
      "`wa run` as executor. Not decided: NaN keys, mutation during range, maps of maps.",
      "DESIGN.md section 4 C13")

claim("C21", "model_checking", "TLA+ spec of client positions and transcribed server mapping (TLC, all transitions) + replay of every transition on a real LSPServer + TLC validation of recorded random sessions",
      "LspSync.tla: client = LSP's definition of UTF-16 line/character positions over code points of 1-4 UTF-8 bytes incl. an astral one, CRLF and LF; "
      "server = mapper.go's line table and unit-counting loop transcribed. TLC checks InSync/ErrorsExact over all documents up to the bound x all "
      "client-valid ranges x all inserted texts, two-change notifications, full changes and three classes of invalid ranges; every one of those "
      "transitions (5*10^5 quick) is executed on a real LSPServer (DidOpen/DidChange) and the stored text compared with the client's. Random client "
      "sessions (documents up to 40-60 code points, 1-3 changes per notification) are recorded from the real server and validated by TLC (LspSyncTrace).",
      "Trusted: TLC, the in-package accessor reading LSPServer.fileMap, the symbol-to-UTF-8 table of the harness. Scope: .wa URIs; lone CR excluded; "
      "positions inside a surrogate pair and line = last+1 are neither required to be accepted nor rejected.",
      "DESIGN.md section 4 C21")
claim("C25", "model_checking", "TLA+ spec of writer/channel/reader (TLC invariant over every case) + replay of every case on the real Writer/Reader with TLC-chosen chunking",
      "Slip.tla models the stuffing writer, the SLIPMUX wrapping incl. the CoAP FCS16, a channel that cuts the wire at every set of up to 2 positions (as "
      "ordinary short reads and as 1-3 consecutive empty reads per boundary, constant IdlePolls), and the byte loop of Reader.ReadPacket under SlipMuxReader's prefix accumulation. TLC checks "
      "delivered = sent for every case (payload alphabets with END/ESC/ESC_END/ESC_ESC and one representative per UTF-8 byte class, 1-3 packets); every case is "
      "executed on the real code with a transport that serves exactly those chunks; wire bytes and delivered packets are compared.",
      "Trusted: TLC, the chunking transport of the harness. Domain: non-empty payloads, valid frame types, CoAP payload >= 4 bytes.",
      "DESIGN.md section 4 C25")

claim("C24", "model_checking", "TLA+ reference semantics (grammar recogniser, Boolean evaluation, printing) enumerated by TLC over every token string + one execution of the real Parse/Eval/String per string; generated modules through the real loader for file inclusion",
      "BuildTag.tla defines the constraint grammar as a recursive-descent recogniser (no double negation), Eval under a tag assignment and printing with minimal "
      "parentheses; TLC enumerates every token string over {a,b,c,!,&&,||,(,)} of length <= 6 (quick) / 7 (thorough), emits accept/reject and the truth table, and "
      "checks that the reference is closed under print/parse. The real buildtag.Parse must accept exactly those strings (two spacings each), Eval must produce the "
      "same truth table under all 8 assignments, and Parse(String(x)) must succeed with the same table. File inclusion: generated modules with a non-main package "
      "whose files carry a constraint and its negation are run with `wa run -tags=...`; which file was compiled must match TLC's truth table.",
      "Trusted: TLC, the token renderer. Bounded: 3 tags, length <= 7; target OS/arch tags only through the -tags mechanism.",
      "DESIGN.md section 4 C24")

claim("C19", "model_checking", "TLA+ bit-level reference codec evaluated by TLC on boundary values and byte-sequence spaces + one execution of every real encoder/decoder front end per case",
      "Leb128.tla defines minimal-length LEB128 encoding and the WebAssembly decoding limits (at most ceil(W/7) bytes; unused bits of the last allowed byte must be zero / "
      "repeat the sign) on bit sequences, for u32, s32, s33, u64, s64. TLC checks round trip and minimality of the reference and emits (value, bytes) for ~7(W+1) boundary "
      "bit patterns per codec and (bytes, value+count | TooLong | BadBits | EOF) for every sequence of length <= 4 over 10 byte classes, 5-byte sequences with 22 last-byte "
      "classes, and structured 8-12 byte sequences for 64 bits. Every case runs on Encode*/Decode*/Load* (both reader front ends).",
      "Trusted: TLC, the 8-byte little-endian value transfer. 'All 2^32 values' is reached only through the boundary patterns; DecodeUint64 does not exist in the package.",
      "DESIGN.md section 4 C19")

claim("C22", "model_checking", "TLC trace validation: records logged from the real diff package judged against TLA+ reference definitions (valid edits, sequential splice, line patch)",
      "Diff.tla is a trace specification: for every logged (before, after, edits, package Apply result, unified hunks) TLC checks that the edits are sorted, in bounds, "
      "non-overlapping and on rune boundaries, that the TLA+ splice of the edits into `before` equals `after`, that the package's own Apply agrees, and that the hunks form a "
      "correct line patch in which every hunk contains a change, and that the rendered text (ToUnified), read back by a line-oriented patch reader in the harness, carries exactly "
      "those hunk lines (TextFaithful). Records: every pair of texts up to length 4 (quick) / 5 (thorough) over {a,b,LF}, pairs over multi-byte and "
      "invalid-byte alphabets, and seeded random / mutated texts of 150-800 bytes (beyond the LCS search limit), through both diff.Strings and diff.Bytes.",
      "Trusted: TLC, the in-package accessor exposing toUnified's hunks. 'Exactly the changed lines' is decided as: the hunks patch before into after and none is change-free. "
      "Open known finding: inputs with invalid UTF-8 (see known_findings.json).",
      "DESIGN.md section 4 C22")

claim("C29", "model_checking", "TLA+ state machine of a program's life (TLC: contract invariants on every path) + one real `wa run` per terminal state",
      "WaRun.tla: build, package initialisation, main, output, and 15 ways of ending (return, exit 0/1/3/255, three panics, five traps, two build errors) at four places "
      "(main, callee, deferred call, init) in three surface syntaxes (.wa, .wz, .wat); TLC checks the status contract on every path and emits the 150 terminal states; each is "
      "rendered as a program, run with the wa binary built from the working tree in a child process, and exit status and stdout prefix are compared.",
      "Trusted: TLC, the three program renderers (a rendering that does not compile would show up as a status mismatch and was debugged out on the unchanged tree). "
      ".wasm inputs and the --web path are not rendered.",
      "DESIGN.md section 4 C29")

claim("C30", "model_checking", "TLA+ contract + runner machine (TLC enumerates packages) + one real `wa test` per generated package",
      "WaTest.tla: a package is a sequence of Test/Example functions, each with a declaration (none, Output, empty Output, Output(panic)) and a behaviour "
      "(returns after printing nothing/the expected/another line, panics with the declared/another message, traps, exits 3, prints the expected line and then "
      "traps or panics); Pass(f) is the statement's per-function contract and the runner machine's verdict must be ok exactly when every function selected by "
      "-run passes. TLC enumerates all 1-function packages and all 2-function packages x 4 -run patterns; quick runs every 1-function package and a seeded "
      "sample of 180 2-function packages (thorough: 8000) as generated modules through `wa test`; verdict line (ok / FAIL) and exit status are compared.",
      "Trusted: TLC, the package renderer. Domain restriction: a function declaring a panic does not print before panicking. Open known finding: empty `// Output:`.",
      "DESIGN.md section 4 C30")

claim("C17", "model_checking", "TLA+ transcription of the RISC-V and LoongArch64 instruction formats (EncFmt.tla) and of the x86-64 ModRM/SIB rules (X64ModRM.tla) evaluated by TLC + the repository's encoders, decoders and x86asm disassembler on every case",
      "EncFmt.tla lists, from the ISA manuals and independently of the repository's tables, 51 RV64I+M mnemonics and 96 LoongArch64 mnemonics (3R, shift-immediate, 12/20-bit "
      "immediates, loads/stores, the three branch offset splits, ALSL/BYTEPICK, FP 3F and FCMP) with their fixed bits, and per format where each register number and immediate bit goes "
      "and which immediates the format can carry. TLC evaluates the word (as two 16-bit halves) for 9 register tuples that tell the fields apart x the immediates at every field limit, "
      "one beyond, alternating bits and misaligned values (9 000 cases; three hand-checked manual encodings are an invariant). The harness encodes each case with riscv.EncodeRV64 / "
      "loong64.EncodeLA64: a representable case must yield exactly the specified word, an unrepresentable one must be rejected (error or assert), and the repository's Decode of every "
      "correct word must return the mnemonic and operands.",
      "x86-64 part (X64ModRM.tla): REX/ModRM/SIB/displacement rules of the SDM for mov/add/sub/and/or/xor/cmp/lea in register-register, load and store forms over all 16 "
      "registers x 12 displacements (6 208 cases); x64.Encode's bytes must disassemble - with the repository's copy of golang.org/x/arch x86asm - to the same operation, operands "
      "and length (the manual's shortest form is recorded, not required). Partial claim: AArch64 is not covered; RISC-V CSR/fence/atomic/FP, the remaining LoongArch instructions "
      "and the rest of the x86-64 table are not in the specifications. For RISC-V/LoongArch the independent decoder is the specification's own field read-back.",
      "DESIGN.md section 4 (C17)")
claim("C18", "model_checking", "TLA+ CPU recombination on bit-vectors evaluated by TLC + the integer form discharged by Apalache (SMT) for all offsets + one execution of the Go functions per TLC case",
      "PcRel.tla states, on BV bit-vectors, what auipc+addi (RISC-V) and pcalau12i+addi.d (LoongArch) compute from the 20- and 12-bit instruction fields, and the reference "
      "split as the unique pair that recombines exactly; TLC checks exactness on every offset in [-4200,4200], every +-2^k+j (k=11..31, |j|<=3) and the extremes, and on 30 "
      "pcs x 46 page-relative targets, and emits the fields. PcRelApa.tla states the same formula over unbounded integers and Apalache proves Init => Inv for ALL 2^32 "
      "offsets and all 64-bit pc/target pairs in the pcalau12i range (and refutes a deliberately wrong bound). SplitOffset, CombineOffset, MakePCRel, MakeAbs, "
      "GetTargetAddress and MakeLa64PCRel are executed on every TLC case and must return the specified fields / addresses.",
      "Trusted: TLC, Apalache/Z3, BV.tla (self-validated exhaustively at 8 bits). The link from the Apalache lemma to the Go code is by the replay on TLC's windows only. "
      "Assembler call sites (asm_func_*) are not driven.",
      "DESIGN.md section 4 C18")

claim("C23", "model_checking", "TLA+ state machine of file sets (TLC, every transition with a witness history) replayed on real token.FileSet objects; generated programs for panic positions",
      "TokenPos.tla: two file sets; AddFile+SetLinesForContent with contents over {x, LF}, Position lookups (which move the set's last-file cache, modelled as state), and "
      "FromJson(ToJson) from one set into the other - empty or already holding files with a warm cache. The contract table (file, 1 + newlines before the offset, bytes since "
      "the last newline + 1) for every offset of every file is emitted with every transition and compared with FileSet.Position on the real objects after replaying the "
      "witness history. Second clause: 18 generated programs (leading blank lines x indentation x place of the call) are run and the file:line:col of the panic message "
      "must be the newline-counting position of the call.",
      "Trusted: TLC, the replayer. //line entries: not in the specification; the harness repeats every load on shadow sets whose files carry one entry with a column and requires "
      "the adjusted Position of every offset to be unchanged by the JSON round trip (identity oracle). Not modelled: MergeLine, the end offset of a content ending in a newline, empty contents.",
      "DESIGN.md section 4 C23")

claim("C26", "model_checking", "TLA+ spec of writer/chunked channel/reader (TLC invariant over every case) + replay of every case on the real reader with the same chunking; identity replay of all registered message kinds",
      "DapFrame.tla models the Content-Length writer, a channel that cuts the byte stream at every set of up to 2 positions, and readContentLengthHeader/ReadBaseMessage "
      "transcribed; TLC checks decoded = sent for every case (bodies over {x, CR, LF, C} incl. bodies that contain delimiter fragments; 1-3 messages) and every case is "
      "executed on the real WriteBaseMessage/ReadBaseMessage through a transport that serves exactly those chunks. Codec: the harness enumerates the codec's constructor "
      "tables (105 kinds) for the names only; the message written for a name is the type the protocol's naming rule gives (harness/net/dap_schema_table.go, "
      "independent of the tables), filled by reflection with three deterministic patterns and requires WriteProtocolMessage -> chunked stream -> ReadProtocolMessage to "
      "return an equal message, for 40 chunkings per pattern.",
      "Trusted: TLC, the chunking transport, reflection-based fill. Framing/order/dispatch are decided by the spec; field fidelity is an identity check on the fill patterns "
      "(level: exploration for that part). Malformed headers are not driven.",
      "DESIGN.md section 4 C26")

claim("C06", "model_checking", "TLA+ call-graph model with reachability fixed point and the marking pass transcribed (TLC, all graphs on N functions) + every graph rendered as WAT, stripped by the real pass, validated and executed before/after",
      "WatStrip.tla: functions 1..N (function 1 optionally imported), every call relation, four placements of a call site (top level, in a block, in an else arm, after an "
      "unconditional return), exported functions, table entries reached by call_indirect, optional start function. TLC checks that DoPass's marking (transcribed as a "
      "worklist machine) computes the reachability fixed point and emits each graph with the set to keep and the value every root returns. The harness renders each graph as "
      "a WAT module, runs watstrip.WatStrip, and requires: retained functions = the fixed point exactly, the stripped text assembles, and exports / table entries / the start "
      "effect return the same values before and after on the embedded engine (and the values the spec computes).",
      "Trusted: TLC, the renderer, wazero (interpreter) as executor. n = 3 (quick, 17k modules) / 4 (thorough). Not driven: re-exported imports, standalone export fields, ref.func.",
      "DESIGN.md section 4 C06")

claim("C28", "model_checking", "TLA+ spec of the compile pipeline's shared current-module global (TLC: safety, deadlock freedom, liveness of the locked design) + gate-controlled replay of TLC interleavings on the real compiler through blocking hooks + TLC validation of stress logs",
      "ApiConc.tla: calls as processes with Load / SetCurrent / Use* / Finish around the process-global wir.currentModule, with and without the compile lock. TLC proves the locked "
      "design (3 calls) returns the sequential result for every call, never lets a call touch another call's module, cannot deadlock, and finishes under weak fairness. The "
      "interleaving prefixes of the UNLOCKED variant are forced on the real compiler: verif-tagged hooks at every read/write of the global block each goroutine until the harness "
      "releases it in TLC's order; a step the lock forbids is observed as blocked, any feasible interleaving must still give the sequential WAT/wasm. Free-running stress "
      "(8-16 goroutines x BuildFile/RunCode/FormatCode/GetCodeSyntax) logs every hook event under the hook's mutex and TLC (ApiConcTrace) checks from the event order that no "
      "use ever saw a foreign module and every call returned its sequential result. A crash of the child process is a violation.",
      "Trusted: TLC, goroutine identification by runtime.Stack, the 150 ms settle window that decides 'blocked' (a slow machine can only make a feasible step look blocked, "
      "never the reverse). Shared state other than wir.currentModule is only covered by the output comparison and the crash oracle.",
      "DESIGN.md section 4 C28")
claim("C27", "exploration", "TLC determinism monitor over builds recorded in one process and in fresh processes",
      "Determinism.tla memoises the first (WAT hash, wasm hash, main function) observed per program and rejects any later different observation; the observations are 3-6 builds of "
      "each of six programs in each of 5-12 fresh processes (new map-iteration and hash seeds).",
      "The schedule quantifier is sampled, not enumerated; the TLA+ content is a monitor. A nondeterminism that needs an unusual program shape is not reached.",
      "DESIGN.md section 4 C27")

claim("C31", "model_checking", "TLA+ reference semantics of WebAssembly integer operators (WasmNum.tla on BV, evaluated by TLC over the operand space) + execution of every case on the embedded engine (both modes) and on V8",
      "WasmNum.tla transcribes the integer operators of the WebAssembly specification (add..rotr, the ten comparisons, clz/ctz/popcnt/eqz, wrap/extend, with the two division traps and "
      "rem_s(x,-1) = 0) on self-validated bit-vectors; TLC evaluates every (operator, operand pair) over 12 (quick) / 27 (thorough) boundary operands per width and emits the specified "
      "result or trap (7.5k / 38k cases), checking algebraic laws of the reference in the thorough tier. The harness builds one module with a function per operator, assembles it with Wa's "
      "assembler and calls every case on the embedded wazero in compiler and interpreter mode and on V8 (node). A deviation from the specification that V8 does not share is a violation.",
      "Structured control flow is decided by WasmCtl.tla, an interpreter for block/loop/if-else/br/br_if/br_table/return over statement trees (branch depths valid by construction, every "
      "loop entry consumes fuel so every program terminates or traps): 11 442 programs x 3 arguments are functions of the same module, so every executor of the hub (wazero both modes, V8, "
      "wat2c + clang, wat2x64 + gcc, wat2wasm and the printer) runs them. Trusted: TLC, BV.tla, node/V8 as the independent engine for attribution only. The trapping float-to-integer conversions are decided by WasmTrunc.tla (exact operands: sign, 72-bit magnitude, optional half, NaN, infinities, at the limits of each target type). Other floating-point instructions are not decided.",
      "DESIGN.md section 4 (WebAssembly hub)")

claim("C02", "model_checking", "TLA+ WebAssembly numeric/memory semantics evaluated by TLC (WasmNum.tla) + native execution of every case through wat2x64 + gcc; TLA+ integer kernel (WaInt.tla) + native vs WebAssembly build of the same Wa programs",
      "Part 1: the hub module shared with C31/C03/C04 (one function per numeric, conversion, constant and memory operator) gets a _start that calls every non-trapping case and prints the "
      "result through the native runtime's print_i64; it is translated with wat2x64.Wat2X64 (the call `wa native build` makes), assembled and linked with gcc -static -nostdlib as the "
      "toolchain does, and run; values must equal the TLC-specified ones. Trapping cases run one per function in their own executable and must end abnormally. Part 2: the WaInt kernel "
      "programs are built with `wa native build --arch x64 --target linux` and run, and compared line by line and by exit status with `wa run` of the same program.",
      "Trusted: TLC, BV.tla, gcc's assembler and linker. Integer subset only (no floating point, no control-flow cases beyond calls). Open known finding: no bounds checks natively.",
      "DESIGN.md section 4 (WebAssembly hub)")
claim("C03", "model_checking", "TLA+ reference semantics (WasmNum.tla cases from TLC) + execution of every case in the C program generated by wat2c, compiled with clang -O0 and -O2",
      "The hub's module (one exported function per numeric operator, per store/load combination with offsets, per bounds probe, per constant immediate) is translated with "
      "wat2c, compiled with clang at -O0 and -O2 and every TLC case is executed; the value, or abnormal termination where a trap is specified, must match the specification. "
      "Every case specified to trap runs in a process of its own (without bounds checks an untrapped store damages the host program), the defined cases between two of them share one; a case that kills its process is restarted after.",
      "Trusted: TLC, BV.tla, clang. Integer subset; float operators, control-flow skeletons and exported-memory effects beyond the loaded value are not in the case space. "
      "Open known finding: wat2c emits no bounds checks.",
      "DESIGN.md section 4 (WebAssembly hub)")
claim("C04", "model_checking", "TLA+ reference semantics + index-space model (TLC cases) executed from the binary Wa's assembler produced, on V8 and the embedded engine; validation on V8; name section decoded and compared with the index rule",
      "Every hub case (numeric and memory operators, i32/i64 constants at the signed-LEB128 group edges) and 120 index-space modules (block types, calls, locals, globals "
      "behind 0..200 leading entries, every count across 64 and 128, with separately declared types) are assembled by watutil.Wat2Wasm; each binary must validate on V8 and "
      "compute the TLC-specified result there (a deviation shared by both engines is the assembler's); the debug name section of every binary is decoded and must assign each "
      "function and local index the name written in the text (parameters first, then locals), strictly increasing.",
      "Trusted: TLC, V8's validator and engine, the name-section decoder of the driver. 'Equal to WABT's output' is not decidable here (WABT absent): replaced by validity + specified "
      "behaviour + name-section rule. Data/elem/start/table sections are exercised by C06's modules only.",
      "DESIGN.md section 4 (WebAssembly hub)")

claim("C05", "exploration", "TLA+ module-space generator (TLC enumerates the feature product) + identity replay: print(parse(m)) assembles to the same bytes, printing idempotent",
      "WatGen.tla describes a module as one choice per section kind (memory limits incl. max = min, tables, globals, data segments with escapes, imports named/anonymous/global, "
      "exports inline/standalone/memory+global, start, elem, three body shapes); TLC enumerates the 18 480 consistent combinations and the harness renders each as WAT. For every one, "
      "and for the hub's modules, the compiler's output for seven programs and every .wat file in the repository that Wa's assembler accepts, "
      "Wat2Wasm(print(parse(src))) must equal Wat2Wasm(src) byte for byte (name section included) and print must be idempotent.",
      "Role G (bounded-exhaustive generator with an identity oracle): level exploration. 'Accepted by the reference assembler' is not decidable (WABT absent).",
      "DESIGN.md section 4 (WebAssembly hub, E5)")

claim("C01", "model_checking", "TLA+ transcription of Go's integer semantics (WaInt.tla on BV, evaluated by TLC over the operand space) + one execution of every case in compiled Wa programs",
      "WaInt.tla defines wrap-around + - * & | ^ &^, truncating / % (MIN / -1 = MIN, MIN % -1 = 0), shifts by unsigned counts (count >= width gives 0 or the sign fill), the six "
      "comparisons, unary - ^ and every integer conversion, at int, uint, i32, i64, u8, u16, u32, u64 (quick: i32, u8, i64). TLC evaluates every (type, operator, operand pair) over "
      "14 boundary operands and 13 shift counts; each case runs through a Wa function whose operands are parameters, in programs compiled and executed by the real toolchain "
      "(a case that stops the program is reported and the rest re-run). Slice/append aliasing is decided by WaStore.tla; zero values and initialisers of composite types in 27 contexts "
      "by WaGen.tla; maps by the WaMap/FiniteMap transitions of C13; struct/array copies, pointer/slice/closure/method aliasing, defer (argument evaluation time, LIFO, named results) by "
      "WaProc.tla, an interpreter for 15 statement atoms whose every sequence up to length 3 (4 in thorough) is run as a Wa function; strings as byte sequences (range decoding with every invalid UTF-8 class, []rune/string(rune) conversions, comparison, concatenation, slicing) by WaStr.tla on the decoding automaton of StdLib.tla; loops with loop-carried variables, break/continue and conditional assignment by WaFlow.tla (every loop body up to length 3 / 4 over 14 atoms, six runs each).",
      "Trusted: TLC, BV.tla, the renderer. Decided: the integer kernel and the four models named above; floats and interfaces/type switches are not in "
      "the case space; Go-style value-receiver methods (`func (s: S) M()`) are not generated: they are accepted by the type checker but compile to an invalid module (undocumented feature). Open known findings: signed MIN / -1 traps; shift counts are taken modulo the width.",
      "DESIGN.md section 4 (language kernel)")
claim("C14", "model_checking", "TLA+ declarative definitions of the library functions (StdLib.tla) evaluated by TLC on a bounded argument space + generated Wa programs calling the real library",
      "StdLib.tla defines Index, LastIndex, Contains, Count, HasPrefix/Suffix, Split, Join, Fields, Replace (including the empty-pattern rule), Repeat, Compare, EqualFold, Trim*, ToUpper/ToLower; "
      "strconv.Itoa/FormatInt in bases 2..36 and ParseInt with Go's left-to-right syntax/range rule at 8 and 16 bits; utf8.DecodeRuneInString/RuneCountInString/ValidString as the decoding "
      "automaton with every invalid class; hex encode/decode with its error cases; base64 as bit regrouping with padding; math/bits Leading/TrailingZeros, OnesCount, Len, Reverse, ReverseBytes, "
      "RotateLeft at 8/16/32/64 bits on BV.tla; sort.Ints (the ordered permutation) and SearchInts; adler32, crc32 (bitwise IEEE polynomial), fnv-1/1a and md5 (RFC 1321 on BV.tla, messages around the padding boundaries) as folds. Documented Go results are an "
      "invariant of the spec. TLC evaluates 36 000 (quick) / 150 000 (thorough) cases; each is a call in a generated Wa program (the string cases against both `strings` and `bytes`), the printed "
      "result must equal the definition's; a case that stops the program is reported and the rest re-run.",
      "Partial claim: TLC integers are 32-bit, so 64-bit strconv limits are not reached; strconv ftoa/atof, base32, encoding/binary, utf16 and the container packages are not decided. "
      "The definitions follow Go's documented behaviour; they were not cross-run against Go's library inside the check.",
      "DESIGN.md section 4 (C14)")
claim("C15", "model_checking", "TLA+ exact (128-bit) constant semantics evaluated by TLC + compilation of every constant form (value printed, or positioned compile error)",
      "For the same cases as C01, WaInt.tla computes the exact value of the operation on typed constants at 128 bits and whether it is representable in the type; the harness compiles "
      "println(T(a) op T(b)) (and shifts by constant counts, unary operators, constant conversions): a representable case must print the exact value, an unrepresentable one (or a "
      "division by constant zero) must be rejected with a positioned compile error - each rejected case is compiled on its own. C01 ties the run-time value of the same case to the same spec.",
      "Trusted: TLC, BV.tla. Integer constants only; untyped arithmetic beyond 128 bits and float constants are not decided.",
      "DESIGN.md section 4 (language kernel)")
claim("C16", "exploration", "TLC enumeration of (type, context) skeletons with a typing model (WaGen.tla) + `wa build` of every skeleton + WebAssembly validation on V8",
      "WaGen.tla builds types structurally (nine base types under pointer, slice, array, map-value and map-key constructors: one level in quick, two in thorough = 5 724 skeletons), "
      "decides which skeletons are well typed (comparability of map keys and == operands) and puts each in 29 contexts (zero-value and initialised declarations, globals, parameters, "
      "results, multiple results, fields, elements, map values, closures and nested closures, boxing and type assertion, dereference, method receivers, deferred-call arguments, range, "
      "append, struct literals, assignment through pointers, ==, deferred and plain calls whose mixed-type results are discarded, loops with an empty body). Every skeleton is rendered, compiled with `wa build`, and the binary validated with V8. A compiler exit without a "
      "source position, a hang or an invalid module is a violation; an ill-typed skeleton must be rejected with a position or still yield a valid module. The printed observation of "
      "the same skeletons is decided under C01.",
      "Role G: level exploration (the product is enumerated completely, the feature set is the skeleton grammar). A well-typed skeleton the checker rejects is reported as inconclusive "
      "(exit 2), not as a violation. WABT is not installed: V8's validator is the independent one.",
      "DESIGN.md section 4 (language kernel)")
claim("C07", "exploration", "TLC enumeration of the legal lexical layouts (WaLayout.tla: automatic-semicolon and token-merging rules) + the real formatter run twice, real parser, AST/comment/compiled-module comparison",
      "WaLayout.tla states which gap fills (spaces, tabs, line breaks, blank lines, block comments, //, # and 注: line comments, semicolons, missing final newline) leave the token "
      "sequence of a construct unchanged; TLC enumerates every legal layout with one (quick) or two (thorough) perturbed gaps of 15 .wa and 6 .wz constructs. Each text goes through "
      "api.FormatCode twice; input and output are parsed with the real parser and must have equal position-free AST dumps (import specs compared as a sorted list), equal comment "
      "multisets, equal second-pass output, and - for the plain construct, a third of the one-comment layouts and a slice of the rest - equal compiled WAT (data segments and i32 constants "
      "masked: the compiler embeds source positions). The repository's own 400 .wa/.wz sources are a second input set.",
      "Role G: level exploration. A layout the model calls legal that the parser rejects makes the run inconclusive (exit 2). Open known findings: unsorted import groups compile to a "
      "different module after formatting; a line-ending comment inside `[ ]` of a slice type needs two passes.",
      "DESIGN.md section 4 (language kernel)")
claim("C08", "exploration", "TLC enumeration of token strings over the four front ends' alphabets and of the dispatch table (WaFront.tla) + in-process execution of every entry point with recovered panics, watchdog and process-exit detection",
      "WaFront.tla gives each surface language (Wa, Wz, WAT, native assembly) an alphabet of 35-54 tokens (keywords, brackets, identifier, literals including unterminated strings/chars "
      "and malformed numbers, every comment style, illegal bytes) and enumerates all token strings of length <= 2, and in thorough also of length 3 over a 22-26 token core of each alphabet; each is rendered spaced, tight, repeated "
      "12 times (the parsers bail out after 10 errors) and inside well-formed frames (function body, global initialiser, WAT module/function, text section) and fed to api.FormatCode, "
      "api.GetCodeSyntax, parser.ParseFile, api.BuildFile (type checking when the text parses), the WAT parser and the assembly parser under the file name of its language. A panic, a "
      "call that does not return (10 s watchdog; 60 s for BuildFile) or a process exit is a violation. The second part is the dispatch table: extension class x content class -> "
      "language and admissible formatting outcome (never a panic).",
      "Role G: level exploration; arbitrary byte strings beyond the token alphabets are not reached. Timing is only used as a non-termination watchdog.",
      "DESIGN.md section 4 (C08)")
claim("C09", "exploration", "TLC-generated kernel cases rendered in both surface syntaxes by independent tables and run: identity of outputs (and equality with the specification)",
      "Every WaInt case (run-time form through functions with typed parameters, and constant form) for u16, int, uintptr, byte, rune (quick) / all integer type names (thorough) is rendered "
      "as a .wa and as a .wz program - type names, func/return, println, main from tables written from token/const_wz.go - and both are compiled and run; outputs must be equal "
      "(the Chinese runtime's 真/假 for true/false is normalised) and a program that compiles in one syntax must compile in the other.",
      "The loop programs of WaFlow.tla (for/if/else/continue/break, :=, ++, +=) are rendered in both syntaxes as well and must print the same lines. Role G: level exploration. Observation: the .wz names 微整型/短整型 (i8/i16) have no .wa counterpart and make the backend exit with 'Unknown type'.",
      "DESIGN.md section 4 (language kernel)")

claim("C20", "model_checking", "TLA+ one-step semantics of RV64I+M from the ISA manual (Rv.tla on BV, evaluated by TLC) + one StepRun of the real emulator per case",
      "Rv.tla defines, on 64-bit bit-vectors, what each RV64I and M instruction writes to rd, the next pc, and the bytes stored: 28 register-register operations (incl. the W forms, "
      "mulh*, div/rem with the divide-by-zero and overflow results), 7 immediate operations, 6 immediate shifts, lui/auipc, 6 branches, jal/jalr (bit 0 cleared), 7 loads with "
      "sign/zero extension and 4 stores. TLC evaluates 12k (instruction, operand tuple) cases over 18 boundary register values; the harness encodes each from the manual's format "
      "tables (not the repository's encoder), runs one StepRun on the riscv64 CPU with DRAM, in up to three register allocations (rd=x10, rd=rs1, rd=x0 read after a nop).",
      "Trusted: TLC, BV.tla, the harness's encoder. riscv64 integer subset only: riscv32, LoongArch, floating point and CSR instructions are not decided. Nine open known findings "
      "(the emulator has many defects; each is keyed by instruction, register allocation and failure kind).",
      "DESIGN.md section 4 C20")

claim("C11", "model_checking", "TLC trace validation of the reference-counting protocol (WaRCTrace.tla) on events logged from the instrumented output of the real compiler; poison-invariance of the program output",
      "TLC enumerates loop bodies (WaRCGen.tla: 13 statement templates over structs, linked lists, slices, maps, strings, closures, interfaces, field / element / whole-struct "
      "overwrites, mass release of one size class; singly and in ordered pairs). Each is compiled by the real compiler; the WAT output is rewritten so that $runtime.HeapAlloc, "
      "HeapFree, Block.Retain and Block.Release report to host functions (no change to wa-lang/wa), assembled by Wa's assembler and run on the embedded engine. WaRCTrace.tla "
      "tracks the live blocks and their counts from the events and rejects: an allocation that is null, overlaps a live block or is not zeroed; retain/release on a freed block; "
      "a free of a block that is not live or whose count the protocol has not brought to zero. Each body is run with every freed payload overwritten with 0xDB at the moment of "
      "release and without; the outputs must be equal.",
      "Trusted: TLC, the WAT rewriting (wrappers call the original functions unchanged), the host's reading of sizes and counts from linear memory. Reachability itself is not "
      "observed - its observable consequences are. Programs with reference cycles are not generated.",
      "DESIGN.md section 4 C11/C12")
claim("C12", "model_checking", "TLC trace validation (WaRCTrace.tla): live set reconstructed from allocator/RC events, compared at per-iteration checkpoints",
      "Same instrumented runs as C11: every body runs in a callee for 6 iterations, the program calls checkpoint(k) after each; TLC reconstructs the set of live blocks from the logged "
      "alloc/free events and rejects a run in which a checkpoint k >= 3 has more live blocks or more live bytes than checkpoint 2.",
      "Trusted: as C11. 'For every iteration count' is sampled at 6 iterations (growth is linear when it exists); heap size is measured as live payload bytes, not as the bump pointer.",
      "DESIGN.md section 4 C11/C12")
