CONSTANTS
  Full = FALSE
  Emit = TRUE
  Widths = {32, 64}
  MemAddrs = {0, 1, 65520}
INIT Init
NEXT Next
INVARIANTS Laws
