"""C13 -- runtime maps are finite maps: WaMap (transcription of map.wa) refines FiniteMap
in TLC; every transition of the bounded model (and long simulated histories) is rendered
as a Wa program per key kind, compiled and run by the real toolchain, and the printed
observations are compared with the contract's."""
import json
import os
import random

import common
import c13_render as R
from common import MachineryError, log

LEVEL = "model_checking"
FIXDELETE = "TRUE"   # the code on this tree copies the successor into z (fix: commit)

ORDERED = [k for k, v in R.KINDS.items() if v[3]]


def cfg(keys, vals, maxops, emit, invariants=True):
    return """CONSTANTS
  Keys = {%s}
  Vals = {%s}
  MaxOps = %d
  FixDelete = %s
  Emit = %s
INIT Init
NEXT Next
VIEW View
%s
""" % (",".join(map(str, range(1, keys + 1))), ",".join(map(str, vals)), maxops, FIXDELETE,
       "TRUE" if emit else "FALSE", "INVARIANTS LookupOk LenOk RangeOk RBOk IdxOk" if invariants else "")


def parse_lines(lines):
    out = []
    for l in lines:
        p = common.parse_printt(l, "T")
        if not p:
            continue
        hist, obs = json.loads(p[0])
        out.append((hist, obs[0], obs[1]))
    return out


def maximal(paths):
    """keep histories that are not a proper prefix of the next emitted one (simulation)"""
    keep = []
    for i, p in enumerate(paths):
        if i + 1 < len(paths) and len(paths[i + 1][0]) == len(p[0]) + 1 and paths[i + 1][0][:len(p[0])] == p[0]:
            continue
        keep.append(p)
    return keep


def run_batch(wa, kind, nkeys, batch, idx):
    d = common.subdir("c13")
    f = os.path.join(d, "m_%s_%d.wa" % (kind, idx))
    with open(f, "w") as fh:
        fh.write(R.program(kind, nkeys, R.encode([p[0] for p in batch])))
    rc, so, se, to = common.run_child([wa, "run", f], timeout=40)
    os.unlink(f)
    return rc, so, se, to


def check_kind(chk, wa, kind, nkeys, paths, label, bsize=1500, prefix="C13"):
    if len(chk.violations) > 60:
        chk.notes.append("skipped %s/%s: more than 60 violations already reported" % (label, kind))
        return 1
    batches = list(common.chunks(paths, bsize))

    def job(ib):
        i, batch = ib
        return run_batch(wa, kind, nkeys, batch, i)
    results = common.parallel(job, list(enumerate(batches)))
    bad = 0
    for batch, (rc, so, se, to) in zip(batches, results):
        obs = R.parse_output(so)
        for j, (hist, exp, order) in enumerate(batch):
            chk.add("traces_validated_against_impl", 1)
            if j >= len(obs) or obs[j] is None:
                what = "does not return (timeout)" if to else "aborts: " + (se.strip().splitlines() or so.strip().splitlines()[-1:] or ["?"])[-1][:200]
                chk.report("%s:%s:%s" % (prefix, "hang" if to else "abort", kind),
                           "map operation %s for %s keys after history %s" % (what, kind, hist),
                           {"kind": kind, "nkeys": nkeys, "history": hist, "origin": label, "stderr": se[-500:]})
                bad += 1
                break   # the rest of this program's output is missing
            n, look, rng = obs[j]
            exp_look = [tuple(x) for x in exp["lookups"]]
            exp_rng = sorted((k - 1, v) for k, v in exp["range"])
            fail = None
            if n != exp["len"]:
                fail = ("len", exp["len"], n)
            elif [tuple(x) for x in look] != exp_look:
                fail = ("lookup", exp_look, look)
            elif sorted(rng) != exp_rng:
                fail = ("range", exp_rng, rng)
            if fail:
                bad += 1
                chk.report("%s:%s:%s" % (prefix, fail[0], kind),
                           "%s disagrees with the finite map for %s keys after %s: expected %s, observed %s" % (
                               fail[0], kind, hist, fail[1], fail[2]),
                           {"kind": kind, "nkeys": nkeys, "history": hist, "expected": exp, "observed": obs[j], "origin": label})
            elif kind in ORDERED and [tuple(x) for x in rng] != [(k - 1, v) for k, v in order]:
                chk.add("model_drift_range_order", 1)
    return bad


def replay(chk, path):
    rec = json.load(open(path))["record"]
    wa = common.build_wa()
    hist = rec["history"]
    # expected observation recomputed by TLC from the contract: single-path emission is not
    # needed -- the stored expectation came from TLC; re-run the program and compare
    check_kind(chk, wa, rec["kind"], rec["nkeys"], [(hist, rec["expected"], [])] if "expected" in rec else [], "replay")


def run(chk):
    thorough = chk.tier == "thorough"
    wa = common.build_wa()
    chk.assume("values are small integers; keys per kind are the fixed literals of c13_render.KINDS (floating-point keys exclude NaN and -0)")
    chk.assume("a history is observed after its last operation only (every prefix is itself an emitted history)")
    rng = random.Random(common.seed())
    cov = chk.cov
    # 1. refinement in the model
    mc = (7, [7, 8], 11) if thorough else (5, [7, 8], 7)
    res = common.run_tlc("map", "WaMap", "mc.cfg", files={"mc.cfg": cfg(mc[0], mc[1], mc[2], False)}, timeout=3000,
                         heap="24g" if thorough else None)
    chk.tlc(res, "refinement keys=%d vals=%s ops=%d" % (mc[0], mc[1], mc[2]))
    model_violation = res.violated
    if model_violation:
        log("[C13] WaMap violates %s in the model" % model_violation)
    # 2. every transition of a bounded model, on the real runtime, for every key kind
    em = (5, [7, 8], 7) if thorough else (5, [7], 7)   # (6, [7, 8], 7) does not finish in 50 minutes
    res = common.run_tlc("map", "WaMap", "em.cfg", files={"em.cfg": cfg(em[0], em[1], em[2], True, invariants=False)},
                         collect_prefix='<<"T"', timeout=3000)
    chk.tlc(res, "emit keys=%d vals=%s ops=%d" % em)
    paths = parse_lines(res.lines)
    if not paths:
        raise MachineryError("no transitions emitted")
    cov["transitions_emitted"] = len(paths)
    chk.sample({"history": paths[len(paths) // 2][0], "contract_observation": paths[len(paths) // 2][1]})
    bad = 0
    per_kind = {}
    for kind in R.KINDS:
        if kind == "bool":
            continue
        sel = paths if (thorough or kind == "int") else [p for p in paths if rng.random() < 0.15]
        per_kind[kind] = len(sel)
        bad += check_kind(chk, wa, kind, em[0], sel, "transitions of WaMap")
    # bool: its own 2-key model
    resb = common.run_tlc("map", "WaMap", "b.cfg", files={"b.cfg": cfg(2, [7, 8], 6, True, invariants=False)},
                          collect_prefix='<<"T"', timeout=600)
    chk.tlc(resb, "emit bool keys=2 ops=6")
    pb = parse_lines(resb.lines)
    per_kind["bool"] = len(pb)
    bad += check_kind(chk, wa, "bool", 2, pb, "transitions of WaMap (2 keys)")
    # 3. long simulated histories (7 keys, 2-3 values)
    nsim, depth = (400, 120) if thorough else (40, 60)
    ress = common.run_tlc("map", "WaMap", "s.cfg", files={"s.cfg": cfg(7, [1, 2, 3], depth, True, invariants=True)},
                          collect_prefix='<<"T"', timeout=1800, workers=1,
                          simulate="num=%d" % nsim, depth=depth + 1, extra=["-seed", str(common.seed())])
    if ress.violated and not model_violation:
        model_violation = ress.violated
    sims = maximal(parse_lines(ress.lines))
    cov["simulated_histories"] = len(sims)
    cov["simulated_history_length"] = depth
    if sims:
        chk.sample({"simulated_history_prefix": sims[0][0][:12]})
    for kind in R.KINDS:
        if kind == "bool":
            continue
        bad += check_kind(chk, wa, kind, 7, sims, "TLC simulation", bsize=25)
    cov["histories_per_kind"] = per_kind
    if model_violation and bad == 0 and not chk.known_hits:
        raise MachineryError("WaMap violates %s in TLC but the real runtime agrees with the contract on every emitted history: "
                             "the specification misdescribes map.wa" % model_violation)
    cov["exhaustive"] = False
    cov["explanation"] = ("TLC checks that WaMap (map.wa transcribed) refines FiniteMap at the listed bounds; every transition of the "
                          "emitted bound and TLC-simulated long histories are compiled into Wa programs for 9 key kinds and run by the real "
                          "`wa run`; lookups, comma-ok, len and the multiset of range visits must equal the contract's observation")
