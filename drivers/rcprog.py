"""Programs and runs shared by C11 (no premature / double free, zeroed allocations, poison
invariance) and C12 (bounded heap in loops): TLC enumerates loop bodies (WaRCGen.tla), each
is rendered as a Wa program whose iterations run in a callee and report a checkpoint; the
program is compiled by the real compiler, its WAT output is instrumented (harness/rc) and
the logged events are judged by TLC (WaRCTrace.tla)."""
import json
import os
import re

import common
from common import MachineryError

PRELUDE = '''
type Node :struct {
	next: *Node
	val:  int
}

type Named :struct {
	name: string
	n:    *Node
}

type Pair :struct {
	p: *Node
	s: string
}

type Shape :interface {
	Area() => int
}

func Node.Area() => int {
	return this.val
}

global sink: int
global keep: *Node

func checkpoint(k: int) {
}

func five(i: int) => string {
	s := "v"
	for j := 0; j < 3+i%%2; j++ {
		s = s + "w"
	}
	return s
}
'''

# statement templates: each allocates only data that is dead (and acyclic) when iter() returns,
# except 11 which replaces one global object per iteration (steady state)
TEMPLATES = {
    1: "\tp@ := &Node{val: i}\n\tsink += p@.val\n",
    2: "\th@: *Node\n\tfor j@ := 0; j@ < 3; j@++ {\n\t\th@ = &Node{next: h@, val: j@}\n\t}\n\tsink += h@.val\n",
    3: "\ts@ := make([]int, 0)\n\tfor j@ := 0; j@ < 5; j@++ {\n\t\ts@ = append(s@, j@)\n\t}\n\tsink += len(s@)\n",
    4: "\tm@ := make(map[string]int)\n\tm@[\"a\"] = i\n\tm@[\"b\"] = 2\n\tdelete(m@, \"a\")\n\tsink += len(m@)\n",
    5: "\tstr@ := five(i)\n\tstr@ = str@ + \"y\"\n\tsink += len(str@)\n",
    6: "\tk@ := i\n\tf@ := func() => int { return k@ + 1 }\n\tsink += f@()\n",
    7: "\tv@: Shape = &Node{val: i}\n\tsink += v@.Area()\n",
    8: "\ta@ := &Node{val: 1}\n\ta@.next = &Node{val: 2}\n\ta@.next = nil\n\tsink += a@.val\n",
    9: "\tb@ := &Named{}\n\tb@.name = five(i)\n\tb@.name = \"\"\n\tsink += len(b@.name)\n",
    10: "\tarr@ := []*Node{&Node{val: 1}, &Node{val: 2}}\n\tarr@[0] = nil\n\tsink += len(arr@)\n",
    11: "\tkeep = &Node{val: i}\n\tsink += keep.val\n",
    12: "\tt@ := &Pair{&Node{val: 1}, five(i)}\n\t*t@ = Pair{}\n\tsink += len(t@.s)\n",
    # many blocks of one size class released together (the allocator's fixed lists overflow into the general list)
    13: "\tbig@: *Node\n\tfor j@ := 0; j@ < 70; j@++ {\n\t\tbig@ = &Node{next: big@, val: j@}\n\t}\n\tsink += big@.val\n",
}
N_ITER = 6


def rename(stmt, idx):
    """two statements in one body must not declare the same local names"""
    return stmt.replace("@", "_%d" % idx)


def program(body):
    stmts = "".join(rename(TEMPLATES[t], n) for n, t in enumerate(body))
    return (PRELUDE % () + "\nfunc iter(i: int) {\n" + stmts + "}\n\nfunc main {\n\tfor i := 0; i < %d; i++ {\n\t\titer(i)\n\t\tcheckpoint(i + 1)\n\t}\n\tprintln(\"sink\", sink)\n}\n" % N_ITER)


def bodies_from_tlc(chk, maxlen, templates=None):
    ts = templates or sorted(TEMPLATES)
    cfg = "CONSTANTS\n  Templates = {%s}\n  MaxLen = %d\n  Emit = TRUE\nINIT Init\nNEXT Next\n" % (",".join(map(str, ts)), maxlen)
    res = common.run_tlc("rc", "WaRCGen", "g.cfg", files={"g.cfg": cfg}, collect_prefix='<<"T"', timeout=600)
    chk.tlc(res, "loop bodies, templates %s, length <= %d" % (ts, maxlen))
    return [json.loads(common.parse_printt(l, "T")[0])["body"] for l in res.lines]


def run_body(b, body, idx, poison):
    d = common.subdir("rc/%d" % idx)
    f = os.path.join(d, "p.wa")
    with open(f, "w") as fh:
        fh.write(program(body))
    rc, so, se, to = common.run_child([b, "run"] + (["-poison"] if poison else []) + [f], timeout=45)
    return rc, so, se, to


def judge(events_text):
    res = common.run_tlc("rc", "WaRCTrace", "trace.cfg", workers=1, files={"trace.ndjson": events_text}, timeout=600, collect_prefix='<<"')
    n = len(events_text.splitlines())
    if res.postcond_failed or res.generated != n + 1:
        raise MachineryError("TLC did not consume the event log (%d of %d): %s" % (res.generated - 1, n, res.out[-400:]))
    verdicts, cps, drift = [], [], 0
    for l in res.lines:
        m = re.match(r'<<"V", (\d+), "([^"]+)">>', l)
        if m:
            verdicts.append((int(m.group(1)), m.group(2)))
        m = re.match(r'<<"C", (\d+), (\d+), (\d+)>>', l)
        if m:
            cps.append(tuple(int(x) for x in m.groups()))
        if l.startswith('<<"D"'):
            drift += 1
    return res, verdicts, cps, drift


def explore(chk, thorough, want):
    """want: 'c11' or 'c12' -> which verdict classes are reported"""
    b = common.go_build("rc")
    bodies = bodies_from_tlc(chk, 2)
    if not thorough:
        # every single template, and every ordered pair through a seeded third of the pairs
        import random
        rng = random.Random(common.seed())
        singles = [x for x in bodies if len(x) == 1]
        pairs = [x for x in bodies if len(x) == 2]
        bodies = singles + [x for x in pairs if 13 in x and 11 in x] + rng.sample(pairs, min(len(pairs), 40))

    def job(ib):
        i, body = ib
        r_poison = run_body(b, body, i, True)
        r_plain = run_body(b, body, 1000 + i, False) if want == "c11" else None
        if r_poison[3]:
            return body, r_poison, r_plain, None, [(0, "does-not-terminate")], [], 0
        if r_poison[0] != 0:
            raise MachineryError("rc harness failed on %s: %s" % (body, r_poison[2][-800:]))
        res, verdicts, cps, drift = judge(r_poison[1])
        return body, r_poison, r_plain, res, verdicts, cps, drift
    for body, rp, rpl, res, verdicts, cps, drift in common.parallel(job, list(enumerate(bodies)), workers=8):
        if res is None:
            key_body = "+".join(map(str, body))
            chk.report("%s:does-not-terminate:%s" % ("C11" if want == "c11" else "C12", key_body),
                       "the instrumented program with body %s does not terminate (45 s); plain run: %s" % (body, "ok" if (rpl and rpl[0] == 0) else "not run / also failing"),
                       {"body": body, "program": program(body)})
            continue
        evs = rp[1].splitlines()
        last = json.loads(evs[-1])
        chk.add("traces_validated_against_impl", 1)
        chk.add("events_judged", len(evs))
        chk.add("states", res.distinct)
        chk.add("transitions", res.generated)
        if drift:
            chk.add("rc_drift_events", drift)
        if last.get("ev") == "compile_error":
            raise MachineryError("generated program does not compile (%s): %s" % (body, last["msg"][:300]))
        key_body = "+".join(map(str, body))
        if want == "c11":
            for at, v in verdicts:
                if v == "heap-grows":
                    continue
                chk.report("C11:%s:%s" % (v, key_body), "%s at event %d of the instrumented run of body %s: %s" % (v, at, body, evs[at - 1][:200]),
                           {"body": body, "event_index": at, "event": json.loads(evs[at - 1]), "program": program(body)})
            plain_last = json.loads(rpl[1].splitlines()[-1]) if rpl and rpl[1].strip() else {}
            if last.get("error") or (plain_last.get("stdout") != last.get("stdout")):
                chk.report("C11:poison-changes-behaviour:%s" % key_body,
                           "with freed memory overwritten the program prints %r (error %r); without, %r" % (last.get("stdout"), last.get("error"), plain_last.get("stdout")),
                           {"body": body, "poisoned": last, "plain": plain_last, "program": program(body)})
        else:
            grows = [(at, v) for at, v in verdicts if v == "heap-grows"]
            if grows:
                chk.report("C12:heap-grows:%s" % key_body, "live blocks/bytes at the checkpoints of body %s: %s (k, blocks, bytes)" % (body, cps),
                           {"body": body, "checkpoints": cps, "program": program(body)})
            if len(cps) != N_ITER:
                raise MachineryError("expected %d checkpoints, saw %s for body %s" % (N_ITER, cps, body))
        if len(chk.cov["samples"]) < 3:
            chk.sample({"body": body, "checkpoints(k,blocks,bytes)": cps, "stdout": last.get("stdout")})
    chk.cov["bodies"] = len(bodies)
