------------------------------- MODULE WaLayout -------------------------------
(* C07: the lexical layout freedom of Wa source text.  A construct is a token  *)
(* sequence with statement boundaries; a layout fills each gap between tokens  *)
(* with white space, a line break, a comment or a semicolon.  The spec states  *)
(* which fills are legal, i.e. leave the token sequence (and so the syntax     *)
(* tree) unchanged: the automatic-semicolon rule (a line break after an        *)
(* identifier, literal, return/break/continue, ++/-- or a closing bracket ends *)
(* the statement) and the token-merging rule (two tokens may abut only when    *)
(* one of them is a bracket or separator).                                     *)
(* Role G: every legal layout of every construct must be formatted to a text   *)
(* that parses to the same tree, keeps the comments, is a fixed point of the   *)
(* formatter, and compiles to the same module.                                 *)
EXTENDS Integers, Sequences, FiniteSets, TLC, Json
CONSTANTS Emit, MaxPerturbed, Constructs,
          ExtraBreakFills,   \* further line-comment styles of the language ("hc": #..., "zc": 注: ...)
          StrictBounds       \* TRUE: every statement boundary needs a line break (block headers ending in ":" of .wz)
B == "<B>"     \* marks a statement boundary inside a construct

Keywords == {"func", "if", "else", "for", "switch", "case", "default", "type", "struct", "interface", "map", "range", "defer", "import", "const",
             "global", "var",
             "函数", "如果", "或者", "否则", "循环", "找辙", "有辙", "没辙", "结构", "全局", "引入", "常量"}
Operators == {"+", "-", "*", "/", "%", "&", "|", "^", "<<", ">>", "&^", "&&", "||", "!", "==", "!=", "<", "<=", ">", ">=", "=", ":=", "+=", "=>", ".", ":", "..."}
Openers == {"(", "[", "{"}
Closers == {")", "]", "}"}
Seps == {",", ";"}
\* a line break after such a token is a statement end
Asi(t) == t \notin (Keywords \cup Operators \cup Openers \cup Seps)
CanAbut(a, b) == a \in (Openers \cup Closers \cup Seps) \/ b \in (Openers \cup Closers \cup Seps)

RECURSIVE Toks(_)
Toks(c) == IF c = <<>> THEN <<>> ELSE IF Head(c) = B THEN Toks(Tail(c)) ELSE <<Head(c)>> \o Toks(Tail(c))
\* indices (into Toks) of tokens followed by a statement boundary
RECURSIVE Bounds(_, _)
Bounds(c, n) == IF c = <<>> THEN {} ELSE IF Head(c) = B THEN {n} \cup Bounds(Tail(c), n) ELSE Bounds(Tail(c), n + 1)

BreakFills == {"nl", "blank", "lc", "bcnl"} \cup ExtraBreakFills         \* contain a line break
SpaceFills == {"sp", "sp2", "tab", "bcsp"}
TightFills == {"none", "bc"}
SemiFills  == {"semi", "seminl"}
Fills == BreakFills \cup SpaceFills \cup TightFills \cup SemiFills

\* gap i lies after token i (gap 0: before the first token)
Legal(c, i, f) ==
  LET t == Toks(c) IN
  IF i = 0 THEN f \in {"nl", "lc", "bcnl", "blank"} \cup ExtraBreakFills
  ELSE IF i = Len(t) THEN f \in {"nl", "blank", "lc", "eof"} \cup ExtraBreakFills
  ELSE IF i \in Bounds(c, 0) /\ Asi(t[i]) THEN f \in BreakFills \cup SemiFills
  ELSE IF i \in Bounds(c, 0) /\ StrictBounds THEN f \in BreakFills
  ELSE \/ f \in SpaceFills
       \/ f \in BreakFills /\ ~Asi(t[i])
       \/ f = "none" /\ CanAbut(t[i], t[i + 1])
       \/ f = "bc" /\ t[i] # "/"
Default(c, i) == LET t == Toks(c) IN
                 IF i = 0 THEN "none0" ELSE IF i = Len(t) \/ i \in Bounds(c, 0) THEN "nl" ELSE "sp"

Pieces(c, lay) == LET t == Toks(c) IN
  [k \in 1..(2 * Len(t) + 1) |-> IF k % 2 = 0 THEN t[k \div 2]
                                 ELSE LET g == (k - 1) \div 2 IN IF g \in DOMAIN lay THEN lay[g] ELSE Default(c, g)]

VARIABLES cid, lay, done
GapSets(n) == {{}} \cup {{g} : g \in 0..n} \cup (IF MaxPerturbed >= 2 THEN {{g, h} : g, h \in 0..n} ELSE {})
Init == /\ cid \in DOMAIN Constructs /\ done = FALSE
        /\ \E gs \in GapSets(Len(Toks(Constructs[cid]))) : lay \in [gs -> Fills \cup {"eof"}]
        /\ \A g \in DOMAIN lay : Legal(Constructs[cid], g, lay[g]) /\ lay[g] # Default(Constructs[cid], g)
Next == /\ ~done /\ done' = TRUE /\ UNCHANGED <<cid, lay>>
        /\ (Emit => PrintT(<<"T", ToJson([c |-> cid, gaps |-> {[g |-> g, f |-> lay[g]] : g \in DOMAIN lay}, pieces |-> Pieces(Constructs[cid], lay)])>>))

\* sanity of the layout rules themselves
ModelOK == /\ Asi("x") /\ Asi(")") /\ Asi("return") /\ ~Asi("{") /\ ~Asi(",") /\ ~Asi("else")
           /\ ~CanAbut("x", "y") /\ CanAbut("x", "(") /\ ~CanAbut("-", "-")
           /\ Toks(<<"a", B, "b">>) = <<"a", "b">> /\ Bounds(<<"a", B, "b", B>>, 0) = {1, 2}
=============================================================================
