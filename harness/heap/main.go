// Harness for C10: drives the real allocator (both copies) built from /repo's tree.
//
//	heap replay -impl pkg|runtime -base B -init I -max M -cap C < paths.ndjson > results.ndjson
//	heap record -impl ... -seed S -n N -profile P -maxlive L                    > trace.ndjson
//
// replay: every input line is a TLC-emitted history [[op,arg,reply,digest],...]; it is
// executed from a fresh instance and after every call the reply, the globals and the
// list shapes are compared with the specification's prediction.  Mismatching paths are
// re-executed with full projection of the real heap so that TLC can judge the observed
// execution against the contract.
// record: a seeded random driver; every call is logged with the full projection.
package main

import (
	"bufio"
	"bytes"
	"context"
	"encoding/json"
	"flag"
	"fmt"
	"math/rand"
	"os"
	"path/filepath"
	"sort"
	"strings"
	"text/template"
	"syscall"
	"time"

	"wa-lang.org/wa/internal/3rdparty/wazero"
	"wa-lang.org/wa/internal/3rdparty/wazero/api"
	"wa-lang.org/wa/internal/wat/watutil"
)

type Config struct {
	MemoryPages    int32
	MemoryPagesMax int32
	StackPtr       int32
	HeapBase       int32
	HeapLFixedCap  int32
}

var (
	ctx  = context.Background()
	repo = "/repo"
)

func moduleText(impl string, cfg Config) []byte {
	var buf bytes.Buffer
	switch impl {
	case "pkg":
		src, err := os.ReadFile(filepath.Join(repo, "internal/waroot/malloc/malloc.wat"))
		must(err)
		buf.WriteString("(module $malloc\n")
		must(template.Must(template.New("wat").Parse(string(src))).Execute(&buf, cfg))
		buf.WriteString("\n)")
	case "runtime":
		// the copy compiled programs use: waroot/src/runtime/heap_malloc.wat.ws, given the
		// globals base.wat.ws / the compiler would define, and exported entry points
		src, err := os.ReadFile(filepath.Join(repo, "waroot/src/runtime/heap_malloc.wat.ws"))
		must(err)
		fmt.Fprintf(&buf, "(module $malloc\n(memory $memory %d %d)\n(export \"memory\" (memory $memory))\n", cfg.MemoryPages, cfg.MemoryPagesMax)
		fmt.Fprintf(&buf, "(global $__stack_ptr (mut i32) (i32.const %d))\n(global $__heap_base i32 (i32.const %d))\n(global $__heap_lfixed_cap i32 (i32.const %d))\n", cfg.StackPtr, cfg.HeapBase, cfg.HeapLFixedCap)
		buf.WriteString(`(export "__heap_base" (global $__heap_base))
(export "__heap_ptr" (global $__heap_ptr))
(export "__heap_top" (global $__heap_top))
(export "__heap_l128_freep" (global $__heap_l128_freep))
`)
		buf.Write(src)
		buf.WriteString(`
(func $wa_malloc (export "wa_malloc") (param $size i32) (result i32)
	local.get $size
	call $runtime.malloc
)
(func $wa_free (export "wa_free") (param $ptr i32)
	local.get $ptr
	call $runtime.free
)
(func $_start (export "_start")
	call $wa_malloc_init_once
)
)`)
	default:
		panic("impl")
	}
	return buf.Bytes()
}

type Heap struct {
	cfg    Config
	mod    api.Module
	malloc api.Function
	free   api.Function
	live   map[int32]int32 // data ptr -> requested size
	fresh  int32           // block returned by the call being observed (no canary yet)
}

type Factory struct {
	cfg      Config
	rt       wazero.Runtime
	compiled wazero.CompiledModule
	n        int
}

func newFactory(impl string, cfg Config) *Factory {
	wasm, err := watutil.Wat2Wasm("malloc.wat", moduleText(impl, cfg))
	must(err)
	// interpreter engine: a call stuck in JIT code cannot be preempted and would block the GC (and with it this process) forever
	rt := wazero.NewRuntimeWithConfig(ctx, wazero.NewRuntimeConfigInterpreter())
	b := rt.NewHostModuleBuilder("env")
	b = b.NewFunctionBuilder().WithFunc(func(ctx context.Context, m api.Module, v int32) {}).Export("print_i32")
	b = b.NewFunctionBuilder().WithFunc(func(ctx context.Context, m api.Module, v1, v2 int32) {}).Export("print_i32_i32")
	_, err = b.Instantiate(ctx, rt)
	must(err)
	cm, err := rt.CompileModule(ctx, wasm)
	must(err)
	return &Factory{cfg: cfg, rt: rt, compiled: cm}
}

func (f *Factory) New() *Heap {
	f.n++
	mod, err := f.rt.InstantiateModule(ctx, f.compiled, wazero.NewModuleConfig().WithName(fmt.Sprintf("h%d", f.n)))
	must(err)
	return &Heap{cfg: f.cfg, mod: mod, malloc: mod.ExportedFunction("wa_malloc"), free: mod.ExportedFunction("wa_free"),
		live: map[int32]int32{}}
}

func (h *Heap) Close() { h.mod.Close(ctx) }

func (h *Heap) global(name string) int32 {
	return int32(uint32(h.mod.ExportedGlobal(name).Get(ctx)))
}
func (h *Heap) rd(a int32) (int32, bool) {
	v, ok := h.mod.Memory().ReadUint32Le(ctx, uint32(a))
	return int32(v), ok
}

type callResult struct {
	r    int32
	err  string
	hang bool
}

// call runs one allocator entry point; a call that does not return within the limit is
// reported as a hang (the process must then exit: the engine cannot be interrupted).
func call(fn api.Function, arg int32) callResult {
	ch := make(chan callResult, 1)
	go func() {
		defer func() {
			if e := recover(); e != nil {
				ch <- callResult{err: fmt.Sprint(e)}
			}
		}()
		res, err := fn.Call(ctx, api.EncodeI32(arg))
		if err != nil {
			ch <- callResult{err: err.Error()}
			return
		}
		var r int32
		if len(res) > 0 {
			r = api.DecodeI32(res[0])
		}
		ch <- callResult{r: r}
	}()
	// a hang is a call that has burnt 3 s of CPU time, or 60 s of wall time, without returning: on a loaded machine a call
	// that needs microseconds can be kept off the processor for seconds, so wall time alone does not decide
	cpu0 := cpuTime()
	t0 := time.Now()
	tick := time.NewTicker(100 * time.Millisecond)
	defer tick.Stop()
	for {
		select {
		case r := <-ch:
			return r
		case <-tick.C:
			if cpuTime()-cpu0 > 3*time.Second || time.Since(t0) > 60*time.Second {
				return callResult{hang: true}
			}
		}
	}
}

func cpuTime() time.Duration {
	var ru syscall.Rusage
	syscall.Getrusage(syscall.RUSAGE_SELF, &ru)
	return time.Duration(ru.Utime.Nano() + ru.Stime.Nano())
}

func canaryByte(p int32, i int) byte { return byte(0xA5 ^ byte(p>>3) ^ byte(i*7)) | 1 }

func sampleIdx(n int) []int {
	if n <= 512 {
		idx := make([]int, n)
		for i := range idx {
			idx[i] = i
		}
		return idx
	}
	var idx []int
	for i := 0; i < 192; i++ {
		idx = append(idx, i, n-1-i)
	}
	for i := 192; i < n-192; i += 509 {
		idx = append(idx, i)
	}
	return idx
}

func (h *Heap) setCanary(p, n int32) {
	mem := h.mod.Memory()
	if n <= 0 || uint32(p)+uint32(n) > mem.Size(ctx) {
		return
	}
	for _, i := range sampleIdx(int(n)) {
		mem.WriteByte(ctx, uint32(p)+uint32(i), canaryByte(p, i))
	}
}

// corrupted returns the addresses of live data bytes that no longer hold their canary
func (h *Heap) corrupted() []int32 {
	mem := h.mod.Memory()
	var bad []int32
	for p, n := range h.live {
		if p == h.fresh || n <= 0 || uint32(p)+uint32(n) > mem.Size(ctx) {
			continue
		}
		for _, i := range sampleIdx(int(n)) {
			b, _ := mem.ReadByte(ctx, uint32(p)+uint32(i))
			if b != canaryByte(p, i) {
				bad = append(bad, p+int32(i))
				if len(bad) > 8 {
					return bad
				}
				break
			}
		}
	}
	sort.Slice(bad, func(i, j int) bool { return bad[i] < bad[j] })
	return bad
}

type Event struct {
	Op      string     `json:"op"`
	N       int32      `json:"n"`
	R       int32      `json:"r"`
	HeapPtr int32      `json:"heapPtr"`
	HeapTop int32      `json:"heapTop"`
	Pages   int32      `json:"pages"`
	Freep   int32      `json:"freep"`
	Cells   [][3]int32 `json:"cells"`
	Corrupt []int32    `json:"corrupt"`
	Hang    bool       `json:"hang,omitempty"`
	Err     string     `json:"err,omitempty"`
}

const walkFuel = 4096

func (h *Heap) list(head int32, ring bool) []int32 {
	var out []int32
	nx, _ := h.rd(head + 4)
	fuel0 := walkFuel
	if !ring {
		// a fixed list holds `count` blocks; links beyond that are dead data
		if cnt, _ := h.rd(head); int(cnt) < fuel0 {
			fuel0 = int(cnt)
		}
	}
	for fuel := fuel0; fuel > 0; fuel-- {
		if nx == 0 || (ring && nx == head) {
			break
		}
		out = append(out, nx)
		v, ok := h.rd(nx + 4)
		if !ok {
			break
		}
		nx = v
	}
	return out
}

type Digest struct {
	HeapPtr, HeapTop, Freep int32
	Ring                    []int32
	Fixed                   [4][]int32
}

func (h *Heap) digest() Digest {
	base := h.cfg.HeapBase
	d := Digest{HeapPtr: h.global("__heap_ptr"), HeapTop: h.global("__heap_top"), Freep: h.global("__heap_l128_freep")}
	d.Ring = h.list(base+32, true)
	for i := 0; i < 4; i++ {
		d.Fixed[i] = h.list(base+int32(8*i), false)
	}
	return d
}

// project: every header cell an observer can find: the six header slots, every block on
// every list, every live block's header.
func (h *Heap) project(ev *Event) {
	base := h.cfg.HeapBase
	ev.HeapPtr, ev.HeapTop, ev.Freep = h.global("__heap_ptr"), h.global("__heap_top"), h.global("__heap_l128_freep")
	ev.Pages = int32(h.mod.Memory().Size(ctx) / 65536)
	seen := map[int32]bool{}
	add := func(a int32) {
		if seen[a] {
			return
		}
		seen[a] = true
		s, ok1 := h.rd(a)
		n, ok2 := h.rd(a + 4)
		if ok1 && ok2 {
			ev.Cells = append(ev.Cells, [3]int32{a, s, n})
		}
	}
	for i := int32(0); i < 6; i++ {
		add(base + 8*i)
	}
	for i := int32(0); i < 4; i++ {
		for _, a := range h.list(base+8*i, false) {
			add(a)
		}
	}
	for _, a := range h.list(base+32, true) {
		add(a)
	}
	for p := range h.live {
		add(p - 8)
	}
	sort.Slice(ev.Cells, func(i, j int) bool { return ev.Cells[i][0] < ev.Cells[j][0] })
	ev.Corrupt = h.corrupted()
	if ev.Corrupt == nil {
		ev.Corrupt = []int32{}
	}
}

// step performs one operation on the real allocator; full => project everything
func (h *Heap) step(op string, arg int32, full bool) Event {
	ev := Event{Op: op, N: arg, Cells: [][3]int32{}, Corrupt: []int32{}}
	var cr callResult
	if op == "m" {
		cr = call(h.malloc, arg)
	} else {
		delete(h.live, arg)
		cr = call(h.free, arg)
	}
	if cr.hang {
		ev.Hang = true
		return ev
	}
	if cr.err != "" {
		ev.Err = cr.err
		return ev
	}
	ev.R = cr.r
	if op == "m" && cr.r != 0 {
		if _, dup := h.live[cr.r]; !dup {
			h.fresh = cr.r
		}
		h.live[cr.r] = arg
	}
	if full {
		h.project(&ev)
	} else {
		ev.Corrupt = h.corrupted()
	}
	if op == "m" && cr.r != 0 {
		h.setCanary(cr.r, arg)
	}
	h.fresh = 0
	return ev
}

type specStep struct {
	op     string
	arg, r int32
	dg     *Digest
}

func parsePath(line []byte) ([]specStep, error) {
	var raw [][]json.RawMessage
	if err := json.Unmarshal(line, &raw); err != nil {
		return nil, err
	}
	var out []specStep
	for _, st := range raw {
		var s specStep
		json.Unmarshal(st[0], &s.op)
		json.Unmarshal(st[1], &s.arg)
		json.Unmarshal(st[2], &s.r)
		var d []json.RawMessage
		json.Unmarshal(st[3], &d)
		if len(d) == 8 {
			dg := &Digest{}
			json.Unmarshal(d[0], &dg.HeapPtr)
			json.Unmarshal(d[1], &dg.HeapTop)
			json.Unmarshal(d[2], &dg.Freep)
			json.Unmarshal(d[3], &dg.Ring)
			for i := 0; i < 4; i++ {
				json.Unmarshal(d[4+i], &dg.Fixed[i])
			}
			s.dg = dg
		}
		out = append(out, s)
	}
	return out, nil
}

func eqList(a, b []int32) bool {
	if len(a) != len(b) {
		return false
	}
	for i := range a {
		if a[i] != b[i] {
			return false
		}
	}
	return true
}

func (d Digest) eq(o Digest) bool {
	if d.HeapPtr != o.HeapPtr || d.HeapTop != o.HeapTop || d.Freep != o.Freep || !eqList(d.Ring, o.Ring) {
		return false
	}
	for i := 0; i < 4; i++ {
		if !eqList(d.Fixed[i], o.Fixed[i]) {
			return false
		}
	}
	return true
}

type Result struct {
	Path   int     `json:"path"`
	Step   int     `json:"step"`
	Kind   string  `json:"kind"` // mismatch | hang | trap | corrupt
	Expect interface{}     `json:"expect,omitempty"`
	Got    interface{}     `json:"got,omitempty"`
	Ops    [][]interface{} `json:"ops"`
	Obs    []Event `json:"obs"`
}

func replay(f *Factory, skip int) {
	in := bufio.NewReaderSize(os.Stdin, 1<<20)
	out := bufio.NewWriter(os.Stdout)
	defer out.Flush()
	enc := json.NewEncoder(out)
	paths, calls, bad := 0, 0, 0
	for idx := 0; ; idx++ {
		line, err := in.ReadBytes('\n')
		if len(bytes.TrimSpace(line)) == 0 {
			if err != nil {
				break
			}
			continue
		}
		if idx < skip {
			continue
		}
		steps, perr := parsePath(bytes.TrimSpace(line))
		if perr != nil {
			fmt.Fprintln(os.Stderr, "bad path line", idx, perr)
			os.Exit(2)
		}
		paths++
		h := f.New()
		failAt, kind := -1, ""
		var got interface{}
		var exp interface{}
		for k, s := range steps {
			calls++
			ev := h.step(s.op, s.arg, false)
			switch {
			case ev.Hang:
				failAt, kind = k, "hang"
			case ev.Err != "":
				failAt, kind, got = k, "trap", ev.Err
			case s.r == -1 || s.dg == nil:
				// the specification predicts divergence but the code returned
				failAt, kind, exp, got = k, "mismatch", "diverges", ev.R
			case ev.R != s.r:
				failAt, kind, exp, got = k, "mismatch", s.r, ev.R
			case len(ev.Corrupt) > 0:
				failAt, kind, got = k, "corrupt", ev.Corrupt
			default:
				if d := h.digest(); !d.eq(*s.dg) {
					failAt, kind, exp, got = k, "mismatch", *s.dg, d
				}
			}
			if failAt >= 0 {
				break
			}
		}
		if failAt >= 0 {
			bad++
			res := Result{Path: idx, Step: failAt, Kind: kind, Expect: exp, Got: got}
			for _, s := range steps {
				res.Ops = append(res.Ops, []interface{}{s.op, s.arg})
			}
			if kind != "hang" {
				h.Close()
				// observe the same history again with the full projection
				h = f.New()
				for k := 0; k <= failAt; k++ {
					ev := h.step(steps[k].op, steps[k].arg, true)
					res.Obs = append(res.Obs, ev)
					if ev.Hang || ev.Err != "" {
						break
					}
				}
			} else {
				res.Obs = []Event{}
			}
			enc.Encode(res)
			if kind == "hang" {
				// the stuck call cannot be abandoned: report where to resume and leave
				fmt.Fprintf(out, "{\"resume\":%d,\"paths\":%d,\"calls\":%d,\"bad\":%d}\n", idx+1, paths, calls, bad)
				out.Flush()
				os.Exit(3)
			}
		}
		h.Close()
		if err != nil {
			break
		}
	}
	fmt.Fprintf(out, "{\"done\":true,\"paths\":%d,\"calls\":%d,\"bad\":%d}\n", paths, calls, bad)
}

func record(f *Factory, seed int64, n int, profile string, maxlive int, sizesCSV string) {
	rng := rand.New(rand.NewSource(seed))
	out := bufio.NewWriter(os.Stdout)
	defer out.Flush()
	enc := json.NewEncoder(out)
	h := f.New()
	var order []int32 // live pointers in allocation order
	var sizes []int32
	for _, s := range strings.Split(sizesCSV, ",") {
		var v int32
		if _, err := fmt.Sscan(s, &v); err == nil {
			sizes = append(sizes, v)
		}
	}
	pick := func() int32 {
		switch profile {
		case "small":
			return int32(rng.Intn(100))
		case "class":
			b := []int32{0, 1, 8, 23, 24, 25, 31, 32, 33, 47, 48, 49, 79, 80, 81, 120, 127, 128, 129, 136, 200, 256}
			return b[rng.Intn(len(b))]
		case "page":
			b := []int32{1, 24, 100, 1000, 4000, 30000, 60000, 65000, 65528, 65536, 70000, 131000}
			return b[rng.Intn(len(b))]
		case "set":
			return sizes[rng.Intn(len(sizes))]
		default: // mixed
			if rng.Intn(4) == 0 {
				return int32(rng.Intn(3000))
			}
			return int32(rng.Intn(160))
		}
	}
	phase := 0
	for i := 0; i < n; i++ {
		doFree := false
		if len(order) >= maxlive {
			doFree = true
		} else if len(order) > 0 {
			// phases: grow, shrink, churn
			if i%400 == 0 {
				phase = rng.Intn(3)
			}
			switch phase {
			case 0:
				doFree = rng.Intn(10) < 3
			case 1:
				doFree = rng.Intn(10) < 7
			default:
				doFree = rng.Intn(2) == 0
			}
		}
		var ev Event
		if doFree {
			var k int
			switch rng.Intn(4) {
			case 0:
				k = 0 // FIFO
			case 1:
				k = len(order) - 1 // LIFO
			default:
				k = rng.Intn(len(order))
			}
			p := order[k]
			order = append(order[:k], order[k+1:]...)
			ev = h.step("f", p, true)
		} else {
			ev = h.step("m", pick(), true)
			if ev.R != 0 && !ev.Hang && ev.Err == "" {
				order = append(order, ev.R)
			}
		}
		enc.Encode(ev)
		if ev.Hang {
			out.Flush()
			os.Exit(3)
		}
		if ev.Err != "" {
			break
		}
	}
}

// observe: execute histories ([[op,arg],...] per line) and log the full projection of
// every step, separated by reset events.
func observe(f *Factory) {
	in := bufio.NewReaderSize(os.Stdin, 1<<20)
	out := bufio.NewWriter(os.Stdout)
	defer out.Flush()
	enc := json.NewEncoder(out)
	for {
		line, err := in.ReadBytes('\n')
		if t := bytes.TrimSpace(line); len(t) > 0 {
			var ops [][]json.RawMessage
			must(json.Unmarshal(t, &ops))
			h := f.New()
			enc.Encode(map[string]string{"op": "reset"})
			for _, o := range ops {
				var op string
				var arg int32
				json.Unmarshal(o[0], &op)
				json.Unmarshal(o[1], &arg)
				ev := h.step(op, arg, true)
				enc.Encode(ev)
				if ev.Hang {
					out.Flush()
					os.Exit(3)
				}
				if ev.Err != "" {
					break
				}
			}
			h.Close()
		}
		if err != nil {
			break
		}
	}
}

func must(err error) {
	if err != nil {
		fmt.Fprintln(os.Stderr, "harness error:", err)
		os.Exit(2)
	}
}

func main() {
	if len(os.Args) < 2 {
		os.Exit(2)
	}
	fs := flag.NewFlagSet(os.Args[1], flag.ExitOnError)
	impl := fs.String("impl", "pkg", "")
	base := fs.Int("base", 65000, "")
	initp := fs.Int("init", 1, "")
	maxp := fs.Int("max", 2, "")
	capn := fs.Int("cap", 1, "")
	skip := fs.Int("skip", 0, "")
	seed := fs.Int64("seed", 1, "")
	n := fs.Int("n", 1000, "")
	profile := fs.String("profile", "mixed", "")
	maxlive := fs.Int("maxlive", 40, "")
	sizes := fs.String("sizes", "", "")
	fs.StringVar(&repo, "repo", "/repo", "")
	fs.Parse(os.Args[2:])
	cfg := Config{MemoryPages: int32(*initp), MemoryPagesMax: int32(*maxp), StackPtr: 64, HeapBase: int32(*base), HeapLFixedCap: int32(*capn)}
	f := newFactory(*impl, cfg)
	switch os.Args[1] {
	case "replay":
		replay(f, *skip)
	case "record":
		record(f, *seed, *n, *profile, *maxlive, *sizes)
	case "observe":
		observe(f)
	case "dumpwat":
		os.Stdout.Write(moduleText(*impl, cfg))
	default:
		os.Exit(2)
	}
}
