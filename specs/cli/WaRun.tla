------------------------------- MODULE WaRun -------------------------------
(* C29: `wa run` exit status.  A program's life as a state machine: build,    *)
(* package initialisation, main; it prints some lines and then ends in one of *)
(* the ways below, at one of several places.  The contract maps the way it    *)
(* ended to the exit status of the command and says that everything printed   *)
(* before termination is on stdout.  TLC enumerates every program descriptor  *)
(* and every path; each terminal state is rendered as a real program.         *)
EXTENDS Integers, Sequences, FiniteSets, TLC, Json
CONSTANTS Emit

Langs == {"wa", "wz", "wat"}
ExitCodes == {0, 1, 3, 255}
Ends == {[k |-> "return"]} \cup {[k |-> "exit", n |-> n] : n \in ExitCodes}
        \cup {[k |-> "panic", why |-> w] : w \in {"explicit", "nilmap", "typeassert"}}
        \cup {[k |-> "trap", why |-> w] : w \in {"divzero", "unreachable", "oob", "stack", "indirect"}}
        \cup {[k |-> "builderr", why |-> w] : w \in {"syntax", "type"}}
Wheres == {"main", "callee", "deferred", "init"}

\* which descriptors exist in which surface syntax
Supported(lang, e, where) ==
  CASE lang = "wat" -> /\ where \in {"main", "callee"}
                       /\ (e.k \in {"return", "exit", "trap"} \/ (e.k = "builderr" /\ e.why = "syntax"))
    [] lang = "wz"  -> /\ where \in {"main", "callee"}
                       /\ (e.k \in {"return", "exit", "builderr"} \/ (e.k = "panic" /\ e.why = "explicit")
                           \/ (e.k = "trap" /\ e.why = "divzero"))
    [] lang = "wa"  -> /\ (e.k = "trap" => e.why \in {"divzero", "stack"})
                       /\ (where = "deferred" => e.k \in {"exit", "panic", "trap"})
                       /\ (where = "init" => e.k \in {"exit", "panic", "trap"})
                       /\ (e.k = "builderr" => where = "main")
                       /\ (e.k = "return" => where = "main")

VARIABLES prog, pc, out, status
vars == <<prog, pc, out, status>>

Init == /\ prog \in { [lang |-> l, end |-> e, where |-> w, prints |-> p] :
                       l \in Langs, e \in Ends, w \in Wheres, p \in {0, 2} }
        /\ Supported(prog.lang, prog.end, prog.where)
        /\ (prog.end.k = "builderr" => prog.prints = 0)
        /\ pc = "build" /\ out = << >> /\ status = [class |-> "running"]

\* how a way of ending shows in the exit status (the contract)
StatusOf(e) == CASE e.k = "return" -> [class |-> "zero"]
                 [] e.k = "exit" -> [class |-> "code", n |-> e.n]
                 [] OTHER -> [class |-> "nonzero"]

Build == /\ pc = "build"
         /\ IF prog.end.k = "builderr"
            THEN pc' = "done" /\ status' = StatusOf(prog.end) /\ out' = out
            ELSE pc' = "init" /\ UNCHANGED <<status, out>>
         /\ UNCHANGED prog
\* package initialisation runs before main: an ending placed there stops the program
\* before anything is printed by main
RunInit == /\ pc = "init"
           /\ IF prog.where = "init"
              THEN pc' = "done" /\ status' = StatusOf(prog.end) /\ out' = out
              ELSE pc' = "main" /\ UNCHANGED <<status, out>>
           /\ UNCHANGED prog
PrintLine == /\ pc = "main" /\ Len(out) < prog.prints
             /\ out' = Append(out, Len(out) + 1)
             /\ UNCHANGED <<prog, pc, status>>
End == /\ pc = "main" /\ Len(out) = prog.prints
       /\ pc' = "done" /\ status' = StatusOf(prog.end)
       /\ UNCHANGED <<prog, out>>
Emitted == /\ pc = "done" /\ Emit
           /\ PrintT(<<"T", ToJson([prog |-> prog, status |-> status, out |-> out])>>)
           /\ pc' = "emitted" /\ UNCHANGED <<prog, out, status>>
Next == Build \/ RunInit \/ PrintLine \/ End \/ Emitted

\* the property, as invariants of the machine
ZeroIffReturn == pc = "done" => (status.class = "zero" <=> prog.end.k = "return")
ExitCodeKept == (pc = "done" /\ prog.end.k = "exit") => status = [class |-> "code", n |-> prog.end.n]
FailuresNonZero == (pc = "done" /\ prog.end.k \in {"panic", "trap", "builderr"}) => status.class = "nonzero"
OutputComplete == (pc = "done" /\ prog.where # "init" /\ prog.end.k # "builderr") => Len(out) = prog.prints
=============================================================================
