// Harness for C07 and C08: drives the real front ends (format, parse, type check, WAT and
// native-assembly parsers) on sources generated from the TLA+ layout / token models.
//
//	front fmt   < cases.ndjson   (C07: format twice, compare ASTs, comments, compiled WAT)
//	front crash < cases.ndjson   (C08: every entry point returns; panics recovered; watchdog for hangs)
package main

import (
	"bufio"
	"bytes"
	"encoding/hex"
	"encoding/json"
	"fmt"
	"os"
	"reflect"
	"regexp"
	"sort"
	"strings"
	"syscall"
	"time"

	"wa-lang.org/wa/api"
	"wa-lang.org/wa/internal/ast"
	"wa-lang.org/wa/internal/native/abi"
	natparser "wa-lang.org/wa/internal/native/parser"
	nattoken "wa-lang.org/wa/internal/native/token"
	"wa-lang.org/wa/internal/parser"
	"wa-lang.org/wa/internal/token"
	watparser "wa-lang.org/wa/internal/wat/parser"
)

type FmtCase struct {
	ID      int    `json:"id"`
	Name    string `json:"name"`
	Src     string `json:"src"`
	Compile bool   `json:"compile"`
}

type FmtRes struct {
	ID        int      `json:"id"`
	Err1      string   `json:"err1"`
	Err2      string   `json:"err2"`
	Out1      string   `json:"out1"`
	Fixpoint  bool     `json:"fixpoint"`
	ParseSrc  string   `json:"parse_src"` // error of parsing the input itself
	ParseOut  string   `json:"parse_out"` // error of parsing the formatted text
	AstEqual  bool     `json:"ast_equal"`
	AstDiff   string   `json:"ast_diff"`
	ComSrc    []string `json:"com_src"`
	ComOut    []string `json:"com_out"`
	Panic     string   `json:"panic"`
	WatEqual  *bool    `json:"wat_equal"`      // byte-identical WAT
	WatNormEq *bool    `json:"wat_norm_equal"` // identical after removing data segments and i32 constants (embedded source positions)
	WatErrSrc string   `json:"wat_err_src"`
	WatErrOut string   `json:"wat_err_out"`
}

var posType = reflect.TypeOf(token.NoPos)

// structural dump of a syntax tree: no positions, no resolution data, no comments
func dump(f *ast.File) string {
	var b bytes.Buffer
	ast.Fprint(&b, nil, f, func(name string, v reflect.Value) bool {
		if v.Type() == posType {
			return false
		}
		switch name {
		case "Obj", "Scope", "Unresolved", "Comments", "Doc", "Comment":
			return false
		}
		return ast.NotNilFilter(name, v)
	})
	// drop the line-number gutter of ast.Fprint
	var o strings.Builder
	for _, l := range strings.Split(b.String(), "\n") {
		if i := strings.Index(l, "  "); i >= 0 {
			l = l[i:]
		}
		o.WriteString(l)
		o.WriteByte('\n')
	}
	return o.String()
}

func parse(name, src string) (*ast.File, []string, error) {
	fset := token.NewFileSet()
	f, err := parser.ParseFile(nil, fset, name, src, parser.ParseComments)
	if err != nil {
		return nil, nil, err
	}
	coms := []string{}
	for _, g := range f.Comments {
		for _, c := range g.List {
			coms = append(coms, c.Text)
		}
	}
	sort.Strings(coms)
	return f, coms, nil
}

// the formatter sorts the import specs of a group by path: the trees are compared modulo that order
func sortImports(f *ast.File) {
	if f == nil {
		return
	}
	for _, d := range f.Decls {
		g, ok := d.(*ast.GenDecl)
		if !ok || g.Tok != token.IMPORT {
			continue
		}
		sort.SliceStable(g.Specs, func(i, j int) bool {
			a, b := g.Specs[i].(*ast.ImportSpec), g.Specs[j].(*ast.ImportSpec)
			return a.Path.Value < b.Path.Value
		})
	}
	sort.SliceStable(f.Imports, func(i, j int) bool { return f.Imports[i].Path.Value < f.Imports[j].Path.Value })
}

func firstDiff(a, b string) string {
	la, lb := strings.Split(a, "\n"), strings.Split(b, "\n")
	for i := 0; i < len(la) && i < len(lb); i++ {
		if la[i] != lb[i] {
			return fmt.Sprintf("line %d: %q vs %q", i, strings.TrimSpace(la[i]), strings.TrimSpace(lb[i]))
		}
	}
	return fmt.Sprintf("length %d vs %d", len(la), len(lb))
}

func fmtOne(c *FmtCase) (r FmtRes) {
	r.ID = c.ID
	r.ComSrc, r.ComOut = []string{}, []string{}
	defer func() {
		if e := recover(); e != nil {
			r.Panic = fmt.Sprint(e)
		}
	}()
	f0, c0, err := parse(c.Name, c.Src)
	sortImports(f0)
	if err != nil {
		r.ParseSrc = err.Error()
		return
	}
	r.ComSrc = c0
	out1, err := api.FormatCode(c.Name, c.Src)
	if err != nil {
		r.Err1 = err.Error()
		return
	}
	r.Out1 = out1
	out2, err := api.FormatCode(c.Name, out1)
	if err != nil {
		r.Err2 = err.Error()
		return
	}
	r.Fixpoint = out1 == out2
	f1, c1, err := parse(c.Name, out1)
	if err != nil {
		r.ParseOut = err.Error()
		return
	}
	r.ComOut = c1
	sortImports(f1)
	d0, d1 := dump(f0), dump(f1)
	r.AstEqual = d0 == d1
	if !r.AstEqual {
		r.AstDiff = firstDiff(d0, d1)
	}
	if c.Compile {
		_, w0, _, e0 := api.BuildFile(api.DefaultConfig(), c.Name, c.Src)
		_, w1, _, e1 := api.BuildFile(api.DefaultConfig(), c.Name, out1)
		if e0 != nil {
			r.WatErrSrc = e0.Error()
		}
		if e1 != nil {
			r.WatErrOut = e1.Error()
		}
		eq := bytes.Equal(w0, w1) && (e0 == nil) == (e1 == nil)
		r.WatEqual = &eq
		neq := eq || ((e0 == nil) == (e1 == nil) && normWat(w0) == normWat(w1))
		r.WatNormEq = &neq
	}
	return
}

var reConst = regexp.MustCompile(`i32\.const -?\d+`)

// the compiler embeds "file:line:col" strings for run-time panics in the data segment; their
// lengths move every later data address, so data segments and i32 constants are masked
func normWat(w []byte) string {
	var o strings.Builder
	for _, l := range strings.Split(string(w), "\n") {
		if strings.HasPrefix(strings.TrimSpace(l), "(data ") {
			continue
		}
		o.WriteString(reConst.ReplaceAllString(l, "i32.const N"))
		o.WriteByte('\n')
	}
	return o.String()
}

func cmdFmt() {
	in := bufio.NewReaderSize(os.Stdin, 1<<20)
	w := bufio.NewWriter(os.Stdout)
	defer w.Flush()
	dec := json.NewDecoder(in)
	for dec.More() {
		var c FmtCase
		if err := dec.Decode(&c); err != nil {
			fmt.Fprintln(os.Stderr, "bad case:", err)
			os.Exit(2)
		}
		b, _ := json.Marshal(fmtOne(&c))
		w.Write(b)
		w.WriteByte('\n')
	}
}

// ---- C08 ----

type CrashCase struct {
	ID   int    `json:"id"`
	Name string `json:"name"`
	Hex  string `json:"hex"`
}
type CrashRes struct {
	ID      int    `json:"id"`
	Entry   string `json:"entry"`
	Outcome string `json:"outcome"` // ok | error | panic
	Detail  string `json:"detail"`
	Micros  int64  `json:"us"`
}

type entry struct {
	name string
	run  func(name string, src []byte) error
}

var entries = []entry{
	{"api.FormatCode", func(n string, s []byte) error { _, e := api.FormatCode(n, string(s)); return e }},
	{"api.GetCodeSyntax", func(n string, s []byte) error { _ = api.GetCodeSyntax(n, s); return nil }},
	{"parser.ParseFile", func(n string, s []byte) error {
		_, e := parser.ParseFile(nil, token.NewFileSet(), n, s, parser.ParseComments|parser.AllErrors)
		return e
	}},
	{"api.BuildFile", func(n string, s []byte) error {
		if !(strings.HasSuffix(n, ".wa") || strings.HasSuffix(n, ".wz")) {
			return nil
		}
		_, _, _, e := api.BuildFile(api.DefaultConfig(), n, string(s))
		return e
	}},
	{"wat/parser", func(n string, s []byte) error { _, e := watparser.ParseModule(n, s); return e }},
	{"native/parser", func(n string, s []byte) error { return natParse(n, s) }},
}

func natParse(n string, s []byte) error {
	_, err := natparser.ParseFile(cpuOf(n), nattoken.NewFileSet(), n, s)
	return err
}

// the CPU of an assembly source is part of the generated file name (a.riscv64.wa.s)
func cpuOf(n string) abi.CPUType {
	switch {
	case strings.Contains(n, "loong64"):
		return abi.LOONG64
	case strings.Contains(n, "riscv32"):
		return abi.RISCV32
	case strings.Contains(n, "x64"):
		return abi.X64Unix
	}
	return abi.RISCV64
}

func cmdCrash(only string, limit time.Duration) {
	in := bufio.NewReaderSize(os.Stdin, 1<<20)
	w := bufio.NewWriter(os.Stdout)
	dec := json.NewDecoder(in)
	type cur struct {
		id    int
		entry string
		t0    time.Time
	}
	state := make(chan cur, 1)
	// watchdog: a call that has burnt `limit` of CPU time without returning (a busy loop), or has not returned after 12 x limit of
	// wall time (blocked), ends the process with a HANG record. CPU time, not wall time, decides the common case: on a loaded
	// machine a call that needs milliseconds can be kept off the processor for seconds.
	cpuNow := func() time.Duration {
		var ru syscall.Rusage
		syscall.Getrusage(syscall.RUSAGE_SELF, &ru)
		return time.Duration(ru.Utime.Nano() + ru.Stime.Nano())
	}
	go func() {
		var c cur
		var cpu0 time.Duration
		tick := time.NewTicker(50 * time.Millisecond)
		for {
			select {
			case c = <-state:
				cpu0 = cpuNow()
			case <-tick.C:
				lim := limit
				if c.entry == "api.BuildFile" {
					lim = 6 * limit // a text that parses is compiled together with the runtime library
				}
				if c.entry != "" && (cpuNow()-cpu0 > lim || time.Since(c.t0) > 12*lim) {
					b, _ := json.Marshal(CrashRes{ID: c.id, Entry: c.entry, Outcome: "hang", Micros: int64(time.Since(c.t0) / time.Microsecond)})
					os.Stdout.Write(append(b, '\n'))
					os.Exit(3)
				}
			}
		}
	}()
	for dec.More() {
		var c CrashCase
		if err := dec.Decode(&c); err != nil {
			fmt.Fprintln(os.Stderr, "bad case:", err)
			os.Exit(2)
		}
		src, _ := hex.DecodeString(c.Hex)
		for _, e := range entries {
			if only != "" && only != e.name {
				continue
			}
			// results are flushed before the next entry starts so that a hang loses nothing
			w.Flush()
			state <- cur{c.ID, e.name, time.Now()}
			r := CrashRes{ID: c.ID, Entry: e.name}
			t0 := time.Now()
			func() {
				defer func() {
					if p := recover(); p != nil {
						r.Outcome, r.Detail = "panic", fmt.Sprint(p)
					}
				}()
				if err := e.run(c.Name, src); err != nil {
					r.Outcome = "error"
				} else {
					r.Outcome = "ok"
				}
			}()
			r.Micros = int64(time.Since(t0) / time.Microsecond)
			state <- cur{}
			b, _ := json.Marshal(r)
			w.Write(b)
			w.WriteByte('\n')
		}
	}
	w.Flush()
}

// ---- language dispatch (C08, WaDispatch.tla) ----

type SynRes struct {
	ID     int    `json:"id"`
	Lang   string `json:"lang"`
	Fmt    string `json:"fmt"` // same | changed | error | panic
	Detail string `json:"detail"`
}

func cmdSyntax() {
	dec := json.NewDecoder(bufio.NewReaderSize(os.Stdin, 1<<20))
	w := bufio.NewWriter(os.Stdout)
	defer w.Flush()
	for dec.More() {
		var c CrashCase
		if err := dec.Decode(&c); err != nil {
			os.Exit(2)
		}
		src, _ := hex.DecodeString(c.Hex)
		r := SynRes{ID: c.ID}
		func() {
			defer func() {
				if p := recover(); p != nil {
					r.Lang, r.Detail = "panic", fmt.Sprint(p)
				}
			}()
			r.Lang = api.GetCodeSyntax(c.Name, src)
		}()
		func() {
			defer func() {
				if p := recover(); p != nil {
					r.Fmt, r.Detail = "panic", fmt.Sprint(p)
				}
			}()
			out, err := api.FormatCode(c.Name, string(src))
			switch {
			case err != nil:
				r.Fmt = "error"
			case out == string(src):
				r.Fmt = "same"
			default:
				r.Fmt = "changed"
			}
		}()
		b, _ := json.Marshal(r)
		w.Write(b)
		w.WriteByte('\n')
	}
}

func main() {
	if len(os.Args) < 2 {
		fmt.Fprintln(os.Stderr, "usage: front fmt|crash")
		os.Exit(2)
	}
	switch os.Args[1] {
	case "fmt":
		cmdFmt()
	case "syntax":
		cmdSyntax()
	case "crash":
		only := ""
		if len(os.Args) > 2 {
			only = os.Args[2]
		}
		cmdCrash(only, 10*time.Second)
	default:
		os.Exit(2)
	}
}
