"""C25 -- SLIP / SLIPMUX framing: Slip.tla (writer, channel with chunking, reader
transcribed) checked by TLC for every case of the bounded space; every case replayed
through the real Writer/Reader with a transport that serves exactly the TLC chunks."""
import json
import os

import common
from common import MachineryError

LEVEL = "model_checking"
FIXSTATE = "TRUE"     # the Reader on this tree keeps esc/partial state across calls (fix: commit)


def cfg(alphabet, maxlen, maxpkts, frames, zero, maxcuts, idle=1, emit=False):
    return """CONSTANTS
  Alphabet = {%s}
  MaxLen = %d
  MaxPkts = %d
  Frames = {%s}
  ZeroReads = %s
  IdlePolls = %d
  MaxCuts = %d
  FixState = %s
  Emit = %s
INIT Init
NEXT Next
INVARIANTS DeliveredIsSent
""" % (",".join(map(str, alphabet)), maxlen, maxpkts, ",".join(map(str, frames)), "TRUE" if zero else "FALSE",
       idle, maxcuts, FIXSTATE, "TRUE" if emit else "FALSE")


# END, ESC, ESC_END, ESC_ESC, ASCII, a UTF-8 continuation byte, LF, NUL, a 3-byte lead, 0xFF
A_PLAIN = [192, 219, 220, 221, 65, 169, 10, 0, 228, 255]
A_MUX = [192, 219, 220, 221, 65, 69, 169, 96]


def configs(thorough):
    if thorough:
        return [
            # sized so that no single set exceeds TLC's limit of 10^6 elements and every configuration finishes in minutes
            ("plain/zero-reads", A_PLAIN, 2, 2, [999], True, 2),
            ("plain/long-zero-reads", A_PLAIN, 3, 1, [999], True, 2),
            ("plain/blocking", A_PLAIN, 3, 1, [999], False, 1),
            ("plain/3-packets", A_PLAIN[:5], 2, 3, [999], True, 1),
            ("mux/zero-reads", A_MUX, 4, 1, [10, 169, 998, 7], True, 2),   # frame types 192, 219 and 0 are skipped by design: outside the domain
            ("mux/2-packets", A_MUX[:5] + [69], 2, 2, [10, 998, 7], True, 1),
            ("mux/coap-2-packets", [192, 219, 65], 4, 2, [169], True, 1),
            ("plain/idle-polls", A_PLAIN[:7], 2, 2, [999], True, 2, 2),
            ("plain/3-idle-polls", A_PLAIN[:5], 2, 2, [999], True, 2, 3),
            ("mux/idle-polls", A_MUX[:5] + [69], 2, 2, [10, 998, 7], True, 1, 2),
            ("mux/coap-idle-polls", [192, 219, 65], 4, 2, [169], True, 1, 2),
        ]
    return [
        ("plain/zero-reads", A_PLAIN[:7], 2, 2, [999], True, 2),
        ("plain/blocking", A_PLAIN, 3, 1, [999], False, 1),
        ("mux/zero-reads", A_MUX[:7], 4, 1, [10, 169, 998], True, 1),
        ("mux/2-packets", [192, 219, 65, 69], 2, 2, [10, 998], True, 1),
        # a poll loop on an idle transport: every chunk boundary shows as two consecutive empty reads (added after seed C25-2)
        ("plain/idle-polls", A_PLAIN[:5], 2, 2, [999], True, 2, 2),
        ("mux/idle-polls", [192, 219, 65, 69], 2, 2, [10, 998], True, 1, 3),
    ]


def key_of(case):
    c = case["case"]
    return "C25:%s:%s:%s" % ("mux" if c["mux"] else "plain", "zero-reads" if c["zero"] and c["cuts"] else "no-gaps",
                             case["fail"].split(":")[0].replace(" ", "-"))


def run(chk):
    b = common.go_build("net")
    thorough = chk.tier == "thorough"
    chk.assume("payloads are non-empty; SLIPMUX frame types are valid ones (invalid types are skipped by design), CoAP payloads >= 4 bytes, an IP frame's type is its first payload byte")
    chk.assume("zero-reads mode: a chunk boundary is visible to the reader as IdlePolls (1, 2 or 3) consecutive reads returning (0, nil); the client concatenates prefixes as SlipMuxReader does")
    d = common.subdir("c25")
    sample_done = False

    def one(c):
        name = c[0]
        path = os.path.join(d, name.replace("/", "_") + ".txt")
        with open(path, "w") as fh:
            res = common.run_tlc("net", "Slip", "c.cfg", files={"c.cfg": cfg(*c[1:], emit=True)}, collect_prefix='<<"T"',
                                 timeout=3000, line_cb=lambda l: fh.write(l + "\n"), workers=6)
        rc, so, se, to = common.run_child([b, "slip", path], timeout=1800)
        first = open(path).readline()
        os.unlink(path)
        if rc != 0:
            raise MachineryError("net harness failed: " + se[-1500:])
        return name, res, [json.loads(l) for l in so.splitlines() if l.strip()], first
    for name, res, lines, first in common.parallel(one, configs(thorough), workers=3):
        chk.tlc(res, name)
        done = [l for l in lines if l.get("done")]
        if not done or done[0]["n"] == 0:
            raise MachineryError("no cases replayed for " + name)
        chk.add("traces_validated_against_impl", done[0]["n"])
        chk.add("cases_where_real_wire_equals_spec_wire", done[0]["n"] - done[0]["wiredrift"] - done[0]["bad"])
        if done[0]["drift"] or done[0]["wiredrift"]:
            chk.notes.append("model drift in %s: %d cases deliver what the contract demands but not what Slip.tla's reader predicts, %d wires differ" % (
                name, done[0]["drift"], done[0]["wiredrift"]))
        p = common.parse_printt(first.rstrip("\n"), "T")
        if p:
            chk.sample({"config": name, "case": json.loads(p[0])})
        fails = [l for l in lines if "fail" in l]
        for l in fails:
            chk.report(key_of(l), "%s: sent %s cuts %s (%s): delivered %s" % (l["fail"], json.dumps(l["case"]["sent"]), l["case"]["cuts"],
                                                                            "zero-length reads at cuts" if l["case"]["zero"] else "blocking", json.dumps(l["got"])),
                       {"case": l["case"], "got": l["got"], "wire": l["wire"], "fail": l["fail"]})
        if res.violated and not fails:
            raise MachineryError("Slip.tla violates %s in %s but the real reader delivers every case: the spec misdescribes the code" % (res.violated, name))
    chk.cov["exhaustive"] = True
    chk.cov["explanation"] = ("every case (packet sequence x cut set) of each bounded configuration was evaluated by TLC (DeliveredIsSent as invariant on the "
                              "transcribed reader) and executed on the real slip.Writer/Reader/SlipMuxWriter/SlipMuxReader")


def replay(chk, path):
    rec = json.load(open(path))["record"]
    b = common.go_build("net")
    d = common.subdir("c25")
    p = os.path.join(d, "r.txt")
    js = json.dumps(rec["case"]).replace("\\", "\\\\").replace('"', '\\"')
    open(p, "w").write('<<"T", "%s">>\n' % js)
    rc, so, se, to = common.run_child([b, "slip", p], timeout=60)
    for l in so.splitlines():
        l = json.loads(l)
        if "fail" in l:
            chk.report(key_of(l), l["fail"], l)
