// Read-only accessor used by the verification harness (overlay only, never in /repo).
package wazero

import "wa-lang.org/wa/internal/3rdparty/wazero"

// VerifRuntime exposes the engine runtime so that the harness can add its host module.
func VerifRuntime(p *Module) wazero.Runtime { return p.wazeroRuntime }
