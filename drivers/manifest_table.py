"""The table MANIFEST.json is generated from (python3 drivers/manifest.py)."""
HOOK_COMMITS = []
CHECKS = {}
NOT_APPLICABLE = {}


def claim(pid, category, technique, text, note, ref):
    CHECKS[pid] = (category, technique, text, note, ref)


def skip(pid, reason):
    NOT_APPLICABLE[pid] = reason


claim("C10", "model_checking", "TLA+ implementation spec refines contract (TLC) + transition replay on both allocator copies + TLC validation of recorded traces",
      "WaHeap.tla transcribes malloc.wat block by block; TLC checks the C10 contract (WaHeapContract: in-heap, aligned, large enough, "
      "no overlap, tiling, list well-formedness, writes outside live data, fails only when exhausted) in every state of bounded "
      "configurations (cap 0/1/2/3, page-boundary heap bases, 5-8 request sizes, up to 9 operations). Every transition of the emitted "
      "configurations is executed on both real allocator copies (internal/waroot/malloc/malloc.wat and waroot/src/runtime/heap_malloc.wat.ws) "
      "and compared step by step; random recorded executions are judged by TLC against the contract (WaHeapObs) and the implementation "
      "spec (WaHeapTrace). A verdict needs a real execution that the contract spec rejects.",
      "Trusted: TLC, the harness's projection of linear memory (list walks, canaries over the requested bytes), wazero as executor of the "
      "allocator. Bounded: sizes/configurations of the cfgs; recorded traces up to 2*10^4 events per run.",
      "DESIGN.md section 4 C10")
