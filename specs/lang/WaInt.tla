-------------------------------- MODULE WaInt --------------------------------
(* C01 / C15 / C09: Go's integer semantics at the types Wa exposes, on BV       *)
(* bit-vectors.  Run-time operators wrap around; / and % truncate toward zero   *)
(* with MIN / -1 = MIN and MIN % -1 = 0 (no trap); shift counts are unsigned    *)
(* and a count >= the width gives 0 (or the sign fill for a signed >>);         *)
(* conversions truncate or sign/zero-extend.  Constant expressions are exact:   *)
(* a typed constant operation is a compile-time error exactly when its exact    *)
(* value is not representable in the type (evaluated here at 128 bits).         *)
EXTENDS BV, FiniteSets

\* type = <<name, width, signed>>; int/uint are 32 bits on the WebAssembly target
\* (.wa has no i8 / i16; byte = u8, rune = i32, uintptr is a 32-bit unsigned type)
Types == {<<"int", 32, TRUE>>, <<"uint", 32, FALSE>>, <<"i32", 32, TRUE>>, <<"i64", 64, TRUE>>,
          <<"u8", 8, FALSE>>, <<"u16", 16, FALSE>>, <<"u32", 32, FALSE>>, <<"u64", 64, FALSE>>,
          <<"byte", 8, FALSE>>, <<"rune", 32, TRUE>>, <<"uintptr", 32, FALSE>>}
ArithOps == {"+", "-", "*", "/", "%", "&", "|", "^", "&^"}
CmpOps == {"==", "!=", "<", "<=", ">", ">="}
ShiftOps == {"<<", ">>"}
UnaryOps == {"-", "^"}

\* ---- run-time semantics (a, b: BV of the type's width) ----
Arith(t, op, a, b) ==
  LET W == t[2]  s == t[3] IN
  CASE op = "+" -> Add(a, b)
    [] op = "-" -> Sub(a, b)
    [] op = "*" -> Mul(a, b)
    [] op = "&" -> BAnd(a, b)
    [] op = "|" -> BOr(a, b)
    [] op = "^" -> BXor(a, b)
    [] op = "&^" -> BAnd(a, BNot(b))
    [] op = "/" -> IF s THEN (IF a = MinS(W) /\ b = AllOnes(W) THEN a ELSE DivS(a, b)) ELSE DivU(a, b)
    [] op = "%" -> IF s THEN (IF b = AllOnes(W) THEN Zero(W) ELSE RemS(a, b)) ELSE RemU(a, b)
Cmp(t, op, a, b) ==
  LET lt == IF t[3] THEN LtS(a, b) ELSE LtU(a, b) IN
  CASE op = "==" -> a = b [] op = "!=" -> a # b [] op = "<" -> lt [] op = "<=" -> (lt \/ a = b)
    [] op = ">" -> ~(lt \/ a = b) [] op = ">=" -> ~lt
\* count: a natural number (the value of an unsigned operand)
Shift(t, op, a, count) ==
  LET W == t[2] IN
  IF op = "<<" THEN (IF count >= W THEN Zero(W) ELSE Shl(a, count))
  ELSE IF t[3] THEN (IF count >= W THEN (IF IsNeg(a) THEN AllOnes(W) ELSE Zero(W)) ELSE ShrS(a, count))
  ELSE (IF count >= W THEN Zero(W) ELSE ShrU(a, count))
Unary(t, op, a) == IF op = "-" THEN Neg(a) ELSE BNot(a)
\* T2(x) for x of type T1
Convert(t1, t2, a) ==
  IF t2[2] <= t1[2] THEN Trunc(a, t2[2])
  ELSE IF t1[3] THEN SExt(a, t2[2]) ELSE ZExt(a, t2[2])

\* ---- exact (constant) semantics at 128 bits ----
Ext(t, a) == IF t[3] THEN SExt(a, 128) ELSE ZExt(a, 128)
Representable(t, x) == Ext(t, Trunc(x, t[2])) = x        \* x: 128-bit exact value
ExactArith(t, op, a, b) ==            \* <<ok, value128>>; ok = FALSE: division by zero
  LET x == Ext(t, a)  y == Ext(t, b) IN
  CASE op = "+" -> <<TRUE, Add(x, y)>>
    [] op = "-" -> <<TRUE, Sub(x, y)>>
    [] op = "*" -> <<TRUE, Mul(x, y)>>
    [] op = "&" -> <<TRUE, BAnd(x, y)>>
    [] op = "|" -> <<TRUE, BOr(x, y)>>
    [] op = "^" -> <<TRUE, BXor(x, y)>>
    [] op = "&^" -> <<TRUE, BAnd(x, BNot(y))>>
    [] op = "/" -> IF y = Zero(128) THEN <<FALSE, x>> ELSE <<TRUE, DivS(x, y)>>
    [] op = "%" -> IF y = Zero(128) THEN <<FALSE, x>> ELSE <<TRUE, RemS(x, y)>>
ExactShift(t, op, a, count) ==
  LET x == Ext(t, a) IN
  IF op = "<<" THEN (IF count >= 96 THEN (IF x = Zero(128) THEN <<TRUE, x>> ELSE <<FALSE, x>>)      \* beyond 128 bits: only 0 stays representable
                     ELSE LET y == Shl(x, count) IN
                          IF ShrS(y, count) = x THEN <<TRUE, y>> ELSE <<FALSE, x>>)             \* does not fit 128 bits either
  ELSE <<TRUE, ShrS(x, IF count > 127 THEN 127 ELSE count)>>
\* for an unsigned typed constant ^a is the complement within the type (always representable)
ExactUnary(t, op, a) ==
  LET x == Ext(t, a) IN IF op = "-" THEN <<TRUE, Neg(x)>> ELSE IF t[3] THEN <<TRUE, BNot(x)>> ELSE <<TRUE, Ext(t, BNot(a))>>

\* ---- operand sets ----
Bound(W) == { Zero(W), One(W), FromInt(2, W), FromInt(-1, W), FromInt(-2, W), MinS(W), MaxS(W), Add(MinS(W), One(W)),
              FromInt(7, W), FromInt(-7, W), FromInt(100, W), FromInt(-128, W), FromInt(127, W), FromInt(85, W) }
Counts == {0, 1, 7, 8, 15, 16, 31, 32, 33, 63, 64, 65, 200}
=============================================================================
