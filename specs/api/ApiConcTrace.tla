---------------------------- MODULE ApiConcTrace ----------------------------
(* C28, trace validation: hook events logged by free-running goroutines       *)
(* (sequence numbers taken under the hook's mutex).  TLC derives from the     *)
(* event order which call's module the global pointed at for every use, and   *)
(* requires (a) it is the using call's own (no foreign use), (b) the logged   *)
(* identity flag agrees, (c) every call ended with its sequential result.     *)
EXTENDS Integers, Sequences, FiniteSets, TLC, Json
Log == ndJsonDeserialize("trace.ndjson")
N == Len(Log)
VARIABLES l, cur, active, verdict
vars == <<l, cur, active, verdict>>
Init == l = 1 /\ cur = 0 /\ active = {} /\ verdict = "ok"
Judge(e) ==
  CASE e.ev = "begin" -> "ok"
    [] e.ev = "set"   -> "ok"
    [] e.ev = "use"   -> IF cur # e.call THEN "foreign-use"
                         ELSE IF ~e.own THEN "own-flag-disagrees" ELSE "ok"
    [] e.ev = "done"  -> IF cur # e.call THEN "foreign-use" ELSE "ok"
    [] e.ev = "end"   -> IF e.same THEN "ok" ELSE "result-differs"
Next == /\ l <= N
        /\ LET e == Log[l] IN
           /\ verdict' = Judge(e)
           /\ (verdict' # "ok" => PrintT(<<"V", l, verdict'>>))
           /\ cur' = IF e.ev = "set" THEN e.call ELSE cur
           /\ active' = IF e.ev = "begin" THEN active \cup {e.call} ELSE IF e.ev = "end" THEN active \ {e.call} ELSE active
        /\ l' = l + 1
HighWater == TLCSet(1, IF l > TLCGet(1) THEN l ELSE TLCGet(1))
Accepted == IF TLCGet(1) = N + 1 THEN TRUE ELSE PrintT(<<"STUCK", TLCGet(1)>>) /\ FALSE
ASSUME TLCSet(1, 0)
=============================================================================
