"""C16 -- well-typed programs compile to valid WebAssembly without internal errors: TLC
enumerates (type, context) skeletons (WaGen.tla); each is rendered as a Wa program, built
with `wa build`, the binary validated on V8 and the program run."""
import json
import os
import re

import common
from common import MachineryError

LEVEL = "exploration"

BASE_TY = {"int": "int", "string": "string", "bool": "bool", "f64": "f64", "u8": "u8", "i64": "i64", "struct": "S", "iface": "interface{}", "func": "func() => int"}
BASE_LIT = {"int": "7", "string": '"ab"', "bool": "true", "f64": "1.5", "u8": "200", "i64": "1 << 40", "struct": 'S{a: 1, b: "q"}', "iface": "interface{}(5)",
            "func": "func() => int { return 3 }"}
BASE_OBS = {"int": "%s", "string": "len(%s)", "bool": "%s", "f64": "%s == 0", "u8": "%s", "i64": "%s", "struct": "%s.a", "iface": "%s == nil", "func": "%s == nil"}
PRELUDE = "type S :struct {\n\ta: int\n\tb: string\n}\n\n"


def tyexpr(t):
    if len(t) == 1:
        return BASE_TY[t[0]]
    e = tyexpr(t[1:])
    return {"ptr": "*" + e, "slice": "[]" + e, "array": "[2]" + e, "mapval": "map[string]" + e, "mapkey": "map[" + e + "]int"}[t[0]]


def obsexpr(t, x):
    if len(t) == 1:
        return BASE_OBS[t[0]] % x
    if t[0] == "ptr":
        return "%s == nil" % x
    if t[0] == "array":
        return obsexpr(t[1:], x + "[1]")
    return "len(%s)" % x


def litexpr(t, helpers):
    """a non-zero value of the type; pointers to non-composite types come from a helper function"""
    if len(t) == 1:
        return BASE_LIT[t[0]]
    e, inner = tyexpr(t[1:]), t[1:]
    if t[0] == "slice":
        return "[]%s{%s}" % (e, litexpr(inner, helpers))
    if t[0] == "array":
        return "[2]%s{%s, %s}" % (e, litexpr(inner, helpers), litexpr(inner, helpers))
    if t[0] == "mapval":
        return "map[string]%s{\"k\": %s}" % (e, litexpr(inner, helpers))
    if t[0] == "mapkey":
        return "map[%s]int{%s: 1}" % (e, litexpr(inner, helpers))
    if len(inner) > 1 and inner[0] != "ptr" or inner == ["struct"]:
        return "&" + litexpr(inner, helpers)
    inner_lit = litexpr(inner, helpers)
    name = "np%d" % len(helpers)
    helpers.append("func %s() => *%s {\n\tp := new(%s)\n\t*p = %s\n\treturn p\n}\n\n" % (name, e, e, inner_lit))
    return name + "()"


def render(sk):
    t, c = sk["type"], sk["ctx"]
    wt, obs = tyexpr(t), obsexpr(t, "x")
    helpers = []
    lit = litexpr(t, helpers)
    body, extra = "", ""
    if c == "local-zero":
        body = "\tx: %s\n\tprintln(%s)\n\ty := x\n\t_ = y\n" % (wt, obs)
    elif c == "local-init":
        body = "\tx: %s = %s\n\tprintln(%s)\n" % (wt, lit, obs)
    elif c == "global-zero":
        extra, body = "global x: %s\n\n" % wt, "\tprintln(%s)\n" % obs
    elif c == "global-init":
        extra, body = "global x: %s = %s\n\n" % (wt, lit), "\tprintln(%s)\n" % obs
    elif c == "param":
        extra = "func use(x: %s) {\n\tprintln(%s)\n}\n\n" % (wt, obs)
        body = "\tz: %s\n\tuse(z)\n" % wt
    elif c == "result":
        extra = "func mk() => %s {\n\tz: %s\n\treturn z\n}\n\n" % (wt, wt)
        body = "\tx := mk()\n\tprintln(%s)\n" % obs
    elif c == "field":
        extra = "type W :struct {\n\tn: int\n\tf: %s\n}\n\n" % wt
        body = "\tw: W\n\tx := w.f\n\tprintln(%s)\n" % obs
    elif c == "slice-elem":
        body = "\ts := make([]%s, 2)\n\tx := s[1]\n\tprintln(%s)\n" % (wt, obs)
    elif c == "array-elem":
        body = "\tarr: [2]%s\n\tx := arr[0]\n\tprintln(%s)\n" % (wt, obs)
    elif c == "map-value":
        body = "\tm := make(map[string]%s)\n\tx := m[\"missing\"]\n\tprintln(%s)\n" % (wt, obs)
    elif c == "closure-capture":
        body = "\tx: %s\n\tf := func() {\n\t\tprintln(%s)\n\t}\n\tf()\n" % (wt, obs)
    elif c == "iface-box":
        body = "\tz: %s\n\tv: interface{} = z\n\tx, ok := v.(%s)\n\tif ok {\n\t\tprintln(%s)\n\t} else {\n\t\tprintln(\"unboxing failed\")\n\t}\n" % (wt, wt, obs)
        if t == ["iface"]:
            body = "\tz: interface{}\n\tv: interface{} = z\n\tx := v\n\tprintln(%s)\n" % obs
    elif c == "ptr-deref":
        body = "\tp := new(%s)\n\tx := *p\n\tprintln(%s)\n" % (wt, obs)
    elif c == "multi-result":
        extra = "func two() => (%s, int) {\n\tz: %s\n\treturn z, 1\n}\n\n" % (wt, wt)
        body = "\tx, n := two()\n\t_ = n\n\tprintln(%s)\n" % obs
    elif c == "method-receiver-field":
        extra = "type H :struct {\n\tf: %s\n}\n\nfunc H.Get() => %s {\n\treturn this.f\n}\n\n" % (wt, wt)
        body = "\th := &H{}\n\tx := h.Get()\n\tprintln(%s)\n" % obs
    elif c == "defer-arg":
        extra = "func show(x: %s) {\n\tprintln(%s)\n}\n\n" % (wt, obs)
        body = "\tz: %s\n\tdefer show(z)\n" % wt
    elif c == "range":
        body = "\ts := make([]%s, 1)\n\tfor _, x := range s {\n\t\tprintln(%s)\n\t}\n" % (wt, obs)
    elif c == "nested-closure":
        extra = "type G :func() => %s\n\n" % wt
        body = "\tz: %s\n\tf := func() => G {\n\t\treturn func() => %s {\n\t\t\treturn z\n\t\t}\n\t}\n\tx := f()()\n\tprintln(%s)\n" % (wt, wt, obs)
    elif c == "append-elem":
        body = "\ts: []%s\n\ts = append(s, %s)\n\tx := s[0]\n\tprintln(%s)\n" % (wt, lit, obs)
    elif c == "iface-map-value":
        body = ("\tm := make(map[string]interface{})\n\tm[\"k\"] = %s\n\tx, ok := m[\"k\"].(%s)\n\tif ok {\n\t\tprintln(%s)\n\t} else {\n\t\tprintln(\"unboxing failed\")\n\t}\n"
                % (lit if t != ["i64"] else "i64(1 << 40)", wt, obs))
        if t == ["int"] or t == ["u8"] or t == ["f64"]:
            body = body.replace('m["k"] = %s' % lit, 'm["k"] = %s(%s)' % (wt, lit))
    elif c == "struct-literal-field":
        extra = "type W :struct {\n\tn: int\n\tf: %s\n}\n\n" % wt
        body = "\tw := W{n: 1, f: %s}\n\tx := w.f\n\tprintln(%s)\n" % (lit, obs)
    elif c == "assign-through-ptr":
        body = "\tx: %s\n\tp := &x\n\t*p = %s\n\tprintln(%s)\n" % (wt, lit, obs)
    elif c == "defer-result":
        extra = "func two() => (%s, f64, int) {\n\tz: %s\n\treturn z, 1.5, 1\n}\n\n" % (wt, wt)
        body = "\tdefer two()\n\tprintln(\"ok\")\n"
    elif c == "defer-method-result":
        extra = "type H :struct {\n\tf: %s\n}\n\nfunc H.Get() => (i64, %s) {\n\treturn 1, this.f\n}\n\n" % (wt, wt)
        body = "\th := &H{}\n\tdefer h.Get()\n\tprintln(\"ok\")\n"
    elif c == "defer-closure-result":
        body = "\tz: %s\n\tf := func() => (%s, bool, f64) {\n\t\treturn z, true, 2.5\n\t}\n\tdefer f()\n\tprintln(\"ok\")\n" % (wt, wt)
    elif c == "discard-result":
        extra = "func two() => (f64, %s) {\n\tz: %s\n\treturn 1.5, z\n}\n\n" % (wt, wt)
        body = "\ttwo()\n\tprintln(\"ok\")\n"
    elif c == "empty-loop":
        # a loop with an empty body and no post statement: its block jumps to itself
        body = "\tz: %s\n\tn := 0\n\tfor n > 0 {\n\t}\n\t_ = z\n\tprintln(\"ok\")\n" % wt
    elif c == "empty-loop-call":
        extra = "global calls: int\n\nfunc more(x: %s) => bool {\n\tcalls++\n\treturn calls < 3\n}\n\n" % wt
        body = "\tz: %s\n\tfor more(z) {\n\t}\n\tprintln(\"ok\")\n" % wt
    elif c == "eq-self":
        body = "\tx: %s\n\tprintln(x == x)\n" % wt
    else:
        raise MachineryError("unknown context " + c)
    return PRELUDE + extra + "".join(helpers) + "func main {\n" + body + "}\n", sk["want"]


VALIDATE_JS = ("const fs=require('fs');for(const f of process.argv.slice(1)){let v='INVALID';try{v=WebAssembly.validate(fs.readFileSync(f))?'VALID':'INVALID'}"
               "catch(e){v='UNREADABLE'};console.log(f+' '+v)}")


def skeletons(chk, tier):
    res = common.run_tlc("lang", "WaGen", "gen.cfg" if tier == "quick" else "gen2.cfg", collect_prefix='<<"T"', timeout=1200)
    chk.cov["states"] = res.distinct
    chk.cov["transitions"] = res.generated
    sks = [json.loads(common.parse_printt(l, "T")[0]) for l in res.lines]
    sks.sort(key=lambda s: (s["ctx"], s["type"]))
    return sks


def run(chk):
    wa = common.build_wa()
    chk.assume("feature set: the types of WaGen.tla (nine base types under up to %s of pointer, slice, array, map-value and map-key constructors) in its 29 contexts "
               "(declarations with and without initialiser, globals, parameters, results, fields, elements, map values, closures, boxing, dereference, multiple results, "
               "method receivers, deferred-call arguments, range, append, ==); validation by V8's WebAssembly.validate (WABT is not installed)"
               % ("one level" if chk.tier == "quick" else "two levels"))
    sks = skeletons(chk, chk.tier)

    def job(part):
        out = []
        d = common.subdir("c16/%d" % part[0][0])
        built = []
        for i, sk in part:
            src, want = render(sk)
            f = os.path.join(d, "p%d.wa" % i)
            w = os.path.join(d, "p%d.wasm" % i)
            open(f, "w").write(src)
            rc, so, se, to = common.run_child([wa, "build", "-o", w, f], timeout=120, cwd=d)
            out.append([sk, src, rc, (so + se).strip(), to, None])
            if rc == 0 and os.path.exists(w):
                built.append((len(out) - 1, w))
        for j in range(0, len(built), 40):
            grp = built[j:j + 40]
            r2 = common.run_child(["node", "-e", VALIDATE_JS] + [w for _, w in grp], timeout=300)
            verdicts = dict(l.rsplit(" ", 1) for l in r2[1].splitlines() if " " in l)
            for k, w in grp:
                out[k][5] = verdicts.get(w)
                os.unlink(w)
        return out
    parts = common.chunks(list(enumerate(sks)), 24)
    n = rejected_ok = accepted_ill = 0
    rejected_well = []
    for part in common.parallel(job, parts):
        for sk, src, rc, out, to, valid in part:
            n += 1
            key = "%s@%s" % ("-".join(sk["type"]), sk["ctx"])
            positioned = re.search(r"p\d+\.wa:\d+:\d+:", out) is not None
            rec = {"skeleton": sk, "program": src, "output": out[:800]}
            if to:
                chk.report("C16:compiler-hangs:" + key, "the compiler does not terminate on %s in context %s" % (tyexpr(sk["type"]), sk["ctx"]), rec)
            elif rc != 0 and not positioned:
                chk.report("C16:internal-error:" + key, "compiling %s in context %s fails without a source position: %s" % (tyexpr(sk["type"]), sk["ctx"], out[:200]), rec)
            elif rc != 0:
                if sk["expect"] == "rejected":
                    rejected_ok += 1
                else:
                    rejected_well.append((key, out[:300]))
            elif valid != "VALID":
                chk.report("C16:invalid-module:" + key, "the produced module does not validate on V8 (%s)" % valid, rec)
            elif sk["expect"] == "rejected":
                accepted_ill += 1
    if rejected_well:
        # the model says well typed, the checker disagrees with a position: the renderer (or the typing model) is wrong about the language, nothing was decided for these
        raise MachineryError("%d skeletons the model calls well typed are rejected by the type checker, e.g. %s" % (len(rejected_well), rejected_well[:3]))
    chk.add("evaluations", n)
    chk.cov["distinct_nontrivial"] = n
    chk.cov["ill_typed_rejected"] = rejected_ok
    chk.cov["ill_typed_accepted_and_valid"] = accepted_ill
    chk.cov["rule"] = ("one evaluation = one (type, context) skeleton rendered, built with `wa build` and validated on V8; all are distinct (TLC enumerates the set) and the well-typed "
                       "ones reach code generation; ill-typed ones must be rejected with a position or still produce a valid module")
    chk.sample({"skeleton": sks[0], "program": render(sks[0])[0]})


def replay(chk, path):
    run(chk)
