---------------------------------- MODULE Rv ----------------------------------
(* C20: one-step semantics of the RV64I base integer instruction set and the    *)
(* M extension, written from the RISC-V unprivileged ISA manual on BV           *)
(* bit-vectors.  A case is an instruction with concrete register operands and   *)
(* immediate; the specified outcome is the value written to rd (none for x0),   *)
(* the next pc and, for stores, the bytes written.                              *)
EXTENDS BV, FiniteSets, Json
CONSTANTS Emit, Group

X == 64
Imm(n) == FromInt(n, X)                       \* sign-extended immediate
W32(a) == SExt(Trunc(a, 32), X)               \* the *W instructions: low 32 bits, sign-extended
Sh6(b) == b[1] % 64
Sh5(b) == b[1] % 32
B2V(b) == IF b THEN One(X) ELSE Zero(X)
Hi(a, b) == SubSeq(Mul(a, b), 9, 16)         \* upper half of a 128-bit product of 128-bit extended operands

\* register-register
RR(op, a, b) ==
  CASE op = "add" -> Add(a, b) [] op = "sub" -> Sub(a, b)
    [] op = "sll" -> Shl(a, Sh6(b)) [] op = "srl" -> ShrU(a, Sh6(b)) [] op = "sra" -> ShrS(a, Sh6(b))
    [] op = "slt" -> B2V(LtS(a, b)) [] op = "sltu" -> B2V(LtU(a, b))
    [] op = "xor" -> BXor(a, b) [] op = "or" -> BOr(a, b) [] op = "and" -> BAnd(a, b)
    [] op = "addw" -> W32(Add(a, b)) [] op = "subw" -> W32(Sub(a, b))
    [] op = "sllw" -> W32(Shl(Trunc(a, 32), Sh5(b)) \o Zero(32))
    [] op = "srlw" -> W32(ShrU(Trunc(a, 32), Sh5(b)) \o Zero(32))
    [] op = "sraw" -> W32(ShrS(Trunc(a, 32), Sh5(b)) \o Zero(32))
    [] op = "mul" -> Mul(a, b)
    [] op = "mulh" -> Hi(SExt(a, 128), SExt(b, 128))
    [] op = "mulhsu" -> Hi(SExt(a, 128), ZExt(b, 128))
    [] op = "mulhu" -> Hi(ZExt(a, 128), ZExt(b, 128))
    [] op = "div" -> IF b = Zero(X) THEN AllOnes(X) ELSE IF a = MinS(X) /\ b = AllOnes(X) THEN a ELSE DivS(a, b)
    [] op = "divu" -> IF b = Zero(X) THEN AllOnes(X) ELSE DivU(a, b)
    [] op = "rem" -> IF b = Zero(X) THEN a ELSE IF a = MinS(X) /\ b = AllOnes(X) THEN Zero(X) ELSE RemS(a, b)
    [] op = "remu" -> IF b = Zero(X) THEN a ELSE RemU(a, b)
    [] op = "mulw" -> W32(Mul(a, b))
    [] op = "divw" -> LET x == Trunc(a, 32) y == Trunc(b, 32) IN
                      SExt(IF y = Zero(32) THEN AllOnes(32) ELSE IF x = MinS(32) /\ y = AllOnes(32) THEN x ELSE DivS(x, y), X)
    [] op = "divuw" -> LET x == Trunc(a, 32) y == Trunc(b, 32) IN SExt(IF y = Zero(32) THEN AllOnes(32) ELSE DivU(x, y), X)
    [] op = "remw" -> LET x == Trunc(a, 32) y == Trunc(b, 32) IN
                      SExt(IF y = Zero(32) THEN x ELSE IF x = MinS(32) /\ y = AllOnes(32) THEN Zero(32) ELSE RemS(x, y), X)
    [] op = "remuw" -> LET x == Trunc(a, 32) y == Trunc(b, 32) IN SExt(IF y = Zero(32) THEN x ELSE RemU(x, y), X)
RROps == {"add", "sub", "sll", "srl", "sra", "slt", "sltu", "xor", "or", "and", "addw", "subw", "sllw", "srlw", "sraw",
          "mul", "mulh", "mulhsu", "mulhu", "div", "divu", "rem", "remu", "mulw", "divw", "divuw", "remw", "remuw"}

\* register-immediate (imm: integer in the field's range)
RI(op, a, imm) ==
  CASE op = "addi" -> Add(a, Imm(imm)) [] op = "slti" -> B2V(LtS(a, Imm(imm))) [] op = "sltiu" -> B2V(LtU(a, Imm(imm)))
    [] op = "xori" -> BXor(a, Imm(imm)) [] op = "ori" -> BOr(a, Imm(imm)) [] op = "andi" -> BAnd(a, Imm(imm))
    [] op = "addiw" -> W32(Add(a, Imm(imm)))
RIOps == {"addi", "slti", "sltiu", "xori", "ori", "andi", "addiw"}
ShI(op, a, sh) ==
  CASE op = "slli" -> Shl(a, sh) [] op = "srli" -> ShrU(a, sh) [] op = "srai" -> ShrS(a, sh)
    [] op = "slliw" -> W32(Shl(Trunc(a, 32), sh) \o Zero(32))
    [] op = "srliw" -> W32(ShrU(Trunc(a, 32), sh) \o Zero(32))
    [] op = "sraiw" -> W32(ShrS(Trunc(a, 32), sh) \o Zero(32))
ShIOps == {"slli", "srli", "srai", "slliw", "srliw", "sraiw"}

\* branches: taken?
Br(op, a, b) == CASE op = "beq" -> a = b [] op = "bne" -> a # b [] op = "blt" -> LtS(a, b) [] op = "bge" -> ~LtS(a, b)
                  [] op = "bltu" -> LtU(a, b) [] op = "bgeu" -> ~LtU(a, b)
BrOps == {"beq", "bne", "blt", "bge", "bltu", "bgeu"}

\* loads from 8 bytes of memory content m (little endian), stores write the low bytes of b
Ld(op, m) == CASE op = "lb" -> SExt(SubSeq(m, 1, 1), X) [] op = "lh" -> SExt(SubSeq(m, 1, 2), X) [] op = "lw" -> SExt(SubSeq(m, 1, 4), X)
               [] op = "ld" -> m [] op = "lbu" -> ZExt(SubSeq(m, 1, 1), X) [] op = "lhu" -> ZExt(SubSeq(m, 1, 2), X) [] op = "lwu" -> ZExt(SubSeq(m, 1, 4), X)
LdOps == {"lb", "lh", "lw", "ld", "lbu", "lhu", "lwu"}
StBytes(op) == CASE op = "sb" -> 1 [] op = "sh" -> 2 [] op = "sw" -> 4 [] op = "sd" -> 8
StOps == {"sb", "sh", "sw", "sd"}

\* ---- operand sets ----
P(k) == Shl(One(X), k)
Regs == { Zero(X), One(X), FromInt(-1, X), MinS(X), MaxS(X), FromInt(7, X), FromInt(-7, X), P(31), Sub(P(32), One(X)),
          Sub(Zero(X), P(31)), P(32), FromInt(1431655765, X), Add(P(63), P(31)), Add(P(33), Sub(P(32), One(X))), FromInt(63, X), FromInt(64, X), FromInt(31, X), FromInt(32, X) }
Imms == {0, 1, -1, 2047, -2048, 5, -7, 1024}
Shamts == {0, 1, 5, 31, 32, 63}
Shamts5 == {0, 1, 5, 31}
Offsets == {8, -8, 4094, -4096, 2}
JOffsets == {4, -4, 1048574, -1048576, 2050}
MemPatterns == { <<128, 129, 130, 131, 132, 133, 134, 255>>, <<1, 2, 3, 4, 5, 6, 7, 8>>, <<255, 127, 255, 255, 0, 0, 0, 128>> }
Base == FromInt(1, X)             \* symbolic: the harness places code at its own base and adds it

Cases ==
  CASE Group = "rr" -> { <<"rr", op, a, b, 0>> : op \in RROps, a \in Regs, b \in Regs }
    [] Group = "ri" -> { <<"ri", op, a, Zero(X), i>> : op \in RIOps, a \in Regs, i \in Imms }
                       \cup { <<"sh", op, a, Zero(X), s>> : op \in {"slli", "srli", "srai"}, a \in Regs, s \in Shamts }
                       \cup { <<"sh", op, a, Zero(X), s>> : op \in {"slliw", "srliw", "sraiw"}, a \in Regs, s \in Shamts5 }
                       \cup { <<"lui", op, Zero(X), Zero(X), i>> : op \in {"lui", "auipc"}, i \in {0, 1, 524287, 524288, 1048575, 349525} }
    [] Group = "ctl" -> { <<"br", op, a, b, o>> : op \in BrOps, a \in {Zero(X), One(X), FromInt(-1, X), MinS(X), MaxS(X), P(31)},
                                                 b \in {Zero(X), One(X), FromInt(-1, X), MinS(X), MaxS(X), P(31)}, o \in Offsets }
                        \cup { <<"jal", "jal", Zero(X), Zero(X), o>> : o \in JOffsets }
                        \cup { <<"jalr", "jalr", a, Zero(X), i>> : a \in {FromInt(4096, X), FromInt(4097, X), FromInt(4099, X), P(32)}, i \in {0, 1, -1, 7, 2047, -2048} }
    [] Group = "mem" -> { <<"ld", op, m, Zero(X), i>> : op \in LdOps, m \in MemPatterns, i \in {0, 8, -8, 3} }
                        \cup { <<"st", op, Zero(X), b, i>> : op \in StOps, b \in {FromInt(-1, X), FromInt(305419896, X), Add(P(63), FromInt(258, X)), P(31)}, i \in {0, 8, -8, 3} }

VARIABLES case, done
Init == case \in Cases /\ done = FALSE
\* outcome: rd (or "none"), pcdelta as a 64-bit value relative to the instruction's address (or the absolute target for jalr), stored bytes
Outcome(c) ==
  LET k == c[1] op == c[2] a == c[3] b == c[4] i == c[5] Four == FromInt(4, X) IN
  CASE k = "rr" -> [rd |-> RR(op, a, b), pc |-> Four, abs |-> FALSE, st |-> << >>]
    [] k = "ri" -> [rd |-> RI(op, a, i), pc |-> Four, abs |-> FALSE, st |-> << >>]
    [] k = "sh" -> [rd |-> ShI(op, a, i), pc |-> Four, abs |-> FALSE, st |-> << >>]
    [] k = "lui" -> [rd |-> IF op = "lui" THEN W32(Shl(FromInt(i, X), 12)) ELSE W32(Shl(FromInt(i, X), 12)),   \* auipc: the harness adds its pc
                    pc |-> Four, abs |-> FALSE, st |-> << >>]
    [] k = "br" -> [rd |-> << >>, pc |-> IF Br(op, a, b) THEN Imm(i) ELSE Four, abs |-> FALSE, st |-> << >>]
    [] k = "jal" -> [rd |-> Four, pc |-> Imm(i), abs |-> FALSE, st |-> << >>]                                 \* rd = pc + 4 (relative)
    [] k = "jalr" -> [rd |-> Four, pc |-> BAnd(Add(a, Imm(i)), BNot(One(X))), abs |-> TRUE, st |-> << >>]
    [] k = "ld" -> [rd |-> Ld(op, a), pc |-> Four, abs |-> FALSE, st |-> << >>]
    [] k = "st" -> [rd |-> << >>, pc |-> Four, abs |-> FALSE, st |-> SubSeq(b, 1, StBytes(op))]
Step == /\ ~done /\ done' = TRUE /\ UNCHANGED case
        /\ LET o == Outcome(case) IN
           Emit => PrintT(<<"T", ToJson([kind |-> case[1], op |-> case[2], a |-> case[3], b |-> case[4], imm |-> case[5],
                                         rd |-> o.rd, pc |-> o.pc, abs |-> o.abs, st |-> o.st])>>)
Next == Step
=============================================================================
