--------------------------------- MODULE WaFlow ---------------------------------
(* C01: control flow with loop-carried variables.  A program initialises three   *)
(* variables, runs `for i := 0; i < n; i++ { body }` and prints them; the body   *)
(* is a sequence of atoms: constant assignments, copies between variables,       *)
(* arithmetic updates, conditional assignments, `continue` and `break` under a   *)
(* condition.  Copies of a variable that is reassigned later in the same         *)
(* iteration must see the value of the previous iteration (the compiler lowers   *)
(* the variables to SSA phis at the loop header).  The specification is an       *)
(* interpreter; TLC enumerates all bodies up to MaxLen.                           *)
EXTENDS Integers, Sequences, FiniteSets, TLC, Json
CONSTANTS Emit, MaxLen
Atoms == {"a=0", "a=1", "a=b", "b=a", "b=c", "c=a", "c=b", "a++", "b+=a", "c=i", "if a==0 {b=7}", "if b>c {continue}", "if c>1 {break}", "if a<b {a=5} else {c=9}"}
\* one atom: <<signal, env>> with signal "next" | "continue" | "break"
Step(at, e, i) ==
  CASE at = "a=0" -> <<"next", [e EXCEPT !.a = 0]>>
    [] at = "a=1" -> <<"next", [e EXCEPT !.a = 1]>>
    [] at = "a=b" -> <<"next", [e EXCEPT !.a = e.b]>>
    [] at = "b=a" -> <<"next", [e EXCEPT !.b = e.a]>>
    [] at = "b=c" -> <<"next", [e EXCEPT !.b = e.c]>>
    [] at = "c=a" -> <<"next", [e EXCEPT !.c = e.a]>>
    [] at = "c=b" -> <<"next", [e EXCEPT !.c = e.b]>>
    [] at = "a++" -> <<"next", [e EXCEPT !.a = e.a + 1]>>
    [] at = "b+=a" -> <<"next", [e EXCEPT !.b = e.b + e.a]>>
    [] at = "c=i" -> <<"next", [e EXCEPT !.c = i]>>
    [] at = "if a==0 {b=7}" -> <<"next", IF e.a = 0 THEN [e EXCEPT !.b = 7] ELSE e>>
    [] at = "if b>c {continue}" -> <<IF e.b > e.c THEN "continue" ELSE "next", e>>
    [] at = "if c>1 {break}" -> <<IF e.c > 1 THEN "break" ELSE "next", e>>
    [] at = "if a<b {a=5} else {c=9}" -> <<"next", IF e.a < e.b THEN [e EXCEPT !.a = 5] ELSE [e EXCEPT !.c = 9]>>
RECURSIVE Body(_, _, _)
Body(b, e, i) == IF b = <<>> THEN <<"next", e>> ELSE LET r == Step(Head(b), e, i) IN IF r[1] = "next" THEN Body(Tail(b), r[2], i) ELSE r
RECURSIVE Loop(_, _, _, _)
Loop(b, e, i, n) == IF i >= n THEN e ELSE LET r == Body(b, e, i) IN IF r[1] = "break" THEN r[2] ELSE Loop(b, r[2], i + 1, n)
Inits == {[a |-> 1, b |-> 2, c |-> 3], [a |-> 0, b |-> 0, c |-> 0]}
Result(init, n, body) == LET e == Loop(body, init, 0, n) IN <<e.a, e.b, e.c>>
Bodies == UNION {[1..k -> Atoms] : k \in 1..MaxLen}
VARIABLES body, done
Init == body \in Bodies /\ done = FALSE
Next == ~done /\ done' = TRUE /\ UNCHANGED body
        /\ (Emit => PrintT(<<"T", ToJson([body |-> body, runs |-> [k \in 1..6 |-> LET init == IF k <= 3 THEN [a |-> 1, b |-> 2, c |-> 3] ELSE [a |-> 0, b |-> 0, c |-> 0]
                                                                              n == <<0, 1, 3, 0, 1, 3>>[k] IN Result(init, n, body)]])>>))
\* b = a; a = 0 over three iterations from (1, 2, 3): b sees the previous a
Known == /\ Result([a |-> 1, b |-> 2, c |-> 3], 3, <<"b=a", "a=0">>) = <<0, 0, 3>> /\ Result([a |-> 1, b |-> 2, c |-> 3], 1, <<"b=a", "a=0">>) = <<0, 1, 3>>
         /\ Result([a |-> 1, b |-> 2, c |-> 3], 3, <<"c=i", "if c>1 {break}", "a++">>) = <<3, 2, 2>>
=============================================================================
