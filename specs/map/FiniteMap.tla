----------------------------- MODULE FiniteMap -----------------------------
(* C13, the contract: a Wa map is a mathematical finite map.                  *)
(* State: absm \in [K -|-> V].  Replies of the observers are functions of it. *)
EXTENDS Integers, Sequences, FiniteSets, TLC

VARIABLE absm

FMInit == absm = << >>
FMUpdate(k, v) == absm' = (k :> v) @@ absm                         \* m[k] = v
FMDelete(k)    == absm' = [q \in DOMAIN absm \ {k} |-> absm[q]]    \* delete(m, k)
FMLookup(k)    == IF k \in DOMAIN absm THEN <<TRUE, absm[k]>> ELSE <<FALSE, 0>>   \* v, ok := m[k]
FMLen          == Cardinality(DOMAIN absm)                         \* len(m)
\* for k, v := range m visits exactly this set of pairs, each once, in any order
FMRangeSet     == { <<k, absm[k]>> : k \in DOMAIN absm }

\* what a client can observe of a map value: printed by the generated programs
RECURSIVE SetToSortedSeq(_)
SetToSortedSeq(S) == IF S = {} THEN << >>
                     ELSE LET x == CHOOSE y \in S : \A z \in S : y <= z
                          IN <<x>> \o SetToSortedSeq(S \ {x})
FMObservation(Keys) ==
  [len |-> FMLen,
   lookups |-> [i \in 1..Cardinality(Keys) |->
                  LET k == SetToSortedSeq(Keys)[i] IN
                  IF k \in DOMAIN absm THEN <<1, absm[k]>> ELSE <<0, 0>>],
   range |-> [i \in 1..FMLen |-> LET k == SetToSortedSeq(DOMAIN absm)[i] IN <<k, absm[k]>>]]
=============================================================================
