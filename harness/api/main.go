// Harness for C28 (concurrent API use) and C27 (deterministic compilation).
//
//	api sched  <file with TLC schedules>    gate-controlled replay of interleavings
//	api stress -g G -n N -seed S            free-running goroutines, hook events logged
//	api det    -k K                          compile every program K times, print hashes
//
// Needs the verif build tag (wir.VerifHook).
package main

import (
	"bufio"
	"bytes"
	"crypto/sha256"
	"encoding/hex"
	"encoding/json"
	"flag"
	"fmt"
	"math/rand"
	"os"
	"runtime"
	"strconv"
	"strings"
	"sync"
	"time"

	"path/filepath"

	"wa-lang.org/wa/api"
	"wa-lang.org/wa/internal/backends/compiler_wat"
	"wa-lang.org/wa/internal/backends/compiler_wat/wir"
	"wa-lang.org/wa/internal/wat/watutil"
)

type prog struct {
	name, code string
}

var progs = []prog{
	{"p0.wa", `
type Node :struct {
	next: *Node
	name: string
	vals: []int
}

func build(n: int) => *Node {
	head: *Node
	for i := 0; i < n; i++ {
		head = &Node{next: head, name: "node", vals: []int{i, i * 2}}
	}
	return head
}

func main {
	s := 0
	for p := build(5); p != nil; p = p.next {
		s += p.vals[1]
	}
	println("sum", s)
}
`},
	{"p1.wa", `
type Shape :interface {
	Area() => int
}
type Rect :struct {
	w, h: int
	tag:  string
}
type Sq :struct {
	s: int
	m: map[string]int
}

func Rect.Area() => int { return this.w * this.h }
func Sq.Area() => int   { return this.s * this.s }

func main {
	shapes := []Shape{&Rect{2, 3, "r"}, &Sq{4, make(map[string]int)}, &Rect{1, 1, "unit"}}
	total := 0
	for _, s := range shapes {
		total += s.Area()
	}
	println("total", total)
}
`},
	{"p2.wa", `
func adder(k: int) => func(int) => int {
	return func(x: int) => int { return x + k }
}

func apply(f: func(int) => int, xs: []int) => []int {
	out := make([]int, 0)
	for _, x := range xs {
		out = append(out, f(x))
	}
	return out
}

func main {
	r := apply(adder(10), []int{1, 2, 3})
	println("closure", r[0], r[1], r[2], "done")
}
`},
	{"p3.wa", `
type Pair :struct {
	k: string
	v: *int
}

func main {
	m := make(map[string]int)
	words := []string{"alpha", "beta", "gamma", "alpha", "beta", "alpha"}
	for _, w := range words {
		m[w] = m[w] + 1
	}
	x := 7
	p := Pair{"x", &x}
	println("alpha", m["alpha"], "beta", m["beta"], "gamma", m["gamma"], p.k, *p.v)
}
`},
	{"p4.wz", `
函数·加(甲, 乙: 整型) => 整型:
	返回 甲 + 乙
完毕

函数·主控:
	数 := 0
	循环 子 := 0; 子 < 5; 子++:
		数 = 加(数, 子)
	完毕
	输出("总和", 数, "结束")
完毕
`},
	{"p5.wa", `
type Tree :struct {
	l, r: *Tree
	v:    int
	tag:  string
}

func insert(t: *Tree, v: int) => *Tree {
	if t == nil {
		return &Tree{v: v, tag: "leaf"}
	}
	if v < t.v {
		t.l = insert(t.l, v)
	} else {
		t.r = insert(t.r, v)
	}
	return t
}

func walk(t: *Tree, f: func(int)) {
	if t == nil {
		return
	}
	walk(t.l, f)
	f(t.v)
	walk(t.r, f)
}

func main {
	t: *Tree
	for _, v := range []int{5, 2, 8, 1, 9, 3} {
		t = insert(t, v)
	}
	acc := ""
	walk(t, func(v: int) { acc += string(rune('0' + v)) })
	println("inorder", acc)
}
`},
}

func init() {
	progs = append(progs, prog{"p6.wa", `
import "unsafe"

type T :struct {
	a: i32
	b: i64
	c: u8
}

func main {
	t: T
	println("layout", unsafe.Sizeof(t), unsafe.Alignof(t.b), unsafe.Offsetof(t.b), unsafe.Offsetof(t.c))
}
`})
}

// configuration variants: the API's default and the sizes the command line front end sets
func cfgOf(variant string) *api.Config {
	cfg := api.DefaultConfig()
	if variant == "sizes48" {
		cfg.WaSizes = api.StdSize{WordSize: 4, MaxAlign: 8}
	}
	return cfg
}

var variants = []string{"default", "sizes48"}

func sha(b []byte) string {
	h := sha256.Sum256(b)
	return hex.EncodeToString(h[:8])
}

// what one API call returns, reduced to a comparable string
func doCall(kind string, p prog) (res string) { return doCallCfg(kind, p, "default") }

func doCallCfg(kind string, p prog, variant string) (res string) {
	defer func() {
		if e := recover(); e != nil {
			res = fmt.Sprint("PANIC: ", e)
		}
	}()
	switch kind {
	case "build":
		mainFn, wat, fset, err := api.BuildFile(cfgOf(variant), p.name, p.code)
		if err != nil {
			return "ERR " + err.Error()
		}
		wasm, err := watutil.Wat2Wasm(p.name, wat)
		if err != nil {
			return "ERR wat2wasm " + err.Error()
		}
		return mainFn + " wat=" + sha(wat) + " wasm=" + sha(wasm) + " fset=" + strconv.Itoa(len(fset))
	case "run":
		out, err := api.RunCode(cfgOf(variant), p.name, p.code)
		if err != nil {
			return "ERR " + err.Error() + " " + string(out)
		}
		return "out=" + string(out)
	case "format":
		s, err := api.FormatCode(p.name, p.code)
		if err != nil {
			return "ERR " + err.Error()
		}
		return "fmt=" + sha([]byte(s))
	case "syntax":
		return "syntax=" + api.GetCodeSyntax(p.name, []byte(p.code))
	}
	return "?"
}

func gid() int64 {
	var buf [64]byte
	n := runtime.Stack(buf[:], false)
	f := strings.Fields(string(buf[:n]))
	id, _ := strconv.ParseInt(f[1], 10, 64)
	return id
}

// ---------------------------------------------------------------- gate-controlled replay

type gateCtl struct {
	mu      sync.Mutex
	callOf  map[int64]int   // goroutine -> call
	own     map[int]*wir.Module
	arrived chan arrival
	proceed map[int]chan struct{}
	free    bool
	foreign []string
}
type arrival struct {
	call int
	ev   string
}

func (g *gateCtl) hook(ev string, m *wir.Module) {
	g.mu.Lock()
	c, ok := g.callOf[gid()]
	if !ok {
		g.mu.Unlock()
		return
	}
	if ev == "set" {
		g.own[c] = m
	} else if ev == "use" && g.own[c] != m {
		g.foreign = append(g.foreign, fmt.Sprintf("call %d used the module of another call", c))
	}
	free := g.free
	ch := g.proceed[c]
	g.mu.Unlock()
	if free {
		return
	}
	g.arrived <- arrival{c, ev}
	<-ch
}

type schedResult struct {
	Schedule  []int    `json:"schedule"`
	Progs     []string `json:"progs"`
	Consumed  int      `json:"consumed"`
	Blocked   []int    `json:"blocked_steps"`
	Results   []string `json:"results"`
	Baseline  []string `json:"baseline"`
	Foreign   []string `json:"foreign"`
	Differs   bool     `json:"differs"`
	Events    []string `json:"events"`
}

func runSchedule(schedule []int, ps []prog, baseline map[string]string) schedResult {
	n := len(ps)
	g := &gateCtl{callOf: map[int64]int{}, own: map[int]*wir.Module{}, arrived: make(chan arrival, 64), proceed: map[int]chan struct{}{}}
	wir.VerifHook = g.hook
	defer func() { wir.VerifHook = nil }()
	res := schedResult{Schedule: schedule, Results: make([]string, n), Baseline: make([]string, n)}
	done := make(chan int, n)
	for c := 1; c <= n; c++ {
		g.proceed[c] = make(chan struct{})
		res.Progs = append(res.Progs, ps[c-1].name)
		if v := variants[(c+len(schedule))%len(variants)]; v != "default" {
			res.Baseline[c-1] = baseline[ps[c-1].name+"@"+v]
		} else {
			res.Baseline[c-1] = baseline[ps[c-1].name]
		}
	}
	started := make(chan struct{}, n)
	for c := 1; c <= n; c++ {
		c := c
		go func() {
			g.mu.Lock()
			g.callOf[gid()] = c
			g.mu.Unlock()
			started <- struct{}{}
			v := variants[(c+len(schedule))%len(variants)]
			res.Results[c-1] = doCallCfg("build", ps[c-1], v)
			done <- c
		}()
	}
	for c := 1; c <= n; c++ {
		<-started
	}
	// state of each call: "running" (between gates), "parked" (at a gate), "done"
	state := map[int]string{}
	for c := 1; c <= n; c++ {
		state[c] = "running"
	}
	// let every call run to its first gate, or block (on the compile lock), or finish
	settle := func(timeout time.Duration) {
		deadline := time.After(timeout)
		for {
			running := 0
			for _, s := range state {
				if s == "running" {
					running++
				}
			}
			if running == 0 {
				return
			}
			select {
			case a := <-g.arrived:
				state[a.call] = "parked"
				res.Events = append(res.Events, fmt.Sprintf("%d:%s", a.call, a.ev))
			case c := <-done:
				state[c] = "done"
				res.Events = append(res.Events, fmt.Sprintf("%d:return", c))
			case <-deadline:
				return // whoever is still running is blocked (not at a gate)
			}
		}
	}
	settle(150 * time.Millisecond)
	for i, c := range schedule {
		if c < 1 || c > n {
			continue
		}
		switch state[c] {
		case "parked":
			state[c] = "running"
			g.proceed[c] <- struct{}{}
			res.Consumed++
			settle(150 * time.Millisecond)
		case "done":
			res.Consumed++
		default:
			// the call is blocked outside a gate: this interleaving is not feasible on this code
			res.Blocked = append(res.Blocked, i)
		}
	}
	// free run to completion
	g.mu.Lock()
	g.free = true
	g.mu.Unlock()
	for c := 1; c <= n; c++ {
		if state[c] == "parked" {
			state[c] = "running"
			g.proceed[c] <- struct{}{}
		}
	}
	deadline := time.After(30 * time.Second)
	for {
		alldone := true
		for _, s := range state {
			if s != "done" {
				alldone = false
			}
		}
		if alldone {
			break
		}
		select {
		case a := <-g.arrived:
			_ = a
		case c := <-done:
			state[c] = "done"
		case <-deadline:
			res.Foreign = append(res.Foreign, "calls did not finish within 30s")
			alldone = true
		}
		if alldone {
			break
		}
	}
	g.mu.Lock()
	res.Foreign = append(res.Foreign, g.foreign...)
	g.mu.Unlock()
	for i := range res.Results {
		if res.Results[i] != res.Baseline[i] {
			res.Differs = true
		}
	}
	if res.Foreign == nil {
		res.Foreign = []string{}
	}
	if res.Blocked == nil {
		res.Blocked = []int{}
	}
	return res
}

func baselineAll(kinds []string) map[string]string {
	b := map[string]string{}
	for _, v := range variants { // every default-config result is taken before any other configuration is used
		for _, p := range progs {
			for _, k := range kinds {
				key := p.name
				if k != "build" {
					key = k + ":" + p.name
				}
				if v != "default" {
					key += "@" + v
				}
				b[key] = doCallCfg(k, p, v)
			}
		}
	}
	return b
}

func unescape(line string) (string, bool) {
	const pre = `<<"T", "`
	if !strings.HasPrefix(line, pre) || !strings.HasSuffix(line, `">>`) {
		return "", false
	}
	s := line[len(pre) : len(line)-3]
	s = strings.ReplaceAll(s, `\"`, `"`)
	s = strings.ReplaceAll(s, `\\`, `\`)
	return s, true
}

func schedMain(path string) {
	f, err := os.Open(path)
	if err != nil {
		fmt.Fprintln(os.Stderr, err)
		os.Exit(2)
	}
	out := bufio.NewWriter(os.Stdout)
	enc := json.NewEncoder(out)
	base := baselineAll([]string{"build"})
	// sequential independence: after calls with other configurations the default results must be unchanged
	for _, p := range progs {
		if r := doCall("build", p); r != base[p.name] {
			fmt.Fprintf(out, "{\"sequential_leak\":%q,\"first\":%q,\"again\":%q}\n", p.name, base[p.name], r)
		}
	}
	sc := bufio.NewScanner(f)
	sc.Buffer(make([]byte, 1<<20), 1<<24)
	k := 0
	for sc.Scan() {
		js, ok := unescape(sc.Text())
		if !ok {
			continue
		}
		var s struct {
			Schedule []int `json:"schedule"`
			N        int   `json:"n"`
		}
		if err := json.Unmarshal([]byte(js), &s); err != nil {
			fmt.Fprintln(os.Stderr, err)
			os.Exit(2)
		}
		var ps []prog
		for c := 0; c < s.N; c++ {
			ps = append(ps, progs[(k+c*2+c)%len(progs)])
		}
		k++
		fmt.Fprintf(out, "{\"begin\":%d}\n", k)
		out.Flush() // if the process dies in this schedule the driver knows which one
		enc.Encode(runSchedule(s.Schedule, ps, base))
		out.Flush()
	}
	fmt.Fprintf(out, "{\"done\":true,\"schedules\":%d}\n", k)
	out.Flush()
}

// ---------------------------------------------------------------- free-running stress

func stressMain(g, n int, seed int64) {
	kinds := []string{"build", "run", "format", "syntax"}
	base := baselineAll(kinds)
	var mu sync.Mutex
	seq := 0
	callOf := map[int64]int{}
	own := map[int]*wir.Module{}
	var events []map[string]interface{}
	wir.VerifHook = func(ev string, m *wir.Module) {
		mu.Lock()
		c, ok := callOf[gid()]
		if ok {
			seq++
			if ev == "set" {
				own[c] = m
			}
			events = append(events, map[string]interface{}{"seq": seq, "call": c, "ev": ev, "own": own[c] == m})
		}
		mu.Unlock()
		if seq%3 == 0 {
			runtime.Gosched()
		}
	}
	out := bufio.NewWriter(os.Stdout)
	defer out.Flush()
	enc := json.NewEncoder(out)
	var wg sync.WaitGroup
	callID := 0
	bad := 0
	for w := 0; w < g; w++ {
		wg.Add(1)
		rng := rand.New(rand.NewSource(seed + int64(w)*7919))
		go func() {
			defer wg.Done()
			for i := 0; i < n; i++ {
				p := progs[rng.Intn(len(progs))]
				k := kinds[rng.Intn(len(kinds))]
				if rng.Intn(3) == 0 {
					k = "build"
				}
				mu.Lock()
				callID++
				c := callID
				callOf[gid()] = c
				seq++
				events = append(events, map[string]interface{}{"seq": seq, "call": c, "ev": "begin", "kind": k, "prog": p.name})
				mu.Unlock()
				v := variants[rng.Intn(len(variants))]
				r := doCallCfg(k, p, v)
				key := p.name
				if k != "build" {
					key = k + ":" + p.name
				}
				if v != "default" {
					key += "@" + v
				}
				mu.Lock()
				seq++
				same := r == base[key]
				events = append(events, map[string]interface{}{"seq": seq, "call": c, "ev": "end", "same": same})
				if !same {
					bad++
					if bad <= 10 {
						events[len(events)-1]["got"] = r
						events[len(events)-1]["want"] = base[key]
					}
				}
				mu.Unlock()
			}
		}()
	}
	wg.Wait()
	for _, e := range events {
		enc.Encode(e)
	}
}

// a multi-package module built to make any unsorted map iteration in the compiler visible:
// same-named (also unexported) methods and types across packages, embedding from several
// packages, many globals, interfaces with many methods, package initialisers.
var modFiles = map[string]string{
	"wa.mod": "name = \"detmod\"\npkgpath = \"detmod\"\ntarget = \"js\"\n",
	"src/main.wa": `
import "detmod/aa"
import "detmod/bb"
import "detmod/cc"

type All :struct {
	aa.Item
	bb.Item2
	cc.Thing
	name: string
}

type Doer :interface {
	Alpha() => int
	Beta() => int
	Gamma() => int
	Reset()
}

global registry: map[string]int = map[string]int{"x": 1, "y": 2, "z": 3}
global counter: int
global label: string = "main"

func All.Reset() {
	this.Item.Clear()
	this.Item2.Clear()
	this.Thing.Clear()
}
func All.Alpha() => int { return this.Item.Get() }
func All.Beta() => int  { return this.Item2.Get() }
func All.Gamma() => int { return this.Thing.Get() }

func main {
	a := &All{name: label}
	d: Doer = a
	d.Reset()
	println(d.Alpha(), d.Beta(), d.Gamma(), len(registry), aa.Count, bb.Count, cc.Count)
}
`,
	"src/aa/aa.wa": `
type Item :struct { n: int; tag: string }
global Count: int
func init { Count = 1 }
func Item.reset() { this.n = 1 }
func Item.bump()  { this.n += 10 }
func Item.Clear() { this.reset(); this.bump() }
func Item.Get() => int { return this.n }
`,
	"src/bb/bb.wa": `
type Item2 :struct { n: int; vals: []int }
global Count: int
func init { Count = 2 }
func Item2.reset() { this.n = 2 }
func Item2.bump()  { this.n += 20 }
func Item2.Clear() { this.reset(); this.bump() }
func Item2.Get() => int { return this.n }
`,
	"src/cc/cc.wa": `
type Thing :struct { n: int; m: map[string]int }
global Count: int
func init { Count = 3 }
func Thing.reset() { this.n = 3 }
func Thing.bump()  { this.n += 30 }
func Thing.Clear() { this.reset(); this.bump() }
func Thing.Get() => int { return this.n }
`,
}

func buildModule() (res string) {
	defer func() {
		if e := recover(); e != nil {
			res = fmt.Sprint("PANIC: ", e)
		}
	}()
	dir, err := os.MkdirTemp("", "detmod")
	if err != nil {
		return "ERR " + err.Error()
	}
	defer os.RemoveAll(dir)
	for name, content := range modFiles {
		p := filepath.Join(dir, filepath.FromSlash(name))
		os.MkdirAll(filepath.Dir(p), 0777)
		os.WriteFile(p, []byte(content), 0666)
	}
	prog, err := api.LoadProgram(api.DefaultConfig(), dir)
	if err != nil {
		return "ERR load " + err.Error()
	}
	out, err := compiler_wat.New().Compile(prog)
	if err != nil {
		return "ERR compile " + err.Error()
	}
	wasm, err := watutil.Wat2Wasm("a.out.wat", []byte(out))
	if err != nil {
		return "ERR wat2wasm " + err.Error()
	}
	return "wat=" + sha([]byte(out)) + " wasm=" + sha(wasm)
}

func detMain(k int) {
	out := map[string][]string{}
	for i := 0; i < 2*k; i++ {
		out["detmod(module)"] = append(out["detmod(module)"], buildModule())
	}
	for _, p := range progs {
		for i := 0; i < k; i++ {
			out[p.name] = append(out[p.name], doCall("build", p))
		}
	}
	b, _ := json.Marshal(out)
	var buf bytes.Buffer
	buf.Write(b)
	fmt.Println(buf.String())
}

func main() {
	if len(os.Args) < 2 {
		os.Exit(2)
	}
	switch os.Args[1] {
	case "sched":
		schedMain(os.Args[2])
	case "stress":
		fs := flag.NewFlagSet("stress", flag.ExitOnError)
		g := fs.Int("g", 8, "")
		n := fs.Int("n", 10, "")
		seed := fs.Int64("seed", 1, "")
		fs.Parse(os.Args[2:])
		stressMain(*g, *n, *seed)
	case "watdump":
		// compiler output of every program, for the WAT tool checks
		for _, p := range progs {
			_, wat, _, err := api.BuildFile(api.DefaultConfig(), p.name, p.code)
			if err == nil {
				os.WriteFile(os.Args[2]+"/"+p.name+".wat", wat, 0666)
			}
		}
	case "det":
		fs := flag.NewFlagSet("det", flag.ExitOnError)
		k := fs.Int("k", 3, "")
		fs.Parse(os.Args[2:])
		detMain(*k)
	default:
		os.Exit(2)
	}
}
