#!/usr/bin/env python3
"""setup_cmd: verify the tools the checks need are present (everything is built per check
from /repo's working tree, so there is nothing to pre-build)."""
import shutil
import subprocess
import sys

ok = True
for tool in ("java", "go", "python3"):
    if not shutil.which(tool):
        print("missing tool:", tool)
        ok = False
import os
if not os.path.exists("/opt/veriftools/tla/tla2tools.jar"):
    print("missing tla2tools.jar")
    ok = False
os.makedirs(os.path.join(os.path.dirname(os.path.dirname(os.path.abspath(__file__))), "evidence"), exist_ok=True)
sys.exit(0 if ok else 1)
