"""C01 -- compiled Wa programs compute what Go computes (integer kernel): WaInt.tla's
run-time semantics evaluated by TLC over (type, operator, operands); every case executed
through a function whose operands are parameters, in a program compiled and run by the
real toolchain."""
import json

import common
import kernel
from common import MachineryError

LEVEL = "model_checking"


def run(chk):
    wa = common.build_wa()
    thorough = chk.tier == "thorough"
    chk.assume("integer kernel: + - * / % & | ^ &^, comparisons, shifts by unsigned counts, unary - ^, every integer conversion, at int/uint/i8..i64/u8..u64; "
               "division by zero is outside the domain (Go panics); floats, strings, aggregates, closures, defer are not decided by this check")
    # quick: all operators at three types, and every conversion between them, u64 and int (the widening of signed values)
    base = ["i32", "u8", "i64"]
    types = kernel.ALL_TYPES if thorough else base + ["u64", "int"]
    cs = [c for c in kernel.cases_from_tlc(chk, types, "WaInt cases %s" % types) if c["rt"] != "panic"]
    if not thorough:
        cs = [c for c in cs if c["kind"] == "conv" or c["t"] in base]
    signed = kernel.SIGNED
    batches = list(common.chunks(cs, 1200))

    def cls_of(c):
        a, bb = kernel.val(c["a"], c["signed"]), kernel.val(c["b"], c["signed"])
        if c["kind"] == "shift":
            return "count>=width" if kernel.val(c["b"], False) >= c["w"] else "count<width"
        if c["op"] in ("/", "%") and c["kind"] == "arith":
            return "MIN/-1" if (c["signed"] and a == -(1 << (c["w"] - 1)) and bb == -1) else "other"
        return ""

    def is_value(line):
        t = line.strip()
        return t in ("true", "false") or t.lstrip("-").isdigit()

    def job(ib):
        """run a batch; a case that stops the program is reported and the rest is run again without it"""
        i, batch = ib
        out = []          # (case, got or None, note)
        rest = list(batch)
        rounds = 0
        while rest and rounds < 40:
            rounds += 1
            rc, so, se, to = kernel.run_program(wa, kernel.program(rest, False), ".wa", i * 100 + rounds, "c01")
            lines = so.splitlines()
            k = 0
            while k < len(rest) and k < len(lines) and is_value(lines[k]):
                out.append((rest[k], lines[k].strip(), ""))
                k += 1
            if k >= len(rest):
                break
            msg = " ".join(lines[k:k + 1] + se.strip().splitlines()[:1])[:200]
            out.append((rest[k], None, ("hang" if to else "abort") + ": " + msg))
            rest = rest[k + 1:]
        return out
    for res in common.parallel(job, list(enumerate(batches))):
        for c, got, note in res:
            chk.add("traces_validated_against_impl", 1)
            want = kernel.expected_rt(c, signed)
            if got is None:
                chk.report("C01:%s:%s:%s:%s" % (note.split(":")[0], c["t"], kernel.OPNAME.get(c["op"], c["op"]), cls_of(c)),
                           "%s stops the program (%s); Go's semantics give %s" % (kernel.call(c), note, want), {"case": c, "note": note, "want": want})
            elif got != want:
                chk.report("C01:value:%s:%s:%s" % (c["t"], kernel.OPNAME.get(c["op"], c["op"]), cls_of(c)),
                           "%s prints %s; Go's semantics give %s" % (kernel.call(c), got, want), {"case": c, "got": got, "want": want})
    slices(chk, wa, thorough)
    values(chk, wa)
    maps(chk, wa)
    procs(chk, wa, thorough)
    strs(chk, wa)
    flows(chk, wa, thorough)
    chk.sample({"call": kernel.call(cs[0]), "want": kernel.expected_rt(cs[0], signed)})
    chk.sample({"call": kernel.call(cs[len(cs) // 2]), "want": kernel.expected_rt(cs[len(cs) // 2], signed)})
    chk.cov["exhaustive"] = True
    chk.cov["explanation"] = "every (type, operator, operand pair) case of WaIntCases for the listed types executed in compiled Wa programs (operands passed as parameters)"


def slices(chk, wa, thorough):
    """WaStore.tla: every transition (with a witness history) of the slice store machine"""
    import random
    rng = random.Random(common.seed())
    cfg = open(common.SPECS + "/lang/store.cfg").read()
    if not thorough:
        cfg = cfg.replace("MaxOps = 4", "MaxOps = 3")
    res = common.run_tlc("lang", "WaStoreMC", "s.cfg", files={"s.cfg": cfg}, collect_prefix='<<"T"', timeout=3000)
    if res.violated:
        raise MachineryError("WaStore.tla violates " + res.violated)
    chk.tlc(res, "WaStore (slices: make/append/re-slice/element assignment)")
    hs = [json.loads(common.parse_printt(l, "T")[0]) for l in res.lines]
    if thorough and len(hs) > 120000:
        hs = rng.sample(hs, 120000)
    batches = list(common.chunks(hs, 3000))

    def job(ib):
        i, b = ib
        return b, kernel.run_program(wa, kernel.store_encode([h["ops"] for h in b]), ".wa", i, "c01s")
    for b, (rc, so, se, to) in common.parallel(job, list(enumerate(batches))):
        lines = [l for l in so.splitlines() if l.startswith("V")]
        for j, h in enumerate(b):
            if j >= len(lines):
                chk.report("C01:slices:abort", "program stops in the slice history %s: %s" % (json.dumps(h["ops"])[:200], (so + se)[-200:]), {"history": h})
                break
            chk.add("traces_validated_against_impl", 1)
            got = kernel.store_parse(lines[j])
            want = [h["want"]["s"], h["want"]["t"], h["want"]["u"]]
            if got != want:
                kinds = "+".join(sorted(set(o["op"] for o in h["ops"])))
                chk.report("C01:slices:%s" % kinds, "slices after %s are %s; Go's semantics give %s" % (json.dumps(h["ops"])[:300], got, want),
                           {"history": h, "got": got})
    chk.cov["slice_histories"] = len(hs)
    chk.sample({"slice_history": hs[len(hs) // 2]})


def values(chk, wa):
    """WaGen.tla: every well-typed (type, context) skeleton prints the observation the spec gives for the zero value or the initialiser"""
    import os
    import c16
    res = common.run_tlc("lang", "WaGen", "gen.cfg", collect_prefix='<<"T"', timeout=1200)
    chk.tlc(res, "WaGen (zero values and initialisers of composite types in 23 contexts)")
    sks = [json.loads(common.parse_printt(l, "T")[0]) for l in res.lines]
    sks = sorted((s for s in sks if s["expect"] == "compiles"), key=lambda s: (s["ctx"], s["type"]))
    if chk.tier == "quick":
        # every context for the base types; the composed types in the contexts that store or copy a value (each skeleton is a compiler run of its own)
        key_ctx = {"local-init", "global-init", "map-value", "iface-box", "append-elem", "struct-literal-field", "assign-through-ptr", "multi-result", "eq-self"}
        sks = [s for s in sks if len(s["type"]) == 1 or s["ctx"] in key_ctx]

    def job(isk):
        i, sk = isk
        src, want = c16.render(sk)
        d = common.subdir("c01v/%d" % (i % 64))
        f = os.path.join(d, "p%d.wa" % i)
        open(f, "w").write(src)
        rc, so, se, to = common.run_child([wa, "run", f], timeout=120, cwd=d)
        os.unlink(f)
        return sk, src, want, rc, (so + se).strip(), to
    for sk, src, want, rc, out, to in common.parallel(job, list(enumerate(sks))):
        chk.add("traces_validated_against_impl", 1)
        key = "%s@%s" % ("-".join(sk["type"]), sk["ctx"])
        if to or rc != 0 or out.splitlines()[-1:] != [want]:
            chk.report("C01:values:%s" % key, "a %s in context %s prints %r (status %s%s); the specified observation is %r"
                       % (c16.tyexpr(sk["type"]), sk["ctx"], out[-120:], rc, ", timed out" if to else "", want), {"skeleton": sk, "program": src, "output": out[-400:]})
    chk.cov["value_skeletons"] = len(sks)
    chk.sample({"value_skeleton": sks[len(sks) // 3], "program": c16.render(sks[len(sks) // 3])[0]})


def maps(chk, wa):
    """maps as sets of key/value pairs: every transition of the bounded WaMap/FiniteMap model (the C13 specification) for int and string keys"""
    import c13
    res = common.run_tlc("map", "WaMap", "em.cfg", files={"em.cfg": c13.cfg(5, [7], 7, True, invariants=False)}, collect_prefix='<<"T"', timeout=3000)
    chk.tlc(res, "WaMap transitions keys=5 ops=7 (maps as finite maps)")
    paths = c13.parse_lines(res.lines)
    if not paths:
        raise MachineryError("no map transitions emitted")
    for kind in ("int", "string"):
        c13.check_kind(chk, wa, kind, 5, paths, "transitions of WaMap", prefix="C01:maps")
    chk.cov["map_histories"] = len(paths)


PROC_ATOM = {
    "x++": "\tx++\n",
    "y=x*2": "\ty = x * 2\n",
    "print": "\tprintln(x, y)\n",
    "defer-val": "\tdefer println(x)\n",
    "defer-clo": "\tdefer func() { println(x) }()\n",
    "closure-add": "\tf%d := func() { x += 10 }\n\tf%d()\n",
    "copy-struct": "\tt = s\n\tt.v++\n\tprintln(s.v, t.v)\n",
    "ptr-method": "\ts.Inc()\n",
    "val-func": "\ty = incCopy(s)\n",
    "copy-array": "\tb = a\n\tb[0] = x\n\tprintln(a[0], b[0])\n",
    "ptr-store": "\tp%d := &x\n\t*p%d = y\n",
    "field-store": "\ts.v = x\n",
    "slice-alias": "\tsl%d := a[:]\n\tsl%d[1] = x\n",
    "defer-dbl": "\tdefer func() { x *= 2 }()\n",
    "defer-res": "\tdefer func() { r += x }()\n",
}
PROC_PRELUDE = ("type S :struct {\n\tv: int\n}\n\nfunc S.Inc() {\n\tthis.v++\n}\n\nfunc incCopy(s: S) => int {\n\ts.v++\n\treturn s.v\n}\n\n")


def proc_fn(i, prog):
    body = "".join((PROC_ATOM[a] % (k, k)) if "%d" in PROC_ATOM[a] else PROC_ATOM[a] for k, a in enumerate(prog))
    return ("func prog%d() => (r: int) {\n\tx, y := 1, 0\n\ts, t := S{}, S{}\n\ta, b: [2]int\n\t_, _, _, _ = t, b, y, a\n" % i + body
            + "\tprintln(x, y, s.v, t.v, a[0], a[1], b[0])\n\treturn x + y\n}\n\n")


def procs(chk, wa, thorough):
    """WaProc.tla: value/reference semantics and defer - every statement sequence up to length 3 (4 in thorough)"""
    import os
    res = common.run_tlc("lang", "WaProc", "proc4.cfg" if thorough else "proc.cfg", collect_prefix='<<"T"', timeout=3000)
    if res.violated:
        raise MachineryError("WaProc.tla violates " + res.violated)
    chk.tlc(res, "WaProc (copies, aliases, closures, defer)")
    ps = [json.loads(common.parse_printt(l, "T")[0]) for l in res.lines]
    ps.sort(key=lambda p: p["prog"])
    batches = list(common.chunks(list(enumerate(ps)), 250))
    d = common.subdir("c01p")

    def job(kb):
        k, batch = kb
        src = PROC_PRELUDE + "".join(proc_fn(i, p["prog"]) for i, p in batch)
        src += "func main {\n" + "".join("\tprintln(\"P\", %d)\n\tprintln(prog%d())\n" % (i, i) for i, p in batch) + "}\n"
        f = os.path.join(d, "p%d.wa" % k)
        open(f, "w").write(src)
        rc, so, se, to = common.run_child([wa, "run", f], timeout=300, cwd=d)
        os.unlink(f)
        return batch, rc, so, se, to
    for batch, rc, so, se, to in common.parallel(job, list(enumerate(batches))):
        got = {}
        cur = None
        for l in so.splitlines():
            t = l.split()
            if len(t) == 2 and t[0] == "P":
                cur = int(t[1])
                got[cur] = []
            elif cur is not None:
                got[cur].append(l.strip())
        for i, p in batch:
            chk.add("traces_validated_against_impl", 1)
            want = [" ".join(str(v) for v in line) for line in p["out"]]
            if i not in got:
                chk.report("C01:procs:abort", "the program stops (status %s%s) before running %s: %s" % (rc, ", timeout" if to else "", "; ".join(p["prog"]), (se or so)[-200:]),
                           {"program": p["prog"], "stderr": se[-300:]})
                break
            if got[i] != want:
                chk.report("C01:procs:%s" % "+".join(sorted(set(p["prog"]))), "the statement sequence [%s] prints %s; Go's semantics give %s" % ("; ".join(p["prog"]), got[i], want),
                           {"program": p["prog"], "source": proc_fn(i, p["prog"]), "got": got[i], "want": want})
    chk.cov["proc_programs"] = len(ps)
    chk.sample({"proc_program": ps[len(ps) // 2]})


def strs(chk, wa):
    """WaStr.tla: strings as byte sequences - range decoding, rune conversions, comparison, concatenation, slicing"""
    import os
    res = common.run_tlc("lang", "WaStr", "str.cfg", files={"StdLib.tla": open(os.path.join(common.SPECS, "std", "StdLib.tla")).read()}, collect_prefix='<<"T"', timeout=3000)
    if res.violated:
        raise MachineryError("WaStr.tla violates " + res.violated)
    chk.tlc(res, "WaStr (range over strings, rune conversions, byte operations)")
    cs = [json.loads(common.parse_printt(l, "T")[0]) for l in res.lines]
    cs.sort(key=lambda c: json.dumps(c, sort_keys=True))

    def sv(b):
        return "string([]byte{%s})" % ", ".join(str(x) for x in b)

    def stmt(i, c):
        a = c["a"]
        head = "\tprint(%d)\n" % i
        fn = c["fn"]
        if fn == "range":
            return head + "\tfor i, r := range %s {\n\t\tprint(\" \")\n\t\tprint(i)\n\t\tprint(\":\")\n\t\tprint(int(r))\n\t}\n\tprintln()\n" % sv(a[0]["v"])
        if fn == "runes":
            return head + "\tfor _, r := range []rune(%s) {\n\t\tprint(\" \")\n\t\tprint(int(r))\n\t}\n\tprintln()\n" % sv(a[0]["v"])
        if fn == "string(rune)":
            return head + "\tfor _, b := range []byte(string(rune(%d))) {\n\t\tprint(\" \")\n\t\tprint(int(b))\n\t}\n\tprintln()\n" % a[0]["v"]
        if fn == "less":
            return head + "\tprint(\" \")\n\tprintln(%s < %s)\n" % (sv(a[0]["v"]), sv(a[1]["v"]))
        if fn == "equal":
            return head + "\tprint(\" \")\n\tprintln(%s == %s)\n" % (sv(a[0]["v"]), sv(a[1]["v"]))
        if fn == "concat":
            return head + "\tfor _, b := range []byte(%s + %s) {\n\t\tprint(\" \")\n\t\tprint(int(b))\n\t}\n\tprintln()\n" % (sv(a[0]["v"]), sv(a[1]["v"]))
        if fn == "slice":
            return head + "\tfor _, b := range []byte(%s[%d:%d]) {\n\t\tprint(\" \")\n\t\tprint(int(b))\n\t}\n\tprintln()\n" % (sv(a[0]["v"]), a[1]["v"], a[2]["v"])
        raise MachineryError("string case " + fn)

    def want(c):
        w = c["want"]
        if w["t"] == "pairs":
            return "".join(" %d:%d" % (p[0], p[1]) for p in w["v"])
        if w["t"] == "b":
            return " true" if w["v"] else " false"
        return "".join(" %d" % x for x in w["v"])
    batches = list(common.chunks(list(enumerate(cs)), 500))
    d = common.subdir("c01s2")

    def job(kb):
        k, batch = kb
        fns, calls = [], []
        for j in range(0, len(batch), 40):
            fns.append("func part%d {\n%s}\n\n" % (j // 40, "".join(stmt(i, c) for i, c in batch[j:j + 40])))
            calls.append("\tpart%d()\n" % (j // 40))
        f = os.path.join(d, "s%d.wa" % k)
        open(f, "w").write("".join(fns) + "func main {\n" + "".join(calls) + "}\n")
        rc, so, se, to = common.run_child([wa, "run", f], timeout=300, cwd=d)
        os.unlink(f)
        return batch, rc, so, se, to
    for batch, rc, so, se, to in common.parallel(job, list(enumerate(batches))):
        got = {}
        for l in so.splitlines():
            t = l.split(" ", 1)
            if t[0].isdigit():
                got[int(t[0])] = (" " + t[1]) if len(t) > 1 else ""
        if rc != 0 and not got:
            raise MachineryError("the string driver does not run: " + (se or so)[-300:])
        for i, c in batch:
            chk.add("traces_validated_against_impl", 1)
            if i not in got:
                chk.report("C01:strings:abort:%s" % c["fn"], "the program stops (status %s) at %s(%s): %s" % (rc, c["fn"], json.dumps([x["v"] for x in c["a"]]), (se or so)[-200:]), {"case": c})
                break
            if got[i].rstrip() != want(c).rstrip():
                chk.report("C01:strings:%s" % c["fn"], "%s(%s) prints %r; Go's semantics give %r" % (c["fn"], json.dumps([x["v"] for x in c["a"]]), got[i], want(c)), {"case": c, "got": got[i]})
    chk.cov["string_cases"] = len(cs)
    chk.sample({"string_case": cs[len(cs) // 2], "expected_line": want(cs[len(cs) // 2])})


FLOW_ATOM = {"a=0": "a = 0", "a=1": "a = 1", "a=b": "a = b", "b=a": "b = a", "b=c": "b = c", "c=a": "c = a", "c=b": "c = b", "a++": "a++", "b+=a": "b += a", "c=i": "c = i",
             "if a==0 {b=7}": "if a == 0 {\n\t\t\tb = 7\n\t\t}", "if b>c {continue}": "if b > c {\n\t\t\tcontinue\n\t\t}", "if c>1 {break}": "if c > 1 {\n\t\t\tbreak\n\t\t}",
             "if a<b {a=5} else {c=9}": "if a < b {\n\t\t\ta = 5\n\t\t} else {\n\t\t\tc = 9\n\t\t}"}
FLOW_RUNS = [(1, 2, 3, 0), (1, 2, 3, 1), (1, 2, 3, 3), (0, 0, 0, 0), (0, 0, 0, 1), (0, 0, 0, 3)]


def flows(chk, wa, thorough):
    """WaFlow.tla: loops with loop-carried variables, break/continue, conditional assignment - every body up to length 3 (4 in thorough)"""
    import os
    res = common.run_tlc("lang", "WaFlow", "flow4.cfg" if thorough else "flow.cfg", collect_prefix='<<"T"', timeout=3000)
    if res.violated:
        raise MachineryError("WaFlow.tla violates " + res.violated)
    chk.tlc(res, "WaFlow (loops, loop-carried variables, break/continue)")
    ps = [json.loads(common.parse_printt(l, "T")[0]) for l in res.lines]
    ps.sort(key=lambda p: p["body"])
    batches = list(common.chunks(list(enumerate(ps)), 250))
    d = common.subdir("c01f")

    def fn(i, p):
        body = "".join("\t\t%s\n" % FLOW_ATOM[a] for a in p["body"])
        # the variables are locals initialised with constants (every edge into the loop header carries a constant or a loop value), once per initial state
        return "".join("func flow%d_%d(n: int) {\n\ta := %d\n\tb := %d\n\tc := %d\n\tfor i := 0; i < n; i++ {\n%s\t}\n\tprintln(a, b, c)\n}\n\n" % ((i, k) + init + (body,))
                       for k, init in enumerate([(1, 2, 3), (0, 0, 0)]))

    def job(kb):
        k, batch = kb
        src = "".join(fn(i, p) for i, p in batch) + "func main {\n" + "".join(
            "\tprintln(\"P\", %d)\n" % i + "".join("\tflow%d_%d(%d)\n" % (i, 0 if r[0] == 1 else 1, r[3]) for r in FLOW_RUNS) for i, p in batch) + "}\n"
        f = os.path.join(d, "f%d.wa" % k)
        open(f, "w").write(src)
        rc, so, se, to = common.run_child([wa, "run", f], timeout=300, cwd=d)
        os.unlink(f)
        return batch, rc, so, se, to
    for batch, rc, so, se, to in common.parallel(job, list(enumerate(batches))):
        got, cur = {}, None
        for l in so.splitlines():
            t = l.split()
            if len(t) == 2 and t[0] == "P":
                cur = int(t[1])
                got[cur] = []
            elif cur is not None:
                got[cur].append(l.strip())
        for i, p in batch:
            chk.add("traces_validated_against_impl", 1)
            want = [" ".join(str(v) for v in r) for r in p["runs"]]
            if i not in got or len(got[i]) < len(want):
                chk.report("C01:flow:abort", "the program stops (status %s%s) in the loop body [%s]: %s" % (rc, ", timeout" if to else "", "; ".join(p["body"]), (se or so)[-200:]), {"body": p["body"]})
                break
            if got[i] != want:
                k = next(j for j in range(len(want)) if got[i][j] != want[j])
                chk.report("C01:flow:%s" % "+".join(sorted(set(p["body"]))).replace(" ", ""), "the loop body [%s] started with (a, b, c, n) = %s ends with %s; Go's semantics give %s" % (
                    "; ".join(p["body"]), FLOW_RUNS[k], got[i][k], want[k]), {"body": p["body"], "source": fn(i, p), "got": got[i], "want": want})
    chk.cov["flow_programs"] = len(ps)
    chk.sample({"flow_program": ps[len(ps) // 2]})


def replay(chk, path):
    run(chk)
