// Read-only accessor used by the verification harness (overlay only, never in /repo).
package diff

type VerifLine struct {
	Kind    string // "-", "+", " "
	Content string
}
type VerifHunk struct {
	From, To int
	Lines    []VerifLine
}

// VerifHunks exposes the hunks ToUnified renders.
func VerifHunks(content string, edits []Edit, contextLines int) ([]VerifHunk, error) {
	u, err := toUnified("a", "b", content, edits, contextLines)
	if err != nil {
		return nil, err
	}
	var out []VerifHunk
	for _, h := range u.hunks {
		vh := VerifHunk{From: h.fromLine, To: h.toLine}
		for _, l := range h.lines {
			k := " "
			switch l.kind {
			case opDelete:
				k = "-"
			case opInsert:
				k = "+"
			}
			vh.Lines = append(vh.Lines, VerifLine{k, l.content})
		}
		out = append(out, vh)
	}
	return out, nil
}
