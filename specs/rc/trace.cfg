INIT Init
NEXT Next
CONSTRAINT HighWater
POSTCONDITION Accepted
