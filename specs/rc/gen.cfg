CONSTANTS
  Templates = {1,2,3,4,5,6,7,8,9,10,11,12}
  MaxLen = 2
  Emit = TRUE
INIT Init
NEXT Next
