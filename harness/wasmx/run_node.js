// Independent engine (V8): runs cases.json against module.wasm, prints mismatches as JSON lines.
const fs = require('fs'), path = require('path');
const dir = process.argv[2];
const cases = JSON.parse(fs.readFileSync(path.join(dir, 'cases.json')));
const insts = {}, failed = {};
function instOf(mod) {
  if (mod in insts || mod in failed) return insts[mod];
  try {
    const bytes = fs.readFileSync(path.join(dir, mod + '.wasm'));
    if (!WebAssembly.validate(bytes)) { failed[mod] = 'invalid'; console.log(JSON.stringify({engine: 'v8', mod, invalid: true})); return undefined; }
    insts[mod] = new WebAssembly.Instance(new WebAssembly.Module(bytes), {});
  } catch (e) { failed[mod] = String(e); console.log(JSON.stringify({engine: 'v8', mod, invalid: true, error: String(e.message || e)})); }
  return insts[mod];
}
let bad = 0;
cases.forEach((c, i) => {
  const inst = instOf(c.mod);
  if (!inst) { bad++; return; }
  const f = inst.exports[c.fn];
  const args = c.args.map((a, k) => c.argty[k] === 'i64' ? BigInt.asIntN(64, BigInt(a)) : (Number(a) | 0));
  let got = '', trap = '';
  try {
    const r = f(...args);
    got = c.resty === 'i64' ? BigInt.asUintN(64, r).toString() : (r >>> 0).toString();
  } catch (e) { trap = String(e.message || e); }
  const ok = (c.trap === '' && trap === '' && got === c.want) || (c.trap !== '' && trap !== '');
  if (!ok) { bad++; if (bad <= 60) console.log(JSON.stringify({engine: 'v8', i, case: c, got, trap})); }
});
console.log(JSON.stringify({engine: 'v8', done: true, n: cases.length, bad}));
