"""The Wa language kernel shared by C01 (run-time semantics), C15 (constant folding) and
C09 (.wz = .wa): TLC evaluates WaInt.tla on the operand space; the cases are rendered as Wa
programs (English and Chinese surface syntax), compiled and run by the real toolchain."""
import json
import os

import common
from common import MachineryError

WZ_TYPES = {"int": "整型", "uint": "正整", "i32": "普整型", "i64": "长整型",
            "u8": "微正整", "u16": "短正整", "u32": "普正整", "u64": "长正整", "bool": "布尔",
            "byte": "字节", "rune": "符文", "uintptr": "地址型"}
SIGNED = {"int": True, "uint": False, "i32": True, "i64": True, "u8": False, "u16": False, "u32": False, "u64": False,
          "byte": False, "rune": True, "uintptr": False}
ALL_TYPES = ["int", "uint", "i32", "i64", "u8", "u16", "u32", "u64"]
OPNAME = {"+": "add", "-": "sub", "*": "mul", "/": "div", "%": "rem", "&": "and", "|": "or", "^": "xor", "&^": "andnot",
          "==": "eq", "!=": "ne", "<": "lt", "<=": "le", ">": "gt", ">=": "ge", "<<": "shl", ">>": "shr"}


def cfg(types):
    return 'CONSTANTS\n  Emit = TRUE\n  TypeNames = {%s}\nINIT Init\nNEXT Next\n' % ", ".join('"%s"' % t for t in types)


def cases_from_tlc(chk, types, label):
    res = common.run_tlc("lang", "WaIntCases", "i.cfg", files={"i.cfg": cfg(types)}, collect_prefix='<<"T"', timeout=3000)
    chk.tlc(res, label)
    cs = [json.loads(common.parse_printt(l, "T")[0]) for l in res.lines]
    if not cs:
        raise MachineryError("no cases")
    return cs


def val(bs, signed):
    n = int.from_bytes(bytes(bs), "little")
    if signed and bs and bs[-1] >= 128:
        n -= 1 << (8 * len(bs))
    return n


def lit(bs, signed):
    return str(val(bs, signed))


def ty(t, wz):
    return WZ_TYPES[t] if wz else t


def fn_name(c):
    if c["kind"] == "conv":
        return "conv_%s_%s" % (c["t"], c["op"])
    if c["kind"] == "unary":
        return "un_%s_%s" % (c["t"], "neg" if c["op"] == "-" else "not")
    return "f_%s_%s" % (c["t"], OPNAME[c["op"]])


def fn_def(c, wz):
    """one function per (type, operator): operands are parameters, i.e. run-time values"""
    t = c["t"]
    name = fn_name(c)
    T = ty(t, wz)
    if c["kind"] == "arith":
        sig, body, res = "a, b: %s" % T, "a %s b" % c["op"], T
    elif c["kind"] == "cmp":
        sig, body, res = "a, b: %s" % T, "a %s b" % c["op"], ty("bool", wz)
    elif c["kind"] == "shift":
        sig, body, res = "a: %s, c: %s" % (T, ty("u32", wz)), "a %s c" % c["op"], T
    elif c["kind"] == "unary":
        sig, body, res = "a: %s" % T, "%sa" % c["op"], T
    else:
        T2 = ty(c["op"], wz)
        sig, body, res = "a: %s" % T, "%s(a)" % T2, T2
    if wz:
        return "函数·%s(%s) => %s:\n\t返回 %s\n完毕\n" % (name, sig, res, body)
    return "func %s(%s) => %s {\n\treturn %s\n}\n" % (name, sig, res, body)


def call(c):
    a = lit(c["a"], c["signed"])
    if c["kind"] in ("arith", "cmp"):
        return "%s(%s, %s)" % (fn_name(c), a, lit(c["b"], c["signed"]))
    if c["kind"] == "shift":
        return "%s(%s, %s)" % (fn_name(c), a, val(c["b"], False))
    return "%s(%s)" % (fn_name(c), a)


def expected_rt(c, types_signed):
    if c["rt"] == "bool":
        return "true" if c["r"] == [1] else "false"
    if c["kind"] == "conv":
        return str(val(c["r"], types_signed[c["op"]]))
    return str(val(c["r"], c["signed"]))


def program(cases, wz):
    defs, seen = [], set()
    for c in cases:
        n = fn_name(c)
        if n not in seen:
            seen.add(n)
            defs.append(fn_def(c, wz))
    calls = "".join("\t%s(%s)\n" % ("输出" if wz else "println", call(c)) for c in cases)
    if wz:
        return "\n".join(defs) + "\n函数·主控:\n" + calls + "完毕\n"
    return "\n".join(defs) + "\nfunc main {\n" + calls + "}\n"


def const_expr(c, wz):
    """the same operation on typed constants"""
    T = ty(c["t"], wz)
    a = "%s(%s)" % (T, lit(c["a"], c["signed"]))
    if c["kind"] in ("arith", "cmp"):
        return "%s %s %s(%s)" % (a, c["op"], T, lit(c["b"], c["signed"]))
    if c["kind"] == "shift":
        return "%s %s %d" % (a, c["op"], val(c["b"], False))
    if c["kind"] == "unary":
        return "%s%s" % (c["op"], a)
    return "%s(%s)" % (ty(c["op"], wz), a)


def run_program(wa, text, ext, idx, sub):
    d = common.subdir("%s/%d" % (sub, idx))
    f = os.path.join(d, "k" + ext)
    with open(f, "w") as fh:
        fh.write(text)
    rc, so, se, to = common.run_child([wa, "run", f], timeout=120, cwd=d)
    return rc, so, se, to
