-------------------------------- MODULE WasmCtl --------------------------------
(* Structured control flow of WebAssembly (block, loop, if/else, br, br_if,      *)
(* br_table, return) as an interpreter over statement trees, from the core       *)
(* specification: a branch to label k leaves the k enclosing constructs and      *)
(* continues after the k-th (a block or if) or at its start (a loop).            *)
(* A function has one parameter a and locals b, c (i32) and returns b.  Every    *)
(* loop entry consumes one unit of fuel and traps (`unreachable`) when none is   *)
(* left, so that every generated program terminates; the rendering puts the      *)
(* same guard at the head of each loop body.                                     *)
(* Role F: TLC enumerates the programs of a bounded grammar (all label depths    *)
(* valid by construction), evaluates each on three arguments and emits           *)
(* (program, argument, result or trap); the hub renders the program as WAT.      *)
EXTENDS Integers, Sequences, FiniteSets, TLC, Json
CONSTANTS Emit, Full      \* Full: the outer construct may also hold a simple statement before or after its compound one

\* ---- expressions (i32; the values that occur stay small, so no wrap-around is modelled) ----
Get(x) == [e |-> "get", x |-> x]
Const(v) == [e |-> "const", v |-> v]
Bin(o, l, r) == [e |-> o, l |-> l, r |-> r]
RECURSIVE Eval(_, _)
Eval(ex, env) == CASE ex.e = "get" -> env[ex.x]
                   [] ex.e = "const" -> ex.v
                   [] ex.e = "add" -> Eval(ex.l, env) + Eval(ex.r, env)
                   [] ex.e = "sub" -> Eval(ex.l, env) - Eval(ex.r, env)
                   [] ex.e = "lt_s" -> IF Eval(ex.l, env) < Eval(ex.r, env) THEN 1 ELSE 0
                   [] ex.e = "eqz" -> IF Eval(ex.l, env) = 0 THEN 1 ELSE 0
Sets == {[s |-> "set", x |-> "b", e |-> Bin("add", Get("b"), Const(1))], [s |-> "set", x |-> "b", e |-> Bin("add", Get("a"), Get("b"))],
         [s |-> "set", x |-> "c", e |-> Const(1)], [s |-> "set", x |-> "a", e |-> Bin("sub", Get("a"), Const(1))], [s |-> "set", x |-> "b", e |-> Bin("add", Get("c"), Get("c"))]}
Conds == {Get("a"), [e |-> "eqz", l |-> Get("a")], Bin("lt_s", Get("b"), Const(3))}

\* ---- statements ----
Next1(env) == [k |-> "next", n |-> 0, env |-> env]
RECURSIVE ExecSeq(_, _), Exec(_, _)
ExecSeq(ss, env) == IF ss = <<>> THEN Next1(env)
                    ELSE LET r == Exec(Head(ss), env) IN IF r.k = "next" THEN ExecSeq(Tail(ss), r.env) ELSE r
\* leaving one labelled construct: a branch to it ends here, deeper branches lose one level
Leave(r) == IF r.k = "br" THEN (IF r.n = 0 THEN Next1(r.env) ELSE [r EXCEPT !.n = r.n - 1]) ELSE r
Exec(st, env) ==
  CASE st.s = "set" -> Next1([env EXCEPT ![st.x] = Eval(st.e, env)])
    [] st.s = "br" -> [k |-> "br", n |-> st.k, env |-> env]
    [] st.s = "brif" -> IF Eval(st.e, env) # 0 THEN [k |-> "br", n |-> st.k, env |-> env] ELSE Next1(env)
    [] st.s = "brtable" -> LET i == Eval(st.e, env) IN [k |-> "br", n |-> IF i >= 0 /\ i < Len(st.ks) THEN st.ks[i + 1] ELSE st.d, env |-> env]
    [] st.s = "ret" -> [k |-> "ret", n |-> 0, env |-> env]
    [] st.s = "block" -> Leave(ExecSeq(st.body, env))
    [] st.s = "if" -> Leave(IF Eval(st.e, env) # 0 THEN ExecSeq(st.th, env) ELSE ExecSeq(st.el, env))
    [] st.s = "loop" -> IF env.fuel = 0 THEN [k |-> "trap", n |-> 0, env |-> env]
                        ELSE LET r == ExecSeq(st.body, [env EXCEPT !.fuel = env.fuel - 1]) IN
                             IF r.k = "br" /\ r.n = 0 THEN Exec(st, r.env) ELSE Leave(r)
Fuel == 5
Result(prog, a) == LET r == ExecSeq(prog, [a |-> a, b |-> 0, c |-> 0, fuel |-> Fuel]) IN
                   IF r.k = "trap" THEN [trap |-> "unreachable", v |-> 0] ELSE [trap |-> "", v |-> r.env.b]

\* ---- the program space: L = number of enclosing labels ----
Simple(L) == Sets \cup {[s |-> "ret"]}
             \cup {[s |-> "br", k |-> k] : k \in 0..(L - 1)}
             \cup {[s |-> "brif", k |-> k, e |-> c] : k \in 0..(L - 1), c \in Conds}
             \cup (IF L >= 2 THEN {[s |-> "brtable", ks |-> <<0, 1>>, d |-> 0, e |-> Get("a")], [s |-> "brtable", ks |-> <<1, 0>>, d |-> 1, e |-> Get("a")],
                                    [s |-> "brtable", ks |-> <<1>>, d |-> 0, e |-> Get("b")]}
                   ELSE IF L = 1 THEN {[s |-> "brtable", ks |-> <<0>>, d |-> 0, e |-> Get("a")]} ELSE {})
SeqUpTo(S, n) == UNION {[1..k -> S] : k \in 0..n}
\* compound statements whose bodies are simple (innermost level, L labels outside)
Inner(L) == {[s |-> "block", body |-> b] : b \in SeqUpTo(Simple(L + 1), 2)}
            \cup {[s |-> "loop", body |-> b] : b \in SeqUpTo(Simple(L + 1), 2)}
            \cup {[s |-> "if", e |-> c, th |-> t, el |-> f] : c \in Conds, t \in SeqUpTo(Simple(L + 1), 1), f \in SeqUpTo(Simple(L + 1), 1)}
Level1 == Simple(1) \cup Inner(1)
\* bodies of the outer construct: at most one compound statement, optionally with a simple one before or after it
OuterBodies == {<<s>> : s \in Level1} \cup (IF Full THEN {<<p, s>> : p \in Simple(1), s \in Inner(1)} \cup {<<s, p>> : s \in Inner(1), p \in Simple(1)} ELSE {})
Programs == {<<[s |-> "block", body |-> b]>> : b \in OuterBodies} \cup {<<[s |-> "loop", body |-> b]>> : b \in OuterBodies}
            \cup {<<[s |-> "if", e |-> c, th |-> b, el |-> <<[s |-> "set", x |-> "b", e |-> Bin("add", Get("b"), Const(1))]>>]>> : c \in Conds, b \in {<<s>> : s \in Inner(1)}}
            \cup {<<p, s>> : p \in Sets, s \in Inner(0)}

VARIABLES prog, done
Init == prog \in Programs /\ done = FALSE
Next == /\ ~done /\ done' = TRUE /\ UNCHANGED prog
        /\ (Emit => PrintT(<<"T", ToJson([kind |-> "ctl", prog |-> prog, cases |-> [a \in 0..2 |-> Result(prog, a)]])>>))
\* hand-evaluated programs
P1 == <<[s |-> "loop", body |-> <<[s |-> "set", x |-> "b", e |-> Bin("add", Get("b"), Const(1))], [s |-> "brif", k |-> 0, e |-> Bin("lt_s", Get("b"), Const(3))]>>]>>
P2 == <<[s |-> "block", body |-> <<[s |-> "block", body |-> <<[s |-> "brtable", ks |-> <<0, 1>>, d |-> 0, e |-> Get("a")]>>], [s |-> "set", x |-> "b", e |-> Bin("add", Get("b"), Const(1))]>>]>>
P3 == <<[s |-> "loop", body |-> <<[s |-> "br", k |-> 0]>>]>>
Known == /\ Result(P1, 0).v = 3 /\ Result(P1, 0).trap = ""
         /\ Result(P2, 0).v = 1 /\ Result(P2, 1).v = 0 /\ Result(P2, 2).v = 1
         /\ Result(P3, 0).trap = "unreachable"
=============================================================================
