CONSTANTS
  Emit = TRUE
  Group = "ri"
INIT Init
NEXT Next
