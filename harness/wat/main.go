// Harness for the WAT tool properties.  Mode strip (C06): renders TLC call graphs as WAT
// modules, strips them with the real watstrip, and compares the retained functions,
// validity and behaviour with the specification.
package main

import (
	"bufio"
	"context"
	"encoding/json"
	"fmt"
	"os"
	"sort"
	"strings"

	"wa-lang.org/wa/internal/3rdparty/wazero"
	"wa-lang.org/wa/internal/3rdparty/wazero/api"
	"wa-lang.org/wa/internal/wat/parser"
	"wa-lang.org/wa/internal/wat/printer"
	"wa-lang.org/wa/internal/wat/watutil"
	"wa-lang.org/wa/internal/wat/watutil/watstrip"
)

func unescape(line string) (string, bool) {
	const pre = `<<"T", "`
	if !strings.HasPrefix(line, pre) || !strings.HasSuffix(line, `">>`) {
		return "", false
	}
	s := line[len(pre) : len(line)-3]
	s = strings.ReplaceAll(s, `\"`, `"`)
	s = strings.ReplaceAll(s, `\\`, `\`)
	return s, true
}

type StripCase struct {
	N         int     `json:"n"`
	Calls     [][]int `json:"calls"`
	Imported  bool    `json:"imported"`
	Exports   []int   `json:"exports"`
	Elems     []int   `json:"elems"`
	Start     int     `json:"start"`
	Keep      []int   `json:"keep"`
	Predicted []int   `json:"predicted"`
	Vals      []int   `json:"vals"`
}

func has(a []int, x int) bool {
	for _, v := range a {
		if v == x {
			return true
		}
	}
	return false
}

func callSeq(j int) string {
	return fmt.Sprintf("\t\tlocal.get $d\n\t\ti32.const 1\n\t\ti32.sub\n\t\tcall $f%d\n\t\tlocal.get $acc\n\t\ti32.add\n\t\tlocal.set $acc\n", j)
}

func render(c *StripCase) string {
	var sb strings.Builder
	sb.WriteString("(module $m\n")
	if c.Imported {
		sb.WriteString("\t(import \"env\" \"f1\" (func $f1 (param i32) (result i32)))\n")
	}
	sb.WriteString("\t(type $t (func (param i32) (result i32)))\n")
	sb.WriteString("\t(table 4 funcref)\n")
	if len(c.Elems) > 0 {
		sb.WriteString("\t(elem (i32.const 0)")
		for _, e := range c.Elems {
			fmt.Fprintf(&sb, " $f%d", e)
		}
		sb.WriteString(")\n")
	}
	sb.WriteString("\t(global $g (mut i32) (i32.const 0))\n")
	for i := 1; i <= c.N; i++ {
		if c.Imported && i == 1 {
			continue
		}
		exp := ""
		if has(c.Exports, i) {
			exp = fmt.Sprintf(" (export \"e%d\")", i)
		}
		fmt.Fprintf(&sb, "\t(func $f%d%s (param $d i32) (result i32)\n\t\t(local $acc i32)\n", i, exp)
		fmt.Fprintf(&sb, "\t\tlocal.get $d\n\t\ti32.const 0\n\t\ti32.le_s\n\t\tif\n\t\t\ti32.const %d\n\t\t\treturn\n\t\tend\n", 1<<uint(i))
		fmt.Fprintf(&sb, "\t\ti32.const %d\n\t\tlocal.set $acc\n", 1<<uint(i))
		var dead []int
		for _, cl := range c.Calls {
			if cl[0] != i {
				continue
			}
			j := cl[1]
			switch (i + 2*j) % 4 {
			case 0:
				sb.WriteString(callSeq(j))
			case 1:
				sb.WriteString("\t\tblock\n" + callSeq(j) + "\t\tend\n")
			case 2:
				sb.WriteString("\t\ti32.const 0\n\t\tif\n\t\t\ti32.const 7\n\t\t\tdrop\n\t\telse\n" + callSeq(j) + "\t\tend\n")
			case 3:
				dead = append(dead, j)
			}
		}
		sb.WriteString("\t\tlocal.get $acc\n\t\treturn\n")
		for _, j := range dead {
			fmt.Fprintf(&sb, "\t\tlocal.get $d\n\t\tcall $f%d\n\t\tdrop\n", j)
		}
		if len(dead) > 0 {
			sb.WriteString("\t\ti32.const 0\n")
		}
		sb.WriteString("\t)\n")
	}
	sb.WriteString("\t(func $ind (export \"ind\") (param $k i32) (param $d i32) (result i32)\n\t\tlocal.get $d\n\t\tlocal.get $k\n\t\tcall_indirect (type $t)\n\t)\n")
	sb.WriteString("\t(func $getg (export \"getg\") (result i32)\n\t\tglobal.get $g\n\t)\n")
	if c.Start != 0 {
		fmt.Fprintf(&sb, "\t(func $st\n\t\ti32.const 2\n\t\tcall $f%d\n\t\tglobal.set $g\n\t)\n\t(start $st)\n", c.Start)
	}
	sb.WriteString(")\n")
	return sb.String()
}

var ctx = context.Background()

// execute: instantiate and call every root; returns name -> result (or error text)
func execute(wasm []byte, c *StripCase) (res map[string]string, err error) {
	defer func() {
		if e := recover(); e != nil {
			err = fmt.Errorf("panic: %v", e)
		}
	}()
	rt := wazero.NewRuntimeWithConfig(ctx, wazero.NewRuntimeConfigInterpreter())
	defer rt.Close(ctx)
	_, err = rt.NewHostModuleBuilder("env").NewFunctionBuilder().
		WithFunc(func(ctx context.Context, d int32) int32 { return 2 }).Export("f1").Instantiate(ctx, rt)
	if err != nil {
		return nil, err
	}
	mod, err := rt.InstantiateModuleFromBinary(ctx, wasm)
	if err != nil {
		return nil, err
	}
	res = map[string]string{}
	call := func(name string, args ...uint64) {
		fn := mod.ExportedFunction(name)
		if fn == nil {
			res[name] = "missing export"
			return
		}
		r, err := fn.Call(ctx, args...)
		if err != nil {
			res[name] = "error: " + strings.Split(err.Error(), "\n")[0]
			return
		}
		res[name] = fmt.Sprint(api.DecodeI32(r[0]))
	}
	for _, e := range c.Exports {
		call(fmt.Sprintf("e%d", e), 2)
	}
	for k := range c.Elems {
		res[fmt.Sprintf("ind%d", k)] = ""
		fn := mod.ExportedFunction("ind")
		r, err := fn.Call(ctx, uint64(k), 2)
		if err != nil {
			res[fmt.Sprintf("ind%d", k)] = "error: " + strings.Split(err.Error(), "\n")[0]
		} else {
			res[fmt.Sprintf("ind%d", k)] = fmt.Sprint(api.DecodeI32(r[0]))
		}
	}
	call("getg")
	return res, nil
}

func funcNames(wat []byte) ([]int, error) {
	m, err := parser.ParseModule("stripped.wat", wat)
	if err != nil {
		return nil, err
	}
	var out []int
	add := func(name string) {
		var k int
		if _, err := fmt.Sscanf(name, "f%d", &k); err == nil && fmt.Sprintf("f%d", k) == name {
			out = append(out, k)
		}
	}
	for _, im := range m.Imports {
		add(strings.TrimPrefix(im.FuncName, "$"))
	}
	for _, f := range m.Funcs {
		add(strings.TrimPrefix(f.Name, "$"))
	}
	sort.Ints(out)
	return out, nil
}

func eqInts(a, b []int) bool {
	if len(a) != len(b) {
		return false
	}
	for i := range a {
		if a[i] != b[i] {
			return false
		}
	}
	return true
}

func stripCase(c *StripCase, exec bool) (fail string, detail string, drift bool) {
	defer func() {
		if e := recover(); e != nil {
			fail, detail = "panic", fmt.Sprint(e)
		}
	}()
	src := render(c)
	wasm0, err := watutil.Wat2Wasm("m.wat", []byte(src))
	if err != nil {
		return "", "", false // the generated module itself is not accepted: not a case (counted by the caller)
	}
	out, err := watstrip.WatStrip("m.wat", []byte(src))
	if err != nil {
		return "strip-error", err.Error(), false
	}
	names, err := funcNames(out)
	if err != nil {
		return "stripped-module-does-not-parse", err.Error(), false
	}
	sort.Ints(c.Keep)
	sort.Ints(c.Predicted)
	if !eqInts(names, c.Keep) {
		kind := "removes-reachable"
		for _, n := range names {
			if !has(c.Keep, n) {
				kind = "keeps-unreachable"
			}
		}
		for _, k := range c.Keep {
			if !has(names, k) {
				kind = "removes-reachable"
			}
		}
		return kind, fmt.Sprintf("retained %v, reachable %v", names, c.Keep), false
	}
	drift = !eqInts(names, c.Predicted)
	wasm1, err := func() (b []byte, err error) {
		defer func() {
			if e := recover(); e != nil {
				err = fmt.Errorf("panic: %v", e)
			}
		}()
		return watutil.Wat2Wasm("stripped.wat", out)
	}()
	if err != nil {
		return "stripped-module-invalid", err.Error(), drift
	}
	if !exec {
		return "", "", drift
	}
	r0, err0 := execute(wasm0, c)
	r1, err1 := execute(wasm1, c)
	if err0 != nil {
		return "", "", drift // the original does not instantiate: not a case
	}
	if err1 != nil {
		return "stripped-module-invalid", err1.Error(), drift
	}
	// behaviour before = behaviour after, and both are what the specification computes
	for k, v := range r0 {
		if r1[k] != v {
			return "behaviour-changed", fmt.Sprintf("%s: %s before, %s after", k, v, r1[k]), drift
		}
	}
	for _, e := range c.Exports {
		if r0[fmt.Sprintf("e%d", e)] != fmt.Sprint(c.Vals[e-1]) {
			return "", "spec-value-mismatch " + fmt.Sprintf("e%d: %s vs %d", e, r0[fmt.Sprintf("e%d", e)], c.Vals[e-1]), drift
		}
	}
	return "", "", drift
}

func stripMain(path string, execEvery int) {
	f, err := os.Open(path)
	if err != nil {
		fmt.Fprintln(os.Stderr, err)
		os.Exit(2)
	}
	out := bufio.NewWriter(os.Stdout)
	defer out.Flush()
	enc := json.NewEncoder(out)
	sc := bufio.NewScanner(f)
	sc.Buffer(make([]byte, 1<<20), 1<<24)
	n, bad, drift, execd, specbad := 0, 0, 0, 0, 0
	for sc.Scan() {
		js, ok := unescape(sc.Text())
		if !ok {
			continue
		}
		var c StripCase
		if err := json.Unmarshal([]byte(js), &c); err != nil {
			fmt.Fprintln(os.Stderr, err)
			os.Exit(2)
		}
		n++
		exec := execEvery > 0 && n%execEvery == 0
		if exec {
			execd++
		}
		fail, detail, d := stripCase(&c, exec)
		if d {
			drift++
		}
		if fail == "" && strings.HasPrefix(detail, "spec-value-mismatch") {
			specbad++
			if specbad <= 5 {
				enc.Encode(map[string]interface{}{"specbad": detail, "case": c})
			}
		}
		if fail != "" {
			bad++
			if bad <= 40 {
				stripped, _ := watstrip.WatStrip("m.wat", []byte(render(&c)))
				enc.Encode(map[string]interface{}{"fail": fail, "detail": detail, "case": c, "wat": render(&c), "stripped": string(stripped)})
			}
		}
	}
	enc.Encode(map[string]interface{}{"done": true, "n": n, "bad": bad, "drift": drift, "executed": execd, "specbad": specbad})
}

// ---------------------------------------------------------------- C05: printer round trip

type GenMod struct {
	Mem     string `json:"mem"`
	Table   string `json:"table"`
	Globals string `json:"globals"`
	Data    string `json:"data"`
	Imports string `json:"imports"`
	Exports string `json:"exports"`
	Start   bool   `json:"start"`
	Elem    string `json:"elem"`
	Body    string `json:"body"`
}

func renderGen(g *GenMod) string {
	var sb strings.Builder
	sb.WriteString("(module $gen\n")
	switch g.Imports {
	case "func-named":
		sb.WriteString("\t(import \"env\" \"put\" (func $put (param $x i32) (param $y i64)))\n")
	case "func-anon":
		sb.WriteString("\t(import \"env\" \"put\" (func $put (param i32) (param i64)))\n")
	case "func+global":
		sb.WriteString("\t(import \"env\" \"put\" (func $put (param $x i32) (param $y i64)))\n\t(import \"env\" \"base\" (global $base i32))\n")
	}
	if g.Mem != "none" {
		fmt.Fprintf(&sb, "\t(memory $memory %s)\n", g.Mem)
	}
	if g.Table != "none" {
		fmt.Fprintf(&sb, "\t(table %s funcref)\n", g.Table)
	}
	sb.WriteString("\t(type $bin (func (param i32 i32) (result i32)))\n")
	switch g.Globals {
	case "const-i32":
		sb.WriteString("\t(global $k i32 (i32.const -7))\n")
	case "mut-i64+const-i32":
		sb.WriteString("\t(global $acc (mut i64) (i64.const 9223372036854775807))\n\t(global $k i32 (i32.const 42))\n")
	}
	exp := func(name string) string {
		if g.Exports == "inline" || g.Exports == "memory+global" || g.Exports == "inline+alias" {
			return fmt.Sprintf(" (export \"%s\")", name)
		}
		return ""
	}
	switch g.Body {
	case "arith":
		fmt.Fprintf(&sb, "\t(func $f%s (param $a i32) (param $b i32) (result i32)\n\t\tlocal.get $a\n\t\tlocal.get $b\n\t\ti32.add\n\t\ti32.const -129\n\t\ti32.xor\n\t)\n", exp("f"))
	case "control":
		fmt.Fprintf(&sb, "\t(func $f%s (param $a i32) (param $b i32) (result i32)\n\t\tblock $out (result i32)\n\t\t\tloop $again\n\t\t\t\tlocal.get $a\n\t\t\t\ti32.eqz\n\t\t\t\tif\n\t\t\t\t\tlocal.get $b\n\t\t\t\t\tbr $out\n\t\t\t\tend\n\t\t\t\tlocal.get $a\n\t\t\t\ti32.const 1\n\t\t\t\ti32.sub\n\t\t\t\tlocal.set $a\n\t\t\t\tbr $again\n\t\t\tend\n\t\t\ti32.const 0\n\t\tend\n\t)\n", exp("f"))
	case "locals":
		fmt.Fprintf(&sb, "\t(func $f%s (param $a i32) (param $b i32) (result i32)\n\t\t(local $t i64)\n\t\t(local $u i32)\n\t\tlocal.get $a\n\t\ti64.extend_i32_s\n\t\tlocal.set $t\n\t\tlocal.get $t\n\t\ti32.wrap_i64\n\t\tlocal.tee $u\n\t\tlocal.get $b\n\t\ti32.mul\n\t)\n", exp("f"))
	}
	fmt.Fprintf(&sb, "\t(func $g%s (result i32)\n\t\ti32.const 3\n\t\ti32.const 4\n\t\tcall $f\n\t)\n", exp("g"))
	if g.Imports != "none" {
		sb.WriteString("\t(func $h (param $v i32)\n\t\tlocal.get $v\n\t\ti64.const 5\n\t\tcall $put\n\t)\n")
	}
	if g.Start {
		sb.WriteString("\t(func $init\n\t\ti32.const 1\n\t\tdrop\n\t)\n\t(start $init)\n")
	}
	if g.Exports == "standalone" {
		sb.WriteString("\t(export \"f\" (func $f))\n\t(export \"g\" (func $g))\n")
	}
	if g.Exports == "memory+global" {
		sb.WriteString("\t(export \"memory\" (memory $memory))\n\t(export \"k\" (global $k))\n")
	}
	if g.Exports == "inline+alias" {
		sb.WriteString("\t(export \"f_alias\" (func $f))\n\t(export \"g_alias\" (func $g))\n")
	}
	if g.Elem == "one" {
		sb.WriteString("\t(elem (i32.const 0) $f)\n")
	}
	switch g.Data {
	case "one":
		sb.WriteString("\t(data (i32.const 8) \"hi\\00\\ff\\n\")\n")
	case "two":
		sb.WriteString("\t(data (i32.const 8) \"abc\")\n\t(data (i32.const 64) \"\\22q\\5c\")\n")
	}
	sb.WriteString(")\n")
	return sb.String()
}

func safe(f func() ([]byte, error)) (b []byte, err error) {
	defer func() {
		if e := recover(); e != nil {
			err = fmt.Errorf("panic: %v", e)
		}
	}()
	return f()
}

// roundTrip: Wat2Wasm(print(parse(src))) == Wat2Wasm(src) and print is idempotent
func roundTrip(name string, src []byte) (fail, detail string) {
	wasm0, err := safe(func() ([]byte, error) { return watutil.Wat2Wasm(name, src) })
	if err != nil {
		return "", "not-a-case: " + err.Error()
	}
	printOnce := func(in []byte) ([]byte, error) {
		return safe(func() ([]byte, error) {
			m, err := parser.ParseModule(name, in)
			if err != nil {
				return nil, err
			}
			var buf strings.Builder
			if err := printer.Fprint(&buf, m); err != nil {
				return nil, err
			}
			return []byte(buf.String()), nil
		})
	}
	p1, err := printOnce(src)
	if err != nil {
		return "printer-fails", err.Error()
	}
	wasm1, err := safe(func() ([]byte, error) { return watutil.Wat2Wasm(name, p1) })
	if err != nil {
		return "printed-text-does-not-assemble", err.Error()
	}
	if string(wasm0) != string(wasm1) {
		return "binary-differs", fmt.Sprintf("%d bytes before, %d after; first difference at byte %d", len(wasm0), len(wasm1), firstDiff(wasm0, wasm1))
	}
	p2, err := printOnce(p1)
	if err != nil {
		return "printer-fails-on-own-output", err.Error()
	}
	if string(p1) != string(p2) {
		return "not-idempotent", ""
	}
	return "", ""
}

func firstDiff(a, b []byte) int {
	for i := 0; i < len(a) && i < len(b); i++ {
		if a[i] != b[i] {
			return i
		}
	}
	if len(a) < len(b) {
		return len(a)
	}
	return len(b)
}

func roundtripMain(casesPath string, extra []string) {
	out := bufio.NewWriter(os.Stdout)
	defer out.Flush()
	enc := json.NewEncoder(out)
	n, bad, notcase := 0, 0, 0
	report := func(origin string, feat interface{}, src []byte, fail, detail string) {
		if strings.HasPrefix(detail, "not-a-case") {
			notcase++
			if notcase <= 5 {
				enc.Encode(map[string]interface{}{"notcase": detail, "origin": origin, "features": feat})
			}
			return
		}
		n++
		if fail != "" {
			bad++
			if bad <= 60 {
				rec := map[string]interface{}{"fail": fail, "detail": detail, "origin": origin, "features": feat}
				if len(src) < 3000 {
					rec["wat"] = string(src)
				}
				enc.Encode(rec)
			}
		}
	}
	if casesPath != "-" {
		f, err := os.Open(casesPath)
		if err != nil {
			fmt.Fprintln(os.Stderr, err)
			os.Exit(2)
		}
		sc := bufio.NewScanner(f)
		sc.Buffer(make([]byte, 1<<20), 1<<24)
		for sc.Scan() {
			js, ok := unescape(sc.Text())
			if !ok {
				continue
			}
			var g GenMod
			if err := json.Unmarshal([]byte(js), &g); err != nil {
				fmt.Fprintln(os.Stderr, err)
				os.Exit(2)
			}
			src := []byte(renderGen(&g))
			fail, detail := roundTrip("gen.wat", src)
			report("WatGen", g, src, fail, detail)
		}
	}
	for _, path := range extra {
		src, err := os.ReadFile(path)
		if err != nil {
			continue
		}
		fail, detail := roundTrip(path, src)
		report(path, nil, src, fail, detail)
	}
	enc.Encode(map[string]interface{}{"done": true, "n": n, "bad": bad, "notcase": notcase})
}

func main() {
	if len(os.Args) < 3 {
		os.Exit(2)
	}
	switch os.Args[1] {
	case "strip":
		every := 4
		if len(os.Args) > 3 {
			fmt.Sscan(os.Args[3], &every)
		}
		stripMain(os.Args[2], every)
	case "roundtrip":
		roundtripMain(os.Args[2], os.Args[3:])
	case "stripfile":
		data, _ := os.ReadFile(os.Args[2])
		out, err := watstrip.WatStrip(os.Args[2], data)
		fmt.Println(err)
		fmt.Print(string(out))
	case "fmt":
		data, _ := os.ReadFile(os.Args[2])
		m, err := parser.ParseModule(os.Args[2], data)
		if err != nil {
			fmt.Println("parse error:", err)
			os.Exit(1)
		}
		fmt.Printf("elems=%d start=%q exports=%d\n", len(m.Elem), m.Start, len(m.Exports))
		var buf strings.Builder
		printer.Fprint(&buf, m)
		fmt.Print(buf.String())
	case "render":
		var c StripCase
		data, _ := os.ReadFile(os.Args[2])
		json.Unmarshal(data, &c)
		fmt.Print(render(&c))
	default:
		os.Exit(2)
	}
}
