"""C12 -- discarded acyclic data is reclaimed: loops run in bounded heap: see rcprog.py."""
import common
import rcprog

LEVEL = "model_checking"


def run(chk):
    chk.assume("each iteration runs in a callee and reports a checkpoint after it returns (no temporaries alive); bounded = no more live blocks or bytes at checkpoints 3..6 than at checkpoint 2; "
               "6 iterations; bodies of WaRCGen.tla (acyclic by construction)")
    rcprog.explore(chk, chk.tier == "thorough", "c12")
    chk.cov["exhaustive"] = chk.tier == "thorough"
    chk.cov["explanation"] = "TLC tracks the live set from the logged allocator/RC events and compares the live block count and bytes at every checkpoint with those at checkpoint 2"


def replay(chk, path):
    run(chk)
