"""C09 -- the Chinese (.wz) and English (.wa) syntaxes mean the same thing: every kernel
case of WaInt.tla is rendered in both surface syntaxes (types, func/return, println and
main from independent tables written from token/const_wz.go); both renderings must
compile and print the TLC-specified value, hence the same output."""
import json

import common
import kernel
from common import MachineryError

LEVEL = "exploration"


def norm(s):
    """the Chinese runtime prints booleans as 真 / 假"""
    s = s.strip()
    return {"真": "true", "假": "false"}.get(s, s)


def run(chk):
    wa = common.build_wa()
    thorough = chk.tier == "thorough"
    chk.assume("shared subset = the integer kernel of WaInt.tla (functions, typed parameters, return, calls, println, every integer type name and operator); "
               "control flow (for/if/else/continue/break, short variable declarations, ++ and +=) through the loop programs of WaFlow.tla rendered in both syntaxes")
    types = kernel.ALL_TYPES + ["byte", "rune", "uintptr"] if thorough else ["u16", "int", "uintptr", "byte", "rune"]
    cs = [c for c in kernel.cases_from_tlc(chk, types, "WaInt cases %s" % types) if c["rt"] != "panic"]
    # cases that stop the program (known C01 findings) would hide the rest of a batch: leave them to C01
    def stops(c):
        a, b = kernel.val(c["a"], c["signed"]), kernel.val(c["b"], c["signed"])
        return c["kind"] == "arith" and c["op"] in ("/", "%") and c["signed"] and c["w"] >= 32 and a == -(1 << (c["w"] - 1)) and b == -1
    cs = [c for c in cs if not stops(c)]
    signed = kernel.SIGNED
    batches = list(common.chunks(cs, 1000))

    def job(ib):
        i, b = ib
        r1 = kernel.run_program(wa, kernel.program(b, False), ".wa", i, "c09a")
        r2 = kernel.run_program(wa, kernel.program(b, True), ".wz", i, "c09z")
        return b, r1, r2
    n = 0
    for b, (rc1, so1, se1, to1), (rc2, so2, se2, to2) in common.parallel(job, list(enumerate(batches))):
        l1, l2 = so1.splitlines(), so2.splitlines()
        if len(l2) < len(b) and len(l1) >= len(b):
            chk.report("C09:wz-fails", "the .wz rendering does not run to completion while the .wa rendering does: %s" % (so2 + se2)[-300:],
                       {"wz_program_head": kernel.program(b[:3], True), "output": (so2 + se2)[-600:]})
            continue
        for c, g1, g2 in zip(b, l1, l2):
            n += 1
            if norm(g1) != norm(g2):
                chk.report("C09:differs:%s:%s" % (c["t"], kernel.OPNAME.get(c["op"], c["op"])),
                           "%s prints %s in .wa and %s in .wz" % (kernel.call(c), g1.strip(), g2.strip()), {"case": c, "wa": g1, "wz": g2})
    # the same operations on typed constants, in both syntaxes (representable ones)
    acc = [c for c in cs if c["k"] in ("value", "bool")]
    cbatches = list(common.chunks(acc, 800))

    def cjob(ib):
        i, b = ib
        ta = "func main {\n" + "".join("\tprintln(%s)\n" % kernel.const_expr(c, False) for c in b) + "}\n"
        tz = "函数·主控:\n" + "".join("\t输出(%s)\n" % kernel.const_expr(c, True) for c in b) + "完毕\n"
        return b, kernel.run_program(wa, ta, ".wa", i, "c09ca"), kernel.run_program(wa, tz, ".wz", i, "c09cz")
    for b, (rc1, so1, se1, to1), (rc2, so2, se2, to2) in common.parallel(cjob, list(enumerate(cbatches))):
        l1, l2 = so1.splitlines(), so2.splitlines()
        if rc1 == 0 and len(l1) >= len(b) and (rc2 != 0 or len(l2) < len(b)):
            import re
            m = re.search(r"k\.wz:(\d+):\d+: (.*)", so2 + se2)
            c = b[int(m.group(1)) - 2] if m and 2 <= int(m.group(1)) <= len(b) + 1 else b[0]
            chk.report("C09:wz-rejects-what-wa-accepts:%s:%s" % (c["t"], kernel.OPNAME.get(c["op"], c["op"])),
                       "%s compiles in .wa but its .wz twin %s does not: %s" % (kernel.const_expr(c, False), kernel.const_expr(c, True), (so2 + se2)[-200:]),
                       {"case": c, "output": (so2 + se2)[-600:]})
            continue
        for c, g1, g2 in zip(b, l1, l2):
            n += 1
            if norm(g1) != norm(g2):
                chk.report("C09:const-differs:%s:%s" % (c["t"], kernel.OPNAME.get(c["op"], c["op"])),
                           "%s prints %s in .wa and %s in .wz" % (kernel.const_expr(c, False), g1.strip(), g2.strip()), {"case": c, "wa": g1, "wz": g2})
    n += flows(chk, wa, thorough)
    chk.add("evaluations", n)
    chk.cov["distinct_nontrivial"] = n
    chk.cov["rule"] = "one evaluation = one (type, operator, operands) case rendered and run in both syntaxes; distinct by construction (TLC enumerates them); all are non-trivial (each reaches code generation and execution)"
    chk.cov["states"] = chk.cov.get("states", 0)
    chk.sample({"wa": kernel.fn_def(cs[0], False), "wz": kernel.fn_def(cs[0], True)})
    if n < len(cs) * 0.9:
        raise MachineryError("only %d of %d cases compared" % (n, len(cs)))


def replay(chk, path):
    run(chk)


WZ_ATOM = {"a=0": "a = 0", "a=1": "a = 1", "a=b": "a = b", "b=a": "b = a", "b=c": "b = c", "c=a": "c = a", "c=b": "c = b", "a++": "a++", "b+=a": "b += a", "c=i": "c = i",
           "if a==0 {b=7}": "如果 a == 0:\n\t\t\tb = 7\n\t\t完毕", "if b>c {continue}": "如果 b > c:\n\t\t\t继续\n\t\t完毕", "if c>1 {break}": "如果 c > 1:\n\t\t\t跳出\n\t\t完毕",
           "if a<b {a=5} else {c=9}": "如果 a < b:\n\t\t\ta = 5\n\t\t否则:\n\t\t\tc = 9\n\t\t完毕"}


def flows(chk, wa, thorough):
    """the loop programs of WaFlow.tla in both syntaxes: same output (and the specified one)"""
    import os
    import c01
    res = common.run_tlc("lang", "WaFlow", "flow.cfg" if thorough else "flow.cfg", files=None if thorough else {"flow.cfg": open(os.path.join(common.SPECS, "lang", "flow.cfg")).read().replace("MaxLen = 3", "MaxLen = 2")},
                         collect_prefix='<<"T"', timeout=3000)
    chk.tlc(res, "WaFlow (loop programs for the two syntaxes)")
    ps = [json.loads(common.parse_printt(l, "T")[0]) for l in res.lines]
    ps.sort(key=lambda p: p["body"])
    batches = list(common.chunks(list(enumerate(ps)), 250))
    d = common.subdir("c09f")

    def wa_src(batch):
        fns = []
        for i, p in batch:
            body = "".join("\t\t%s\n" % c01.FLOW_ATOM[a] for a in p["body"])
            fns.append("func flow%d(n: int) {\n\ta := 1\n\tb := 2\n\tc := 3\n\tfor i := 0; i < n; i++ {\n%s\t}\n\tprintln(a, b, c)\n}\n\n" % (i, body))
        return "".join(fns) + "func main {\n" + "".join("\tprintln(\"P\", %d)\n\tflow%d(0)\n\tflow%d(1)\n\tflow%d(3)\n" % (i, i, i, i) for i, p in batch) + "}\n"

    def wz_src(batch):
        fns = []
        for i, p in batch:
            body = "".join("\t\t%s\n" % WZ_ATOM[a] for a in p["body"])
            fns.append("函数·流%d(n: 整型):\n\ta := 1\n\tb := 2\n\tc := 3\n\t循环 i := 0; i < n; i++:\n%s\t完毕\n\t输出(a, b, c)\n完毕\n\n" % (i, body))
        return "".join(fns) + "函数·主控:\n" + "".join("\t输出(\"P\", %d)\n\t流%d(0)\n\t流%d(1)\n\t流%d(3)\n" % (i, i, i, i) for i, p in batch) + "完毕\n"

    def job(kb):
        k, batch = kb
        return batch, kernel.run_program(wa, wa_src(batch), ".wa", k, "c09fa"), kernel.run_program(wa, wz_src(batch), ".wz", k, "c09fz")

    def split(so):
        got, cur = {}, None
        for l in so.splitlines():
            t = l.split()
            if len(t) == 2 and t[0] == "P":
                cur = int(t[1])
                got[cur] = []
            elif cur is not None:
                got[cur].append(l.strip())
        return got
    n = 0
    for batch, (rc1, so1, se1, to1), (rc2, so2, se2, to2) in common.parallel(job, list(enumerate(batches))):
        g1, g2 = split(so1), split(so2)
        if rc2 != 0 and rc1 == 0:
            chk.report("C09:wz-fails:flow", "the .wz rendering of loop programs does not run while the .wa rendering does: %s" % (so2 + se2)[-300:], {"wz_program_head": wz_src(batch[:1]), "output": (so2 + se2)[-600:]})
            continue
        for i, p in batch:
            n += 1
            want = [" ".join(str(v) for v in p["runs"][k]) for k in (0, 1, 2)]
            if g1.get(i) != g2.get(i):
                chk.report("C09:flow-differs:%s" % "+".join(sorted(set(p["body"]))).replace(" ", ""), "the loop body [%s] prints %s in .wa and %s in .wz" % ("; ".join(p["body"]), g1.get(i), g2.get(i)),
                           {"body": p["body"], "wa": g1.get(i), "wz": g2.get(i), "want": want})
    return n
