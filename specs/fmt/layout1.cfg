CONSTANTS
  Emit = TRUE
  MaxPerturbed = 1
  Constructs <- C
INIT Init
NEXT Next
INVARIANT ModelOK
