CONSTANTS
  Emit = TRUE
  MaxPerturbed = 2
  Constructs <- C
INIT Init
NEXT Next
INVARIANT ModelOK
