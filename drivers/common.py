"""Shared machinery for the wa-lang/wa model-based checks.

Everything a per-property driver needs: a scratch directory, a TLC runner that parses
TLC's own summary lines, an overlay build of Go harness commands *inside* the
wa-lang.org/wa module (so that internal/ packages are reachable without writing to
/repo), child-process execution with timeouts, the verdict protocol (exit 0 / 1 / 2),
known findings and the evidence file.
"""
import atexit
import hashlib
import json
import os
import re
import shutil
import subprocess
import sys
import tempfile
import time

VERIF = os.path.dirname(os.path.dirname(os.path.abspath(__file__)))
REPO = os.environ.get("VERIF_REPO", "/repo")
SPECS = os.path.join(VERIF, "specs")
HARNESS = os.path.join(VERIF, "harness")
NCPU = os.cpu_count() or 4

GOENV = dict(os.environ)
GOENV.update({
    "GOFLAGS": "-mod=mod", "GOPROXY": "off", "GOSUMDB": "off", "GOTOOLCHAIN": "local",
    "CGO_ENABLED": "0",
})


class MachineryError(Exception):
    """Anything that is the checker's fault (exit 2, never a violation)."""


_scratch = None


def scratch():
    """Per-run scratch directory outside /repo and /verif, removed at exit."""
    global _scratch
    if _scratch is None:
        base = os.environ.get("VERIF_TMP", tempfile.gettempdir())
        _scratch = tempfile.mkdtemp(prefix="waverif-", dir=base)
        if not os.environ.get("VERIF_KEEP"):
            atexit.register(lambda: shutil.rmtree(_scratch, ignore_errors=True))
    return _scratch


def subdir(name):
    d = os.path.join(scratch(), name)
    os.makedirs(d, exist_ok=True)
    return d


def seed():
    try:
        return int(os.environ.get("VERIF_SEED", "1"))
    except ValueError:
        return 1


def log(*a):
    print(*a, file=sys.stderr, flush=True)


# --------------------------------------------------------------------------- TLC

class TLCResult:
    def __init__(self):
        self.rc = None
        self.out = ""
        self.generated = 0
        self.distinct = 0
        self.depth = 0
        self.violated = None      # name of violated invariant/property, if any
        self.error = None
        self.lines = []           # PrintT payload lines (raw)
        self.wall = 0.0
        self.coverage = {}
        self.stuck = None         # trace validation: index of the first unconsumed event
        self.postcond_failed = False


_RE_STATES = re.compile(r"(\d+) states generated, (\d+) distinct states found")
_RE_DEPTH = re.compile(r"The depth of the complete state graph search is (\d+)")
_RE_INV = re.compile(r"Invariant (\S+) is violated")
_RE_PROP = re.compile(r"(Action property|Temporal properties?|Property) (\S+)? ?(is|were) violated")


def run_tlc(specdir, module, cfg, workers=None, timeout=600, extra=(), files=None,
            xss="512m", heap=None, simulate=None, depth=None, keep_out=False,
            deadlock=False, queue_dfs=False, collect_prefix=None, line_cb=None):
    """Run TLC on specs/<specdir>/<module>.tla with <cfg>, in a scratch copy.

    files: {relative name: text or bytes} written next to the spec (traces, generated
    modules).  collect_prefix: keep only stdout lines starting with this string in
    result.lines (PrintT output), to keep memory bounded.  line_cb(line): streaming
    consumer.  Returns TLCResult; raises MachineryError on timeout / TLC internal error.
    """
    src = os.path.join(SPECS, specdir)
    work = tempfile.mkdtemp(prefix="tlc-", dir=scratch())
    for root in (os.path.join(SPECS, "lib"), src):
        if os.path.isdir(root):
            for f in os.listdir(root):
                p = os.path.join(root, f)
                if os.path.isfile(p):
                    shutil.copy(p, work)
    for name, data in (files or {}).items():
        mode = "wb" if isinstance(data, bytes) else "w"
        with open(os.path.join(work, name), mode) as fh:
            fh.write(data)
    meta = os.path.join(work, "meta")
    cmd = ["java", "-XX:+UseParallelGC", "-Xss" + xss]
    if workers == 1:
        # trace validation / small runs: many of these run side by side
        cmd += ["-XX:ParallelGCThreads=2", "-XX:TieredStopAtLevel=1" if False else "-XX:+TieredCompilation"]
        heap = heap or "3g"
    if heap:
        cmd.append("-Xmx" + heap)
    if queue_dfs:
        cmd.append("-Dtlc2.tool.queue.IStateQueue=StateDeque")
    cmd += ["-cp", "/opt/veriftools/tla/tla2tools.jar:/opt/veriftools/tla/CommunityModules-deps.jar",
            "tlc2.TLC", "-metadir", meta, "-config", cfg,
            "-workers", str(workers or NCPU), "-noGenerateSpecTE"]
    if not deadlock:
        cmd.append("-deadlock")
    if simulate:
        cmd += ["-simulate", simulate]
    if depth:
        cmd += ["-depth", str(depth)]
    cmd += list(extra) + [module]
    res = TLCResult()
    t0 = time.time()
    env = dict(os.environ)
    env.pop("JAVA_TOOL_OPTIONS", None)
    proc = subprocess.Popen(cmd, cwd=work, stdout=subprocess.PIPE, stderr=subprocess.STDOUT,
                            text=True, env=env, errors="replace")
    keep = []
    deadline = t0 + timeout
    timed_out = False
    try:
        import threading

        def killer():
            nonlocal timed_out
            while proc.poll() is None:
                if time.time() > deadline:
                    timed_out = True
                    proc.kill()
                    return
                time.sleep(0.5)
        th = threading.Thread(target=killer, daemon=True)
        th.start()
        for line in proc.stdout:
            line = line.rstrip("\n")
            if collect_prefix is not None and line.startswith(collect_prefix):
                if line_cb:
                    line_cb(line)
                else:
                    res.lines.append(line)
                continue
            keep.append(line)
            if len(keep) > 20000:
                del keep[:10000]
        proc.wait()
    finally:
        if proc.poll() is None:
            proc.kill()
    res.wall = time.time() - t0
    res.rc = proc.returncode
    res.out = "\n".join(keep)
    for m in _RE_STATES.finditer(res.out):
        res.generated, res.distinct = int(m.group(1)), int(m.group(2))
    m = _RE_DEPTH.search(res.out)
    if m:
        res.depth = int(m.group(1))
    m = _RE_INV.search(res.out)
    if m:
        res.violated = m.group(1)
    elif "is violated" in res.out or "was violated" in res.out or "were violated" in res.out:
        m2 = re.search(r"(?:Action property|Property|Temporal properties?) ?(\S*) (?:is|was|were) violated", res.out)
        res.violated = (m2.group(1) if m2 and m2.group(1) else "property")
    m = re.search(r'<<"STUCK", (\d+)>>', res.out)
    if m:
        res.stuck = int(m.group(1))
    if "Postcondition" in res.out and "is false" in res.out:
        res.postcond_failed = True
    if "Deadlock reached" in res.out:
        res.violated = res.violated or "Deadlock"
    if not keep_out:
        shutil.rmtree(work, ignore_errors=True)
    else:
        res.work = work
    if timed_out:
        raise MachineryError("TLC timeout after %ds on %s/%s %s" % (timeout, specdir, module, cfg))
    fatal = None
    for pat in ("java.lang.OutOfMemoryError", "StackOverflowError", "Parsing or semantic analysis failed",
                "TLC threw an unexpected exception", "Error: TLC", "evaluating the nested",
                "was not a legal", "Unknown operator", "Could not find", "could not be found",
                "attempted to", "Attempted to", "The exception was a"):
        if pat in res.out and res.violated is None:
            fatal = pat
            break
    if fatal is not None or (res.rc not in (0, 12, 13, 10, 11) and res.violated is None):
        raise MachineryError("TLC failed (%s, rc=%s) on %s/%s %s:\n%s" % (
            fatal, res.rc, specdir, module, cfg, "\n".join(keep[-40:])))
    return res


def tlc_counterexample(res):
    """Extract the state sequence of a TLC counterexample as a list of text blocks."""
    blocks, cur = [], None
    for ln in res.out.split("\n"):
        if re.match(r"^State \d+:", ln):
            if cur is not None:
                blocks.append("\n".join(cur))
            cur = [ln]
        elif cur is not None:
            if ln.strip() == "" or re.match(r"^\d+ states generated", ln) or ln.startswith("Finished"):
                blocks.append("\n".join(cur))
                cur = None
            else:
                cur.append(ln)
    if cur:
        blocks.append("\n".join(cur))
    return blocks


def parse_printt(line, prefix):
    """PrintT(<<"T", json, ...>>) prints  <<"T", "{...}", ...>>  -- return the tuple fields.

    TLC renders strings with backslash escapes; the JSON payload is the 2nd field.
    """
    # line looks like: <<"T", "[...]", 0>>
    m = re.match(r'^<<"%s", "(.*)"(?:, (.*))?>>$' % re.escape(prefix), line)
    if not m:
        return None
    payload = m.group(1).replace('\\"', '"').replace("\\\\", "\\")
    return payload, m.group(2)


# --------------------------------------------------------------------------- Go builds

_built = {}


def go_build(cmd, tags="verif", inpkg=None, race=False):
    """Build harness/<cmd>/*.go as package wa-lang.org/wa/internal/zz_verif/<cmd>.

    inpkg: {repo-relative path: file under /verif/harness} extra overlay files placed
    *inside* existing packages (read-only accessors of unexported state).
    The build reads /repo's current working tree; nothing under /repo is written.
    """
    key = (cmd, tags, race)
    if key in _built:
        return _built[key]
    srcdir = os.path.join(HARNESS, cmd)
    if not os.path.isdir(srcdir):
        raise MachineryError("no harness " + cmd)
    replace = {}
    for f in sorted(os.listdir(srcdir)):
        if f.endswith(".go"):
            replace[os.path.join(REPO, "internal", "zz_verif", cmd, f)] = os.path.join(srcdir, f)
    inpkg = dict(inpkg or {})
    # convention: harness/<cmd>/inpkg/<path with __ for />  -> /repo/<path>
    ip = os.path.join(srcdir, "inpkg")
    if os.path.isdir(ip):
        for f in sorted(os.listdir(ip)):
            inpkg[f.replace("__", "/")] = os.path.join(ip, f)
    for rel, src in inpkg.items():
        replace[os.path.join(REPO, rel)] = src
    bdir = subdir("gobuild")
    ov = os.path.join(bdir, cmd + ".overlay.json")
    with open(ov, "w") as fh:
        json.dump({"Replace": replace}, fh)
    out = os.path.join(bdir, cmd + (".race" if race else ""))
    args = ["go", "build", "-overlay", ov, "-o", out]
    if tags:
        args += ["-tags", tags]
    env = dict(GOENV)
    if race:
        args.append("-race")
        env["CGO_ENABLED"] = "1"
    args.append("./internal/zz_verif/" + cmd)
    t0 = time.time()
    p = subprocess.run(args, cwd=REPO, env=env, capture_output=True, text=True, timeout=900)
    if p.returncode != 0:
        raise MachineryError("harness %s does not build against %s:\n%s" % (cmd, REPO, p.stderr[-4000:]))
    log("[build] %s in %.1fs" % (cmd, time.time() - t0))
    _built[key] = out
    return out


def build_wa():
    """Build the wa command from /repo's working tree."""
    key = ("wa",)
    if key in _built:
        return _built[key]
    out = os.path.join(subdir("gobuild"), "wa")
    t0 = time.time()
    p = subprocess.run(["go", "build", "-o", out, "."], cwd=REPO, env=GOENV, capture_output=True,
                       text=True, timeout=900)
    if p.returncode != 0:
        raise MachineryError("wa does not build:\n" + p.stderr[-4000:])
    log("[build] wa in %.1fs" % (time.time() - t0))
    _built[key] = out
    return out


CHILD_TIMEOUT_SCALE = int(os.environ.get("VERIF_TIMEOUT_SCALE", "3"))


def run_child(args, timeout=60, input=None, cwd=None, env=None, binary=False):
    """Run a child; returns (rc, stdout, stderr, timed_out). rc None on timeout.

    The limits given by the callers are sized for an idle machine; they are tripled so that a loaded
    machine does not turn a slow child into a reported non-termination (a real hang only costs more time)."""
    timeout = timeout * CHILD_TIMEOUT_SCALE
    try:
        p = subprocess.run(args, input=input, capture_output=True, timeout=timeout, cwd=cwd,
                           env=env, text=not binary)
        return p.returncode, p.stdout, p.stderr, False
    except subprocess.TimeoutExpired as e:
        return None, e.stdout or ("" if not binary else b""), e.stderr or ("" if not binary else b""), True


# --------------------------------------------------------------------------- verdicts

class Check:
    """One run of one property's check: collects coverage, findings, violations."""

    def __init__(self, pid, tier, level, replay=None):
        self.pid = pid
        self.tier = tier
        self.level = level
        self.t0 = time.time()
        self.cov = {"samples": []}
        self.assumptions = []
        self.violations = []
        self.known_hits = {}
        self.notes = []
        self.kf = load_known(pid)
        self.replay = replay
        import threading
        self.lock = threading.RLock()

    # coverage helpers
    def add(self, key, n=1):
        with self.lock:
            self.cov[key] = self.cov.get(key, 0) + n

    def sample(self, s, cap=6):
        if len(self.cov["samples"]) < cap:
            self.cov["samples"].append(s)

    def tlc(self, res, label=None):
        self.add("states", res.distinct)
        self.add("transitions", res.generated)
        runs = self.cov.setdefault("tlc_runs", [])
        runs.append({"run": label, "generated": res.generated, "distinct": res.distinct,
                     "depth": res.depth, "wall_s": round(res.wall, 1)})

    def assume(self, text):
        if text not in self.assumptions:
            self.assumptions.append(text)

    # verdict helpers
    def report(self, key, what, record):
        """A contradiction between the real code and the contract.

        key: structural signature. If it matches an open known finding it is reported as
        KNOWN-FINDING (once), otherwise it is a violation with a replay file.
        """
        with self.lock:
            return self._report(key, what, record)

    def _report(self, key, what, record):
        for ent in self.kf:
            if ent.get("status") == "open" and re.fullmatch(ent["key"], key):
                if ent["key"] not in self.known_hits:
                    self.known_hits[ent["key"]] = ent
                    print("KNOWN-FINDING: property=%s %s" % (self.pid, ent["what"]), flush=True)
                ent.setdefault("_n", 0)
                ent["_n"] += 1
                return False
        if any(v["key"] == key for v in self.violations) and len(self.violations) > 50:
            return True
        outd = os.path.join(VERIF, "out", self.pid)
        os.makedirs(outd, exist_ok=True)
        n = len(self.violations) + 1
        path = os.path.join(outd, "%s-%d-%d.json" % (self.tier, seed(), n))
        rec = {"property": self.pid, "key": key, "what": what, "record": record}
        if n <= 20:
            with open(path, "w") as fh:
                json.dump(rec, fh, indent=1, default=str)
            print("VIOLATION property=%s replay=%s" % (self.pid, path), flush=True)
            log("  key=%s %s" % (key, what))
        elif os.environ.get("VERIF_ALLKEYS"):
            # debugging aid: list (and keep) every violation, not only the first twenty
            log("  key=%s %s" % (key, what[:300]))
            with open(path, "w") as fh:
                json.dump(rec, fh, indent=1, default=str)
        self.violations.append({"key": key, "what": what, "path": path})
        return True

    def finish(self):
        wall = time.time() - self.t0
        cov = self.cov
        if self.known_hits:
            cov["known_findings_hit"] = [{"key": e["key"], "what": e["what"], "cases": e.get("_n", 0)}
                                         for e in self.known_hits.values()]
        if self.notes:
            cov["notes"] = self.notes
        ev = {"property_id": self.pid, "tier": self.tier, "seed": seed(), "level": self.level,
              "coverage": cov, "assumptions": self.assumptions, "wall_s": round(wall, 2),
              "violations": len(self.violations)}
        # a run against a copy of the repository (seed testing: VERIF_REPO) is not evidence about /repo
        if not self.replay and REPO == "/repo":
            os.makedirs(os.path.join(VERIF, "evidence"), exist_ok=True)
            tmp = os.path.join(VERIF, "evidence", self.pid + ".json.tmp")
            with open(tmp, "w") as fh:
                json.dump(ev, fh, indent=1, default=str)
            os.replace(tmp, os.path.join(VERIF, "evidence", self.pid + ".json"))
        log("[%s %s] %.1fs violations=%d known=%d" % (self.pid, self.tier, wall, len(self.violations),
                                                   len(self.known_hits)))
        return 1 if self.violations else 0


def load_known(pid):
    p = os.path.join(VERIF, "known_findings.json")
    if not os.path.exists(p):
        return []
    with open(p) as fh:
        data = json.load(fh)
    return [dict(e) for e in data.get("findings", []) if e.get("property") == pid]


def sha(b):
    if isinstance(b, str):
        b = b.encode()
    return hashlib.sha256(b).hexdigest()[:16]


def parallel(fn, items, workers=None):
    """Run fn over items in threads (the work is in child processes); re-raises errors."""
    from concurrent.futures import ThreadPoolExecutor
    with ThreadPoolExecutor(max_workers=workers or NCPU) as ex:
        return list(ex.map(fn, items))


def chunks(lst, n):
    for i in range(0, len(lst), n):
        yield lst[i:i + n]
