CONSTANTS
  MaxDoc = 3
  MaxIns = 2
  MaxOps = 1
  CP = {"a", "e", "z", "g", "r", "n"}
  Emit = TRUE
  Two = TRUE
INIT Init
NEXT Next
VIEW View
INVARIANTS InSync ErrorsExact
