----------------------------- MODULE Determinism -----------------------------
(* C27: a determinism monitor.  Compile(prog) is an action whose result must  *)
(* equal memo[prog] once defined.  The trace is every build observed in every *)
(* process; TLC memoises the first observation per program.                   *)
EXTENDS Integers, Sequences, FiniteSets, TLC, Json
Log == ndJsonDeserialize("trace.ndjson")
N == Len(Log)
VARIABLES l, memo
Init == l = 1 /\ memo = << >>
Next == /\ l <= N
        /\ LET e == Log[l] IN
           IF e.prog \in DOMAIN memo
           THEN /\ (memo[e.prog] # e.result => PrintT(<<"V", l, e.prog>>))
                /\ memo' = memo
           ELSE memo' = (e.prog :> e.result) @@ memo
        /\ l' = l + 1
HighWater == TLCSet(1, IF l > TLCGet(1) THEN l ELSE TLCGet(1))
Accepted == IF TLCGet(1) = N + 1 THEN TRUE ELSE PrintT(<<"STUCK", TLCGet(1)>>) /\ FALSE
ASSUME TLCSet(1, 0)
=============================================================================
