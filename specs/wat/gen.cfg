CONSTANTS
  Emit = TRUE
INIT Init
NEXT Next
