"""C05 -- WAT printer round trip: for every module of the TLC-enumerated module space
(WatGen.tla), the hub's modules, the compiler's output for the API harness programs and
the repository's own .wat files: Wat2Wasm(print(parse(src))) must be byte-identical to
Wat2Wasm(src) and printing must be idempotent."""
import glob
import json
import os

import common
import hub
from common import MachineryError

LEVEL = "exploration"


def run(chk):
    b = common.go_build("wat")
    thorough = chk.tier == "thorough"
    chk.assume("'accepted by the reference assembler with the same meaning' is not decidable here (WABT absent); the identity is on Wa's own assembler output, name section included")
    d = common.subdir("c05")
    path = os.path.join(d, "gen.txt")
    with open(path, "w") as fh:
        res = common.run_tlc("wat", "WatGen", "gen.cfg", collect_prefix='<<"T"', timeout=1200, line_cb=lambda l: fh.write(l + "\n"))
    chk.cov["states"] = res.distinct
    chk.cov["transitions"] = res.generated
    extra = []
    # hub modules (numeric/memory/const functions; index-space modules)
    class _C:
        cov = {}
        tier = chk.tier
        def tlc(self, *a):
            pass
    try:
        hb, hout, hcases, _ = hub.prepare(_C(), False)
        extra += sorted(glob.glob(os.path.join(hout, "*.wat")))
    except MachineryError as e:
        chk.notes.append("hub modules not available: %s" % e)
    # compiler output
    ab = common.go_build("api")
    wd = os.path.join(d, "compiled")
    os.makedirs(wd, exist_ok=True)
    rc, so, se, to = common.run_child([ab, "watdump", wd], timeout=600)
    extra += sorted(glob.glob(os.path.join(wd, "*.wat")))
    # the repository's own .wat files (those its assembler accepts)
    repo_wats = sorted(glob.glob(os.path.join(common.REPO, "internal", "**", "*.wat"), recursive=True))
    extra += [p for p in repo_wats if "/malloc/" not in p][:400]
    rc, so, se, to = common.run_child([b, "roundtrip", path] + extra, timeout=3000)
    if rc != 0:
        raise MachineryError("wat harness failed: " + se[-1500:])
    lines = [json.loads(l) for l in so.splitlines() if l.strip()]
    done = [l for l in lines if l.get("done")][0]
    if done["n"] < 1000:
        raise MachineryError("too few modules round-tripped: %s" % done)
    chk.add("evaluations", done["n"])
    chk.cov["distinct_nontrivial"] = done["n"]
    chk.cov["rule"] = ("one evaluation = one module: parse, print, assemble both, compare bytes, print again; modules are distinct by construction (TLC enumerates the "
                       "feature product; files are distinct paths); a module Wa's assembler rejects is not counted (%d such)" % done["notcase"])
    chk.cov["sources"] = {"WatGen": res.distinct // 2, "files": len(extra)}
    chk.sample(json.loads(common.parse_printt(open(path).readline().rstrip("\n"), "T")[0]))
    for l in lines:
        if "fail" in l:
            feat = l.get("features")
            if feat:
                cls = "imports=%s,exports=%s" % (feat["imports"], feat["exports"])
            else:
                cls = os.path.relpath(l["origin"], common.REPO) if l["origin"].startswith(common.REPO) else os.path.basename(l["origin"])
            chk.report("C05:%s:%s" % (l["fail"], cls), "%s (%s): %s" % (l["fail"], l["origin"], l["detail"]), l)


def replay(chk, path):
    run(chk)
