------------------------------ MODULE ApiConc ------------------------------
(* C28: concurrent use of the build/run API.  The WAT backend keeps the       *)
(* module being compiled in a process global (wir.currentModule).  Each call  *)
(* is a process: Load (private), SetCurrent, a number of Uses of the global   *)
(* (OnFree functions, string constants, closure calls: each appends to the    *)
(* module the global points at), Finish.  Locked = TRUE models the code with  *)
(* the compile mutex around SetCurrent..Finish; Locked = FALSE is the code    *)
(* without it and is kept to generate the interleavings that must NOT be      *)
(* feasible on the real code.                                                  *)
EXTENDS Integers, Sequences, FiniteSets, TLC, Json
CONSTANTS Calls, Uses, Locked, Emit, MaxSched

VARIABLES pc, cur, module, out, lock, hist
vars == <<pc, cur, module, out, lock, hist>>
NoCall == 0

Init == /\ pc = [c \in Calls |-> <<"load", 0>>] /\ cur = NoCall
        /\ module = [c \in Calls |-> << >>] /\ out = [c \in Calls |-> << >>] /\ lock = NoCall
        /\ hist = << >>

Step(c) == /\ hist' = IF Emit /\ Len(hist) < MaxSched THEN Append(hist, c) ELSE hist
           /\ (Emit /\ Len(hist) < MaxSched => PrintT(<<"T", ToJson([schedule |-> hist', n |-> Cardinality(Calls)])>>))

Load(c) == /\ pc[c] = <<"load", 0>>
           /\ IF Locked THEN lock = NoCall /\ lock' = c ELSE UNCHANGED lock
           /\ pc' = [pc EXCEPT ![c] = <<"set", 0>>] /\ UNCHANGED <<cur, module, out, hist>>
SetCurrent(c) == /\ pc[c] = <<"set", 0>> /\ cur' = c
                 /\ pc' = [pc EXCEPT ![c] = <<"use", 1>>] /\ UNCHANGED <<module, out, lock>>
                 /\ Step(c)
Use(c) == /\ pc[c] \in { <<"use", k>> : k \in 1..Uses }
          /\ LET k == pc[c][2] IN
             /\ module' = [module EXCEPT ![cur] = Append(@, <<c, k>>)]     \* appended to *currentModule*
             /\ pc' = [pc EXCEPT ![c] = IF k = Uses THEN <<"finish", 0>> ELSE <<"use", k + 1>>]
          /\ UNCHANGED <<cur, out, lock>>
          /\ Step(c)
Finish(c) == /\ pc[c] = <<"finish", 0>> /\ out' = [out EXCEPT ![c] = module[c]]
             /\ IF Locked THEN lock' = NoCall ELSE UNCHANGED lock
             /\ pc' = [pc EXCEPT ![c] = <<"done", 0>>] /\ UNCHANGED <<cur, module>>
             /\ Step(c)
Terminated == (\A c \in Calls : pc[c] = <<"done", 0>>) /\ UNCHANGED vars
Next == (\E c \in Calls : Load(c) \/ SetCurrent(c) \/ Use(c) \/ Finish(c)) \/ Terminated
Spec == Init /\ [][Next]_vars /\ WF_vars(Next)

SeqOut(c) == [k \in 1..Uses |-> <<c, k>>]
\* each call returns what it returns when run alone
SameAsSequential == \A c \in Calls : pc[c] = <<"done", 0>> => out[c] = SeqOut(c)
\* no call ever touches another call's module
NoForeignUse == \A c \in Calls : \A i \in 1..Len(module[c]) : module[c][i][1] = c
AllFinish == <>(\A c \in Calls : pc[c] = <<"done", 0>>)
View == <<pc, cur, module, out, lock>>
=============================================================================
