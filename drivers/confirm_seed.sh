#!/bin/sh
# confirm_seed.sh <worktree>: re-verify a sub-agent's seeded change independently
WT=$1
export GOFLAGS=-mod=mod GOPROXY=off GOSUMDB=off GOTOOLCHAIN=local
cd $WT || exit 2
git diff --quiet && { echo "NO CHANGE APPLIED"; exit 2; }
go build ./... || { echo "BUILD FAILS"; exit 1; }
if go test -vet=off -count=1 ./... 2>&1 | grep -E "^(FAIL|---FAIL|panic)" ; then echo "SUITE FAILS"; exit 1; fi
timeout 900 bash _seed/run.sh >/tmp/$(basename $WT).with.out 2>&1; A=$?
# (git stash is shared between worktrees of one repository: never use it here)
git diff > /tmp/$(basename $WT).change.diff
git checkout -- .
timeout 900 bash _seed/run.sh >/tmp/$(basename $WT).without.out 2>&1; B=$?
git apply /tmp/$(basename $WT).change.diff
echo "$(basename $WT): demo with change rc=$A, without rc=$B"
[ $A -ne 0 ] && [ $B -eq 0 ] && echo CONFIRMED
