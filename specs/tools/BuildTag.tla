------------------------------ MODULE BuildTag ------------------------------
(* C24: build-constraint expressions (internal/loader/buildtag).              *)
(* Reference semantics: the documented grammar as a recursive-descent         *)
(* recogniser (no double negation), Boolean evaluation under a tag            *)
(* assignment, and printing with the minimal-parenthesis rule.  TLC           *)
(* enumerates every token string up to MaxLen; for each it emits whether the  *)
(* string is a well-formed constraint and, if so, its truth table.  TLC also  *)
(* checks on the reference itself that print/parse is closed (Closed).        *)
EXTENDS Integers, Sequences, FiniteSets, TLC, Json
CONSTANTS MaxLen, Emit,
          NotParen     \* TRUE: Print parenthesises a negated negation: !(!a)  (the repaired String)

Tags == {"a", "b", "c"}
Tokens == Tags \cup {"!", "&&", "||", "(", ")"}
Fail == [ok |-> FALSE]

RECURSIVE POr(_), PAnd(_), PNot(_), PAtom(_), POrRest(_, _), PAndRest(_, _)
PAtom(ts) ==
  IF ts = << >> THEN Fail
  ELSE IF Head(ts) \in Tags THEN [ok |-> TRUE, ast |-> [t |-> "tag", v |-> Head(ts)], rest |-> Tail(ts)]
  ELSE IF Head(ts) = "("
       THEN LET r == POr(Tail(ts)) IN
            IF r.ok /\ r.rest # << >> /\ Head(r.rest) = ")"
            THEN [ok |-> TRUE, ast |-> r.ast, rest |-> Tail(r.rest)] ELSE Fail
  ELSE Fail
PNot(ts) ==
  IF ts # << >> /\ Head(ts) = "!"
  THEN IF Len(ts) >= 2 /\ ts[2] = "!" THEN Fail          \* double negation not allowed
       ELSE LET r == PAtom(Tail(ts)) IN
            IF r.ok THEN [ok |-> TRUE, ast |-> [t |-> "not", x |-> r.ast], rest |-> r.rest] ELSE Fail
  ELSE PAtom(ts)
PAndRest(left, ts) ==
  IF ts # << >> /\ Head(ts) = "&&"
  THEN LET r == PNot(Tail(ts)) IN
       IF r.ok THEN PAndRest([t |-> "and", x |-> left, y |-> r.ast], r.rest) ELSE Fail
  ELSE [ok |-> TRUE, ast |-> left, rest |-> ts]
PAnd(ts) == LET r == PNot(ts) IN IF r.ok THEN PAndRest(r.ast, r.rest) ELSE Fail
POrRest(left, ts) ==
  IF ts # << >> /\ Head(ts) = "||"
  THEN LET r == PAnd(Tail(ts)) IN
       IF r.ok THEN POrRest([t |-> "or", x |-> left, y |-> r.ast], r.rest) ELSE Fail
  ELSE [ok |-> TRUE, ast |-> left, rest |-> ts]
POr(ts) == LET r == PAnd(ts) IN IF r.ok THEN POrRest(r.ast, r.rest) ELSE Fail

Parse(ts) == LET r == POr(ts) IN IF r.ok /\ r.rest = << >> THEN r ELSE Fail

RECURSIVE Eval(_, _)
Eval(e, on) ==                      \* on = the set of tags that are set
  CASE e.t = "tag" -> e.v \in on
    [] e.t = "not" -> ~Eval(e.x, on)
    [] e.t = "and" -> Eval(e.x, on) /\ Eval(e.y, on)
    [] e.t = "or"  -> Eval(e.x, on) \/ Eval(e.y, on)

Assignments == <<{}, {"a"}, {"b"}, {"a", "b"}, {"c"}, {"a", "c"}, {"b", "c"}, {"a", "b", "c"}>>
TruthTable(e) == [i \in 1..8 |-> IF Eval(e, Assignments[i]) THEN 1 ELSE 0]

\* printing with minimal parentheses, as a token string
RECURSIVE Show(_)
Paren(ts) == <<"(">> \o ts \o <<")">>
Show(e) ==
  CASE e.t = "tag" -> <<e.v>>
    [] e.t = "not" -> <<"!">> \o (IF e.x.t \in {"and", "or"} \/ (NotParen /\ e.x.t = "not") THEN Paren(Show(e.x)) ELSE Show(e.x))
    [] e.t = "and" -> (IF e.x.t = "or" THEN Paren(Show(e.x)) ELSE Show(e.x)) \o <<"&&">> \o
                      (IF e.y.t = "or" THEN Paren(Show(e.y)) ELSE Show(e.y))
    [] e.t = "or"  -> (IF e.x.t = "and" THEN Paren(Show(e.x)) ELSE Show(e.x)) \o <<"||">> \o
                      (IF e.y.t = "and" THEN Paren(Show(e.y)) ELSE Show(e.y))

VARIABLES toks, res, done
vars == <<toks, res, done>>
Strings == UNION { [1..k -> Tokens] : k \in 0..MaxLen }
\* the strings are enumerated as first token + rest: a single set of all strings of length 7 exceeds TLC's set-size limit
Init == /\ \/ toks = << >>
           \/ \E t \in Tokens : \E r \in UNION { [1..k -> Tokens] : k \in 0..(MaxLen - 1) } : toks = <<t>> \o r
        /\ res = Fail /\ done = FALSE
Step == /\ ~done
        /\ res' = Parse(toks)
        /\ (Emit => PrintT(<<"T", ToJson([toks |-> toks, ok |-> res'.ok,
                                          tt |-> IF res'.ok THEN TruthTable(res'.ast) ELSE << >>,
                                          printed |-> IF res'.ok THEN Show(res'.ast) ELSE << >>])>>))
        /\ done' = TRUE /\ UNCHANGED toks
Next == Step

\* the reference is closed under print/parse and printing preserves meaning
Closed == (done /\ res.ok) =>
            LET p == Parse(Show(res.ast)) IN p.ok /\ TruthTable(p.ast) = TruthTable(res.ast)
=============================================================================
