CONSTANTS
  Emit = TRUE
  Families = {"strings", "strconv", "utf8", "codec", "bits", "sort", "hash"}
  MaxStr = 3
INIT Init
NEXT Next
INVARIANT Known
