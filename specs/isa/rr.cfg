CONSTANTS
  Emit = TRUE
  Group = "rr"
INIT Init
NEXT Next
