"""C19 -- LEB128: Leb128.tla (bit-level reference encoder/decoder with the WebAssembly
limits) evaluated by TLC on boundary values and byte-sequence spaces; every case executed
on the real Encode*/Decode*/Load* functions."""
import json
import os

import common
from common import MachineryError

LEVEL = "model_checking"


def cfg(mode, w, signed, declen, emit=True):
    return """CONSTANTS
  Mode = "%s"
  W = %d
  Signed = %s
  DecMaxLen = %d
  Emit = %s
INIT Init
NEXT Next
INVARIANTS RoundTrip Minimal
""" % (mode, w, "TRUE" if signed else "FALSE", declen, "TRUE" if emit else "FALSE")


def key_of(l):
    c = l["case"]
    last = c["bytes"][-1] if c["bytes"] else -1
    lastcls = "none" if last < 0 else ("bit6" if last & 0x40 and not last & 0x80 else "other")
    return "C19:%s:%s%d:len%d:%s" % (l["fail"], "s" if c["signed"] else "u", c["w"], len(c["bytes"]), lastcls)


def run(chk):
    b = common.go_build("tools")
    thorough = chk.tier == "thorough"
    chk.assume("values cross the TLC/Go boundary as 8 little-endian bytes of the 64-bit sign/zero extension")
    chk.assume("decode inputs: all sequences of length <= 4 over 10 byte classes plus every 5-byte sequence with a 0x80/0x81/0xFF prefix and 22 last-byte classes; 64-bit: structured 8-12 byte sequences")
    runs = [("enc", 32, False, 5), ("enc", 32, True, 5), ("enc", 33, True, 5), ("enc", 64, False, 5), ("enc", 64, True, 5),
            ("dec", 32, False, 5), ("dec", 32, True, 5), ("dec", 33, True, 5), ("dec64", 64, True, 5)]
    d = common.subdir("c19")

    def one(r):
        mode, w, signed, dl = r
        path = os.path.join(d, "%s_%d_%d.txt" % (mode, w, signed))
        with open(path, "w") as fh:
            res = common.run_tlc("tools", "Leb128", "l.cfg", files={"l.cfg": cfg(mode, w, signed, dl)}, collect_prefix='<<"T"',
                                 timeout=1800, line_cb=lambda l: fh.write(l + "\n"), workers=4)
        if res.violated:
            raise MachineryError("Leb128.tla violates its own law %s (%s w=%d signed=%s)" % (res.violated, mode, w, signed))
        rc, so, se, to = common.run_child([b, "leb", path], timeout=900)
        first = open(path).readline().rstrip("\n")
        os.unlink(path)
        if rc != 0:
            raise MachineryError("tools harness failed: " + se[-1500:])
        return r, res, [json.loads(l) for l in so.splitlines() if l.strip()], first
    for r, res, lines, first in common.parallel(one, runs, workers=4):
        chk.tlc(res, "%s w=%d signed=%s" % r[:3])
        done = [l for l in lines if l.get("done")][0]
        if done["n"] == 0:
            raise MachineryError("no cases for %s" % (r,))
        chk.add("traces_validated_against_impl", done["n"])
        chk.add("function_executions", done["execs"])
        p = common.parse_printt(first, "T")
        if p:
            chk.sample(json.loads(p[0]), cap=9)
        for l in lines:
            if "fail" in l:
                c = l["case"]
                chk.report(key_of(l), "%s: %s on bytes %s (w=%d signed=%s): %s; specified: %s" % (
                    l["fail"], l["fn"], " ".join("%02x" % x for x in c["bytes"]), c["w"], c["signed"], l["detail"],
                    json.dumps(c.get("res") if c["mode"] == "dec" else c.get("v"))), l)
    chk.cov["exhaustive"] = True
    chk.cov["explanation"] = ("TLC evaluated the reference encoder on ~7(W+1) boundary bit patterns per width/signedness (checking round trip and minimality of the "
                              "reference) and the reference decoder on the listed byte-sequence spaces; every case was executed on every matching real function "
                              "(io.ByteReader and slice front ends) and value, byte count and accept/reject compared")


def replay(chk, path):
    rec = json.load(open(path))["record"]
    b = common.go_build("tools")
    d = common.subdir("c19")
    p = os.path.join(d, "r.txt")
    js = json.dumps(rec["case"]).replace("\\", "\\\\").replace('"', '\\"')
    open(p, "w").write('<<"T", "%s">>\n' % js)
    rc, so, se, to = common.run_child([b, "leb", p], timeout=60)
    for l in so.splitlines():
        l = json.loads(l)
        if "fail" in l:
            chk.report(key_of(l), l["fail"], l)
