"""C10 -- heap allocator: WaHeap (implementation spec) + WaHeapContract, bound to both
copies of the real allocator by transition replay (R) and trace validation (V)."""
import json
import random
import subprocess

import common
from common import MachineryError, log

LEVEL = "model_checking"

INVS = ("Terminates InHeap Aligned LargeEnough NoOverlap Tiling DisjointStatus FixedListsOk "
        "RingOk WritesOutsideLive FailOnlyWhenExhausted")

# The code as it is on this tree: both repairs are in (see known_findings.json, "fixed").
FIXZERO = "TRUE"
FIXGROW = "TRUE"

# name, HeapBase, InitPages, MaxPages, Cap, Sizes, MaxLive, MaxOps
QUICK = [
    ("cap1", 65000, 1, 2, 1, "{1, 24, 80, 128, 200}", 3, 6),
    ("cap0", 65000, 1, 2, 0, "{0, 8, 136, 65000}", 3, 6),
    ("cap2", 65200, 1, 3, 2, "{25, 81, 136, 65480, 70000}", 3, 6),
    ("fit", 65280, 1, 2, 1, "{24, 128, 192, 65528, 66000}", 3, 5),
]
THOROUGH_EMIT = [
    ("cap1", 65000, 1, 2, 1, "{0, 1, 24, 25, 80, 81, 128, 200}", 3, 7),
    ("cap0", 65000, 1, 2, 0, "{0, 1, 8, 136, 200, 65000}", 3, 7),
    ("cap2", 65200, 1, 3, 2, "{25, 48, 81, 136, 300, 65480, 70000}", 4, 7),
    ("fit", 65280, 1, 2, 1, "{24, 128, 184, 192, 200, 65528, 66000}", 3, 7),
    ("cap3", 1000, 1, 1, 3, "{1, 32, 48, 129, 1000, 30000}", 4, 7),
]
# exhaustive model checking only (no emission): deeper
THOROUGH_MC = [
    ("mc-cap2", 65000, 1, 2, 2, "{1, 25, 80, 81, 136, 200, 65000}", 4, 9),
    ("mc-cap0", 65000, 1, 3, 0, "{0, 8, 24, 136, 200, 65000, 66000}", 4, 8),
    ("mc-cap1", 65200, 1, 2, 1, "{0, 24, 32, 128, 184, 65528}", 4, 9),
]


def cfg_text(c, emit):
    name, base, ip, mp, cap, sizes, maxlive, maxops = c
    return """CONSTANTS
  HeapBase = %d
  InitPages = %d
  MaxPages = %d
  Cap = %d
  Sizes = %s
  MaxLive = %d
  MaxOps = %d
  Emit = %s
  FixZero = %s
  FixGrow = %s
INIT Init
NEXT Next
VIEW View
INVARIANTS %s
""" % (base, ip, mp, cap, sizes, maxlive, maxops, "TRUE" if emit else "FALSE", FIXZERO, FIXGROW, INVS)


def tmpl(name, c):
    s = open(common.SPECS + "/heap/" + name).read()
    _, base, ip, mp, cap = c[:5]
    for k, v in (("BASE", base), ("INIT", ip), ("MAX", mp), ("CAP", cap), ("FIXZERO", FIXZERO), ("FIXGROW", FIXGROW)):
        s = s.replace("@%s@" % k, str(v))
    return s


def harness_args(c, impl):
    _, base, ip, mp, cap = c[:5]
    return ["-impl", impl, "-base", str(base), "-init", str(ip), "-max", str(mp), "-cap", str(cap),
            "-repo", common.REPO]


def key_of(inv, ev, c):
    cap = c[4]
    if ev is None:
        return "C10:%s:cap=%d" % (inv, cap)
    op = ev.get("op")
    n = ev.get("n")
    cls = "n=0" if n == 0 else ("n<=80" if n <= 80 else ("n<=128" if n <= 128 else ("n<page" if n < 65000 else "n>=page")))
    if op != "m":
        cls = "free"
    return "C10:%s:%s:%s:cap%s0" % (inv, op, cls, "=" if cap == 0 else ">")


def judge_observed(chk, c, events, origin, impl):
    """Validate observed events (with reset markers) against the contract in TLC.

    Returns (accepted, detail). A contract rejection of a real execution is reported."""
    rounds = 0
    evs = list(events)
    any_bad = False
    while rounds < 4:
        rounds += 1
        text = "\n".join(json.dumps(e) for e in evs) + "\n"
        res = common.run_tlc("heap", "WaHeapObs", "obs.cfg", workers=1, timeout=900,
                             files={"trace.ndjson": text, "obs.cfg": tmpl("obs.cfg.in", c)})
        chk.add("observed_events_judged_by_contract", max(res.generated - 1, 0))
        if res.violated is None and not res.postcond_failed:
            return not any_bad
        any_bad = True
        # locate the offending event: TLC explored up to index stuck-1 (1-based events)
        at = (res.stuck or (res.generated + 1)) - 1
        at = max(1, min(at, len(evs)))
        inv = res.violated or "TraceRejected"
        # a rejection without invariant = next event could not be consumed
        ev = evs[at - 1] if res.violated else (evs[at] if at < len(evs) else evs[-1])
        # history from the last reset
        start = max([i for i in range(at) if evs[i].get("op") == "reset"] + [-1]) + 1
        hist = [[e["op"], e["n"], e.get("r")] for e in evs[start:at + (0 if res.violated else 1)] if e.get("op") != "reset"]
        chk.report(key_of(inv, ev, c), "%s violated by the real allocator (%s, config %s) after %s" % (inv, impl, c[0], hist[-6:]),
                   {"config": c, "impl": impl, "origin": origin, "invariant": inv, "history": hist, "event": ev})
        # drop the offending history and judge the rest
        end = at
        while end < len(evs) and evs[end].get("op") != "reset":
            end += 1
        evs = evs[:start] + evs[end:]
        while evs and evs[0].get("op") == "reset":
            evs = evs[1:]
        if not [e for e in evs if e.get("op") != "reset"]:
            break
    return False


def run_harness(b, mode, c, impl, stdin_text, extra=()):
    """Run the heap harness; restart after a hang (exit 3). Returns list of JSON lines."""
    out = []
    skip = 0
    for _ in range(50):
        args = [b, mode] + harness_args(c, impl) + list(extra) + (["-skip", str(skip)] if mode == "replay" else [])
        rc, so, se, to = common.run_child(args, timeout=1200, input=stdin_text)
        if to:
            raise MachineryError("heap harness timeout")
        lines = [json.loads(l) for l in so.splitlines() if l.strip()]
        out += lines
        if rc == 0:
            return out
        if rc == 3 and mode == "replay" and lines and "resume" in lines[-1]:
            skip = lines[-1]["resume"]
            continue
        if rc == 3:
            return out
        raise MachineryError("heap harness failed rc=%s: %s" % (rc, se[-2000:]))
    raise MachineryError("heap harness: too many hangs")


def parse_hist_from_cex(res):
    blocks = common.tlc_counterexample(res)
    if not blocks:
        return None
    last = blocks[-1]
    i = last.find("/\\ hist = ")
    if i < 0:
        return None
    t = last[i + len("/\\ hist = "):]
    j = t.find("\n/\\ ")
    if j >= 0:
        t = t[:j]
    t = t.replace("<<", "[").replace(">>", "]").replace("\n", " ")
    try:
        return json.loads(t)
    except ValueError:
        return None


def replay_config(chk, b, c, res):
    paths = []
    for l in res.lines:
        p = common.parse_printt(l, "T")
        if p:
            paths.append(p[0])
    if not paths:
        raise MachineryError("TLC emitted no transitions for %s" % c[0])
    text = "\n".join(paths) + "\n"
    chk.sample({"config": c[0], "history": json.loads(paths[len(paths) // 2])})
    for impl in ("pkg", "runtime"):
        out = run_harness(b, "replay", c, impl, text)
        done = [o for o in out if o.get("done") or "resume" in o]
        npaths = sum(o["paths"] for o in done)
        ncalls = sum(o["calls"] for o in done)
        chk.add("traces_validated_against_impl", npaths)
        chk.add("calls_replayed", ncalls)
        bad = [o for o in out if "kind" in o]
        if not bad:
            continue
        log("[C10] %s/%s: %d of %d paths deviate from the implementation spec" % (c[0], impl, len(bad), npaths))
        # hangs are observations of non-termination: contract violation by themselves
        for o in [o for o in bad if o["kind"] in ("hang", "trap")][:5]:
            ops = o["ops"][:o["step"] + 1]
            ev = {"op": ops[-1][0], "n": ops[-1][1]}
            chk.report(key_of("Terminates" if o["kind"] == "hang" else "Trap", ev, c),
                       "allocator %s on %s after %s (%s, config %s)" % (
                           "does not return" if o["kind"] == "hang" else "traps: " + str(o.get("got")), ops[-1], ops[:-1][-5:], impl, c[0]),
                       {"config": c, "impl": impl, "ops": ops, "kind": o["kind"]})
        obs = []
        for o in [o for o in bad if o["kind"] not in ("hang", "trap")][:300]:
            obs.append({"op": "reset"})
            obs += o["obs"]
        if obs:
            ok = judge_observed(chk, c, obs[1:], "replay of TLC transitions", impl)
            if ok:
                chk.add("model_drift_paths", len(bad))
                chk.notes.append("model drift: %d paths of %s/%s deviate from WaHeap but satisfy the contract (first: %s)" % (
                    len(bad), c[0], impl, json.dumps(bad[0])[:300]))


def model_violation(chk, b, c, res):
    """TLC found the implementation spec violating the contract: reproduce on the code."""
    hist = parse_hist_from_cex(res)
    if hist is None:
        raise MachineryError("cannot parse TLC counterexample for %s: %s" % (c[0], res.out[-1500:]))
    ops = [[h[0], h[1]] for h in hist]
    reproduced = False
    for impl in ("pkg", "runtime"):
        out = run_harness(b, "observe", c, impl, json.dumps(ops) + "\n")
        evs = [e for e in out if e.get("op") != "reset"]
        if evs and evs[-1].get("hang"):
            chk.report(key_of("Terminates", evs[-1], c), "allocator does not return on %s after %s (%s)" % (ops[-1], ops[:-1], impl),
                       {"config": c, "impl": impl, "ops": ops, "kind": "hang"})
            reproduced = True
            continue
        ok = judge_observed(chk, c, evs, "TLC counterexample of WaHeap (%s)" % res.violated, impl)
        if not ok:
            reproduced = True
    if not reproduced:
        raise MachineryError("WaHeap violates %s on %s but the real allocator does not: the spec misdescribes the code (%s)" % (
            res.violated, ops, c[0]))


def run(chk):
    b = common.go_build("heap")
    thorough = chk.tier == "thorough"
    rng = random.Random(common.seed())
    chk.assume("request sizes and configurations are those of the listed TLC configs and the random drivers' profiles")
    chk.assume("frees are of live blocks only (the property's domain)")
    chk.assume("content preservation is observed through canaries over the requested bytes of every live block")
    cov = chk.cov
    cov["configs"] = []
    # ---- R: every transition of the bounded model, replayed on both allocator copies
    for c in (THOROUGH_EMIT if thorough else QUICK):
        res = common.run_tlc("heap", "WaHeap", "e.cfg", files={"e.cfg": cfg_text(c, True)},
                             collect_prefix='<<"T"', timeout=1500)
        chk.tlc(res, "emit-" + c[0])
        cov["configs"].append({"name": c[0], "HeapBase": c[1], "InitPages": c[2], "MaxPages": c[3], "Cap": c[4],
                               "Sizes": c[5], "MaxLive": c[6], "MaxOps": c[7], "transitions_emitted": len(res.lines)})
        if res.violated:
            log("[C10] WaHeap violates %s in config %s" % (res.violated, c[0]))
            model_violation(chk, b, c, res)
        log("[C10] %s: TLC %.1fs, %d transitions" % (c[0], res.wall, len(res.lines)))
        import time as _t
        t1 = _t.time()
        replay_config(chk, b, c, res)
        log("[C10] %s: replay %.1fs" % (c[0], _t.time() - t1))
    # ---- exhaustive refinement check at deeper bounds (model only)
    if thorough:
        for c in THOROUGH_MC:
            res = common.run_tlc("heap", "WaHeap", "m.cfg", files={"m.cfg": cfg_text(c, False)}, timeout=2400, heap="24g")
            chk.tlc(res, c[0])
            if res.violated:
                model_violation(chk, b, c, res)
    # ---- V: recorded executions of the real allocator, judged by TLC
    n = 20000 if thorough else 1200
    ml = 40 if thorough else 16
    vconfs = [
        ("v-default", 65000, 1, 3, 2, None, 0, 0, "mixed", ml),
        ("v-class", 4096, 1, 2, 4, None, 0, 0, "class", ml),
        ("v-page", 65000, 1, 4, 1, None, 0, 0, "page", 6),
        ("v-nofixed", 65000, 1, 3, 0, None, 0, 0, "class", ml),
    ]
    jobs = [(vc, impl, rng.randrange(1 << 30)) for vc in vconfs for impl in ("pkg", "runtime")]

    def vjob(job):
        vc, impl, sd = job
        out = run_harness(b, "record", vc, impl, None,
                          extra=["-seed", str(sd), "-n", str(n), "-profile", vc[8], "-maxlive", str(vc[9])])
        if not out:
            raise MachineryError("recorder produced no events")
        if out[-1].get("hang") or out[-1].get("err"):
            ev = out[-1]
            chk.report(key_of("Terminates" if ev.get("hang") else "Trap", ev, vc),
                       "allocator %s on %s (%s, recorded trace seed %d)" % ("hangs" if ev.get("hang") else "traps", [ev["op"], ev["n"]], impl, sd),
                       {"config": vc[:5], "impl": impl, "seed": sd, "history": [[e["op"], e["n"]] for e in out]})
            out = out[:-1]
            if not out:
                return
        chk.add("traces_validated_against_impl", 1)
        chk.add("recorded_events", len(out))
        if impl == "pkg":
            with chk.lock:
                chk.sample({"recorded": vc[0], "seed": sd, "first_events": [[e["op"], e["n"], e["r"]] for e in out[:8]]}, cap=12)
        ok = judge_observed(chk, vc, out, "recorded trace %s seed %d" % (vc[0], sd), impl)
        # conformance with the implementation spec (drift detection)
        text = "\n".join(json.dumps(e) for e in out) + "\n"
        tr = common.run_tlc("heap", "WaHeapTrace", "t.cfg", workers=1, timeout=1200,
                            files={"trace.ndjson": text, "t.cfg": tmpl("trace.cfg.in", vc)})
        if tr.postcond_failed or tr.violated:
            if ok:
                chk.add("model_drift_traces", 1)
                with chk.lock:
                    chk.notes.append("model drift: recorded trace %s/%s seed %d leaves WaHeap at event %s but satisfies the contract" % (
                        vc[0], impl, sd, tr.stuck))
        else:
            chk.add("recorded_events_conforming_to_impl_spec", len(out))

    common.parallel(vjob, jobs, workers=8)
    cov["exhaustive"] = False
    cov["explanation"] = ("states/transitions: TLC totals over the listed bounded configurations of WaHeap (contract "
                          "invariants checked in every state); every emitted transition was executed on both copies of "
                          "the real allocator and compared step by step; recorded random executions were judged by TLC "
                          "against the contract (WaHeapObs) and the implementation spec (WaHeapTrace)")


def replay(chk, path):
    rec = json.load(open(path))["record"]
    b = common.go_build("heap")
    c = tuple(rec["config"])
    ops = rec.get("ops") or [[h[0], h[1]] for h in rec["history"]]
    for impl in ([rec["impl"]] if rec.get("impl") else ["pkg", "runtime"]):
        out = run_harness(b, "observe", c, impl, json.dumps(ops) + "\n")
        evs = [e for e in out if e.get("op") != "reset"]
        if evs and evs[-1].get("hang"):
            chk.report(key_of("Terminates", evs[-1], c), "allocator does not return", {"config": c, "ops": ops})
            continue
        judge_observed(chk, c, evs, "replay", impl)
