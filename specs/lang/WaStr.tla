--------------------------------- MODULE WaStr ---------------------------------
(* C01: strings as byte sequences.  `for i, r := range s` decodes UTF-8 with     *)
(* the rules of unicode/utf8 (an invalid or short encoding yields U+FFFD and     *)
(* advances one byte); string(rune) encodes (surrogates and values beyond        *)
(* U+10FFFF become U+FFFD); []rune(s) / string([]rune) are the two maps;         *)
(* comparison is lexicographic on bytes; len, index, slice and + act on bytes.   *)
(* The decoding automaton is the one of StdLib.tla (C14).                        *)
EXTENDS StdLib
RECURSIVE RangePairs(_, _)
RangePairs(s, i) == IF s = <<>> THEN <<>> ELSE LET d == DecodeRune(s) IN <<<<i, d[1]>>>> \o RangePairs(SubSeq(s, d[2] + 1, Len(s)), i + d[2])
EncodeRune(r) ==
  IF r < 0 \/ r > 1114111 \/ (r >= 55296 /\ r <= 57343) THEN <<239, 191, 189>>
  ELSE IF r < 128 THEN <<r>>
  ELSE IF r < 2048 THEN <<192 + r \div 64, 128 + (r % 64)>>
  ELSE IF r < 65536 THEN <<224 + r \div 4096, 128 + ((r \div 64) % 64), 128 + (r % 64)>>
  ELSE <<240 + r \div 262144, 128 + ((r \div 4096) % 64), 128 + ((r \div 64) % 64), 128 + (r % 64)>>
RECURSIVE BytesLess(_, _)
BytesLess(a, b) == IF b = <<>> THEN FALSE ELSE IF a = <<>> THEN TRUE ELSE IF Head(a) # Head(b) THEN Head(a) < Head(b) ELSE BytesLess(Tail(a), Tail(b))
Runes == {0, 65, 127, 128, 2047, 2048, 55295, 55296, 57343, 57344, 65533, 65535, 65536, 1114111, 1114112, -1}
CmpStrs == Seqs({65, 66, 255}, 2)
StrCases ==
  {[fn |-> "range", a |-> <<VBytes(s)>>, want |-> [t |-> "pairs", v |-> RangePairs(s, 0)]] : s \in Utf8Strs}
  \cup {[fn |-> "runes", a |-> <<VBytes(s)>>, want |-> VList([k \in 1..Len(RangePairs(s, 0)) |-> RangePairs(s, 0)[k][2]])] : s \in Utf8Strs}
  \cup {[fn |-> "string(rune)", a |-> <<VInt(r)>>, want |-> VList(EncodeRune(r))] : r \in Runes}
  \cup {[fn |-> "less", a |-> <<VBytes(s), VBytes(u)>>, want |-> VBool(BytesLess(s, u))] : s \in CmpStrs, u \in CmpStrs}
  \cup {[fn |-> "equal", a |-> <<VBytes(s), VBytes(u)>>, want |-> VBool(s = u)] : s \in CmpStrs, u \in CmpStrs}
  \cup {[fn |-> "concat", a |-> <<VBytes(s), VBytes(u)>>, want |-> VList(s \o u)] : s \in CmpStrs, u \in CmpStrs}
  \cup {[fn |-> "slice", a |-> <<VBytes(s), VInt(i), VInt(j)>>, want |-> VList(IF i <= j /\ j <= Len(s) THEN SubSeq(s, i + 1, j) ELSE <<>>)] : s \in {<<65, 66, 255, 67>>, <<228, 184, 173>>}, i \in 0..3, j \in 0..4}
\* the state variables (fam, c, done) are those of StdLib
SInit == fam = "str" /\ c \in {k \in StrCases : k.fn # "slice" \/ (k.a[2].v <= k.a[3].v /\ k.a[3].v <= Len(k.a[1].v))} /\ done = FALSE
SNext == ~done /\ done' = TRUE /\ UNCHANGED <<fam, c>> /\ (Emit => PrintT(<<"T", ToJson(c)>>))
SKnown == /\ RangePairs(<<65, 228, 184, 173, 255>>, 0) = <<<<0, 65>>, <<1, 20013>>, <<4, 65533>>>>
          /\ EncodeRune(20013) = <<228, 184, 173>> /\ EncodeRune(55296) = <<239, 191, 189>> /\ EncodeRune(128512) = <<240, 159, 152, 128>>
=============================================================================
