------------------------------ MODULE TokenPos ------------------------------
(* C23: source positions (internal/token).  Two file sets; files are added    *)
(* with their content's line table, positions are looked up (which moves the  *)
(* set's last-file cache), and a set is serialized to JSON and read back into *)
(* a set - an empty one or one that already holds files and a warm cache.     *)
(* Contract: Position(base + off) of every file is (file, 1 + newlines before *)
(* off, bytes since the last newline + 1), before and after every operation.  *)
EXTENDS Integers, Sequences, FiniteSets, TLC, Json
CONSTANTS Contents, MaxFiles, MaxOps, Emit

Sets == {1, 2}
VARIABLES files,    \* files[s]: sequence of [id, base, content]
          last,     \* last[s]: index of the file the previous lookup hit (the code's cache), 0 = none
          nextId, nops, hist
vars == <<files, last, nextId, nops, hist>>

Size(f) == Len(f.content)
BaseOf(s) == IF files[s] = << >> THEN 1 ELSE LET f == files[s][Len(files[s])] IN f.base + Size(f) + 1

\* ---- the contract: counting newlines and bytes ----
NL == 10
RECURSIVE NLBefore(_, _)
NLBefore(c, off) == IF off = 0 THEN 0 ELSE NLBefore(c, off - 1) + (IF c[off] = NL THEN 1 ELSE 0)
RECURSIVE LastNL(_, _)
LastNL(c, off) == IF off = 0 THEN 0 ELSE IF c[off] = NL THEN off ELSE LastNL(c, off - 1)
PosOf(c, off) == [line |-> 1 + NLBefore(c, off), col |-> off - LastNL(c, off) + 1]
\* offsets the property speaks about: inside the content; the end offset too unless the
\* content ends with a newline (the line table has no entry for an empty last line)
Offsets(c) == { off \in 0..Len(c) : ~(off = Len(c) /\ Len(c) > 0 /\ c[Len(c)] = NL) }
Table(s) == [i \in 1..Len(files[s]) |->
               [id |-> files[s][i].id, base |-> files[s][i].base, size |-> Size(files[s][i]),
                content |-> files[s][i].content,
                pos |-> [k \in 1..(Size(files[s][i]) + 1) |->
                           IF (k - 1) \in Offsets(files[s][i].content)
                           THEN PosOf(files[s][i].content, k - 1) ELSE [line |-> 0, col |-> 0]]]]
Projection == <<Table(1), Table(2)>>

Init == /\ files = [s \in Sets |-> << >>] /\ last = [s \in Sets |-> 0]
        /\ nextId = 1 /\ nops = 0 /\ hist = << >>

Record(op) == /\ hist' = IF Emit THEN Append(hist, op) ELSE hist
              /\ (Emit => PrintT(<<"T", ToJson([ops |-> hist', want |-> Projection'])>>))
              /\ nops' = nops + 1

AddFile(s, c) ==
  /\ nops < MaxOps /\ Len(files[s]) < MaxFiles
  /\ files' = [files EXCEPT ![s] = Append(@, [id |-> nextId, base |-> BaseOf(s), content |-> c])]
  /\ nextId' = nextId + 1 /\ UNCHANGED last
  /\ Record([op |-> "add", s |-> s, id |-> nextId, content |-> c])
Query(s, i, off) ==
  /\ nops < MaxOps /\ i \in 1..Len(files[s]) /\ off \in Offsets(files[s][i].content)
  /\ last' = [last EXCEPT ![s] = i] /\ UNCHANGED <<files, nextId>>
  /\ Record([op |-> "query", s |-> s, p |-> files[s][i].base + off])
\* dst.FromJson(src.ToJson())
Load(dst, src) ==
  /\ nops < MaxOps /\ dst # src
  /\ files' = [files EXCEPT ![dst] = files[src]]
  /\ last' = [last EXCEPT ![dst] = 0] /\ UNCHANGED nextId
  /\ Record([op |-> "load", dst |-> dst, src |-> src])
Next == \/ \E s \in Sets, c \in Contents : AddFile(s, c)
        \/ \E s \in Sets : \E i \in 1..Len(files[s]) : \E off \in {0, Len(files[s][i].content)} : Query(s, i, off)
        \/ \E d \in Sets, s \in Sets : Load(d, s)

\* well-formedness the lookups rely on: bases strictly increase, ranges do not overlap
RangesOk == \A s \in Sets : \A i \in 1..(Len(files[s]) - 1) :
              files[s][i].base + Size(files[s][i]) < files[s][i + 1].base
View == <<files, last>>
=============================================================================
