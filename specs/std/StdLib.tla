-------------------------------- MODULE StdLib --------------------------------
(* C14: declarative definitions of standard-library functions that the Wa       *)
(* library ports from Go (strings/bytes, strconv integer formatting and         *)
(* parsing, unicode/utf8, encoding/hex, encoding/base64, math/bits, sort,       *)
(* hash/adler32, hash/crc32, hash/fnv).  A string is a sequence of one-character*)
(* strings, a byte string a sequence of 0..255.  Role F: TLC evaluates each     *)
(* function on a bounded argument space and emits (function, arguments, value); *)
(* a generated Wa program calls the real library with the same arguments.       *)
EXTENDS Integers, Sequences, FiniteSets, TLC, Json, BV
CONSTANTS Emit, Families, MaxStr

\* ------------------------------------------------------------------ sequences
\* TLC keeps [i \in S |-> e] unevaluated and re-evaluates it on every access: values that are fed back into a recursion are made concrete first
Mat(a) == a \o <<>>
Seqs(S, n) == UNION {[1..k -> S] : k \in 0..n}
RECURSIVE Flat(_)
Flat(ss) == IF ss = <<>> THEN <<>> ELSE Head(ss) \o Flat(Tail(ss))
At(s, i, n) == SubSeq(s, i + 1, i + n)                       \* the n elements from 0-based position i
Occurs(s, sep, i) == i + Len(sep) <= Len(s) /\ At(s, i, Len(sep)) = sep
Index(s, sep) == IF \E i \in 0..Len(s) : Occurs(s, sep, i) THEN CHOOSE i \in 0..Len(s) : Occurs(s, sep, i) /\ \A j \in 0..(i - 1) : ~Occurs(s, sep, j) ELSE -1
LastIndex(s, sep) == IF \E i \in 0..Len(s) : Occurs(s, sep, i) THEN CHOOSE i \in 0..Len(s) : Occurs(s, sep, i) /\ \A j \in (i + 1)..Len(s) : ~Occurs(s, sep, j) ELSE -1
HasPrefix(s, p) == Occurs(s, p, 0)
HasSuffix(s, p) == Len(p) <= Len(s) /\ Occurs(s, p, Len(s) - Len(p))
\* non-overlapping occurrences, scanning from the left
RECURSIVE Count(_, _)
Count(s, sep) == IF sep = <<>> THEN Len(s) + 1
                 ELSE LET i == Index(s, sep) IN IF i < 0 THEN 0 ELSE 1 + Count(SubSeq(s, i + Len(sep) + 1, Len(s)), sep)
RECURSIVE Repeat(_, _)
Repeat(s, n) == IF n <= 0 THEN <<>> ELSE s \o Repeat(s, n - 1)
\* Split: the pieces between the (non-overlapping) separators; an empty separator splits into characters
RECURSIVE Split(_, _)
Split(s, sep) == IF sep = <<>> THEN Mat([i \in 1..Len(s) |-> <<s[i]>>])
                 ELSE LET i == Index(s, sep) IN IF i < 0 THEN <<s>> ELSE <<SubSeq(s, 1, i)>> \o Split(SubSeq(s, i + Len(sep) + 1, Len(s)), sep)
RECURSIVE Join(_, _)
Join(ps, sep) == IF ps = <<>> THEN <<>> ELSE IF Len(ps) = 1 THEN ps[1] ELSE ps[1] \o sep \o Join(Tail(ps), sep)
\* Replace the first n occurrences (all when n < 0); an empty old matches before every character and at the end
RECURSIVE ReplaceNE(_, _, _, _)
ReplaceNE(s, old, new, n) == IF n = 0 THEN s
                             ELSE LET i == Index(s, old) IN IF i < 0 THEN s
                                  ELSE SubSeq(s, 1, i) \o new \o ReplaceNE(SubSeq(s, i + Len(old) + 1, Len(s)), old, new, n - 1)
ReplaceEmpty(s, new, n) == LET k == IF n < 0 \/ n > Len(s) + 1 THEN Len(s) + 1 ELSE n IN
                           Flat(Mat([i \in 1..(Len(s) + 1) |-> (IF i <= k THEN new ELSE <<>>) \o (IF i <= Len(s) THEN <<s[i]>> ELSE <<>>)]))
Replace(s, old, new, n) == IF old = <<>> THEN ReplaceEmpty(s, new, n) ELSE ReplaceNE(s, old, new, n)
RECURSIVE Compare(_, _)
Order == [a |-> 97, b |-> 98, A |-> 65, sp |-> 32]
Code(c) == CASE c = "a" -> 97 [] c = "b" -> 98 [] c = "A" -> 65 [] c = " " -> 32 [] OTHER -> 0
Compare(a, b) == IF a = <<>> /\ b = <<>> THEN 0 ELSE IF a = <<>> THEN -1 ELSE IF b = <<>> THEN 1
                 ELSE IF Code(Head(a)) < Code(Head(b)) THEN -1 ELSE IF Code(Head(a)) > Code(Head(b)) THEN 1 ELSE Compare(Tail(a), Tail(b))
RECURSIVE TrimLeftSet(_, _)
TrimLeftSet(s, cut) == IF s # <<>> /\ Head(s) \in cut THEN TrimLeftSet(Tail(s), cut) ELSE s
RECURSIVE TrimRightSet(_, _)
TrimRightSet(s, cut) == IF s # <<>> /\ s[Len(s)] \in cut THEN TrimRightSet(SubSeq(s, 1, Len(s) - 1), cut) ELSE s
TrimSet(s, cut) == TrimRightSet(TrimLeftSet(s, cut), cut)
TrimPrefix(s, p) == IF HasPrefix(s, p) THEN SubSeq(s, Len(p) + 1, Len(s)) ELSE s
TrimSuffix(s, p) == IF HasSuffix(s, p) THEN SubSeq(s, 1, Len(s) - Len(p)) ELSE s
Upper(c) == IF c = "a" THEN "A" ELSE IF c = "b" THEN "B" ELSE c
Lower(c) == IF c = "A" THEN "a" ELSE IF c = "B" THEN "b" ELSE c
ToUpper(s) == Mat([i \in 1..Len(s) |-> Upper(s[i])])
ToLower(s) == Mat([i \in 1..Len(s) |-> Lower(s[i])])
EqualFold(a, b) == ToLower(a) = ToLower(b)
\* Fields: the maximal runs of non-space characters
RECURSIVE Fields(_)
Fields(s) == LET t == TrimLeftSet(s, {" "}) IN
             IF t = <<>> THEN <<>>
             ELSE LET i == Index(t, <<" ">>) IN IF i < 0 THEN <<t>> ELSE <<SubSeq(t, 1, i)>> \o Fields(SubSeq(t, i + 1, Len(t)))

Chars == {"a", "b", " ", "A"}
Strs == Seqs({"a", "b", " "}, MaxStr) \cup {<<"A", "a">>, <<"a", "A", "b">>}
Seps == Seqs({"a", "b", " "}, 2)
News == {<<>>, <<"a">>, <<"b", "b">>, <<" ">>}
VStr(x) == [t |-> "s", v |-> x]          \* typed values for the renderer
VInt(x) == [t |-> "i", v |-> x]
VBool(x) == [t |-> "b", v |-> x]
VList(x) == [t |-> "l", v |-> x]
VBytes(x) == [t |-> "y", v |-> x]
StringCases ==
  {[fn |-> "Index", a |-> <<VStr(s), VStr(p)>>, want |-> VInt(Index(s, p))] : s \in Strs, p \in Seps}
  \cup {[fn |-> "LastIndex", a |-> <<VStr(s), VStr(p)>>, want |-> VInt(LastIndex(s, p))] : s \in Strs, p \in Seps}
  \cup {[fn |-> "Contains", a |-> <<VStr(s), VStr(p)>>, want |-> VBool(Index(s, p) >= 0)] : s \in Strs, p \in Seps}
  \cup {[fn |-> "Count", a |-> <<VStr(s), VStr(p)>>, want |-> VInt(Count(s, p))] : s \in Strs, p \in Seps}
  \cup {[fn |-> "HasPrefix", a |-> <<VStr(s), VStr(p)>>, want |-> VBool(HasPrefix(s, p))] : s \in Strs, p \in Seps}
  \cup {[fn |-> "HasSuffix", a |-> <<VStr(s), VStr(p)>>, want |-> VBool(HasSuffix(s, p))] : s \in Strs, p \in Seps}
  \cup {[fn |-> "Split", a |-> <<VStr(s), VStr(p)>>, want |-> VList(Split(s, p))] : s \in Strs, p \in Seps}
  \cup {[fn |-> "TrimPrefix", a |-> <<VStr(s), VStr(p)>>, want |-> VStr(TrimPrefix(s, p))] : s \in Strs, p \in Seps}
  \cup {[fn |-> "TrimSuffix", a |-> <<VStr(s), VStr(p)>>, want |-> VStr(TrimSuffix(s, p))] : s \in Strs, p \in Seps}
  \cup {[fn |-> "Trim", a |-> <<VStr(s), VStr(p)>>, want |-> VStr(TrimSet(s, {p[i] : i \in 1..Len(p)}))] : s \in Strs, p \in Seps}
  \cup {[fn |-> "TrimLeft", a |-> <<VStr(s), VStr(p)>>, want |-> VStr(TrimLeftSet(s, {p[i] : i \in 1..Len(p)}))] : s \in Strs, p \in Seps}
  \cup {[fn |-> "TrimRight", a |-> <<VStr(s), VStr(p)>>, want |-> VStr(TrimRightSet(s, {p[i] : i \in 1..Len(p)}))] : s \in Strs, p \in Seps}
  \cup {[fn |-> "Compare", a |-> <<VStr(s), VStr(p)>>, want |-> VInt(Compare(s, p))] : s \in Strs, p \in Strs}
  \cup {[fn |-> "EqualFold", a |-> <<VStr(s), VStr(p)>>, want |-> VBool(EqualFold(s, p))] : s \in Strs, p \in {<<"a">>, <<"A", "a">>, <<"a", "a">>, <<"A", "A", "B">>, <<"a", "a", "b">>}}
  \cup {[fn |-> "Replace", a |-> <<VStr(s), VStr(p), VStr(q), VInt(n)>>, want |-> VStr(Replace(s, p, q, n))] : s \in Strs, p \in Seps, q \in News, n \in {-1, 0, 1, 2}}
  \cup {[fn |-> "Repeat", a |-> <<VStr(s), VInt(n)>>, want |-> VStr(Repeat(s, n))] : s \in Strs, n \in 0..3}
  \cup {[fn |-> "ToUpper", a |-> <<VStr(s)>>, want |-> VStr(ToUpper(s))] : s \in Strs}
  \cup {[fn |-> "ToLower", a |-> <<VStr(s)>>, want |-> VStr(ToLower(s))] : s \in Strs}
  \cup {[fn |-> "TrimSpace", a |-> <<VStr(s)>>, want |-> VStr(TrimSet(s, {" "}))] : s \in Strs}
  \cup {[fn |-> "Fields", a |-> <<VStr(s)>>, want |-> VList(Fields(s))] : s \in Strs}
  \cup {[fn |-> "Join", a |-> <<VList(Split(s, p)), VStr(p)>>, want |-> VStr(Join(Split(s, p), p))] : s \in Strs, p \in {<<"a">>, <<" ">>, <<"a", "b">>}}

\* ------------------------------------------------------------------ strconv (integers)
DigitChar(d) == CASE d < 10 -> <<"0", "1", "2", "3", "4", "5", "6", "7", "8", "9">>[d + 1]
                  [] OTHER -> <<"a", "b", "c", "d", "e", "f", "g", "h", "i", "j", "k", "l", "m", "n", "o", "p", "q", "r", "s", "t", "u", "v", "w", "x", "y", "z">>[d - 9]
RECURSIVE DigitsOf(_, _)
DigitsOf(n, base) == IF n < base THEN <<DigitChar(n)>> ELSE DigitsOf(n \div base, base) \o <<DigitChar(n % base)>>
FormatInt(i, base) == IF i < 0 THEN <<"-">> \o DigitsOf(-i, base) ELSE DigitsOf(i, base)
DigitVal(c) == IF \E d \in 0..35 : DigitChar(d) = c THEN CHOOSE d \in 0..35 : DigitChar(d) = c
               ELSE IF c \in {"A", "Z"} THEN (IF c = "A" THEN 10 ELSE 35) ELSE 99
\* ParseUint scans from the left: the first character that is not a digit of the base is a syntax error, the first prefix whose
\* value exceeds the unsigned maximum of the bit size is a range error - whichever comes first
RECURSIVE Scan(_, _, _, _)
Scan(ds, base, acc, umax) == IF ds = <<>> THEN <<acc, "nil">>
                             ELSE LET d == DigitVal(Head(ds)) IN
                                  IF d >= base THEN <<0, "syntax">>
                                  ELSE IF acc * base + d > umax THEN <<umax, "range">>
                                  ELSE Scan(Tail(ds), base, acc * base + d, umax)
\* ParseInt for base in 2..36 (no prefixes, no underscores) and bitSize 8 / 16: <<value, error>>
ParseInt(s, base, bits) ==
  LET neg == s # <<>> /\ Head(s) = "-"
      ds == IF s # <<>> /\ Head(s) \in {"-", "+"} THEN Tail(s) ELSE s
      cutoff == IF bits = 64 THEN 2 ^ 30 ELSE 2 ^ (bits - 1) IN
  IF ds = <<>> THEN <<0, "syntax">>
  ELSE LET r == Scan(ds, base, 0, IF bits = 64 THEN 2 ^ 30 ELSE 2 ^ bits - 1) IN      \* the generated digit strings stay far below 2^30
       IF r[2] = "syntax" THEN <<0, "syntax">>
       ELSE IF ~neg /\ r[1] >= cutoff THEN <<cutoff - 1, "range">>
       ELSE IF neg /\ r[1] > cutoff THEN <<-cutoff, "range">>
       ELSE <<IF neg THEN -r[1] ELSE r[1], "nil">>
IntSet == {0, 1, -1, 7, 9, 10, 35, 36, 127, 128, -128, 255, 256, 1295, 1296, 32767, 32768, -32768, 65535, 65536, 1000000, -1000000, 2147483647, -2147483647, 1073741824}
NumStrs == Seqs({"0", "1", "9", "z", "-", "+", "A", "_"}, 3) \cup {<<"1", "2", "7">>, <<"1", "2", "8">>, <<"-", "1", "2", "8">>, <<"-", "1", "2", "9">>, <<"3", "2", "7", "6", "7">>,
             <<"3", "2", "7", "6", "8">>, <<"-", "3", "2", "7", "6", "8">>, <<"-", "3", "2", "7", "6", "9">>, <<"7", "f">>, <<"8", "0">>, <<"z", "z", "z">>, <<"1", "0", "0", "0", "0", "0", "0", "0">>}
StrconvCases ==
  {[fn |-> "FormatInt", a |-> <<VInt(i), VInt(b)>>, want |-> VStr(FormatInt(i, b))] : i \in IntSet, b \in {2, 8, 10, 16, 36, 3}}
  \cup {[fn |-> "Itoa", a |-> <<VInt(i)>>, want |-> VStr(FormatInt(i, 10))] : i \in IntSet}
  \cup {[fn |-> "ParseInt", a |-> <<VStr(s), VInt(b), VInt(w)>>, want |-> [t |-> "pe", v |-> ParseInt(s, b, w)]] : s \in NumStrs, b \in {2, 10, 16, 36}, w \in {8, 16}}
  \cup {[fn |-> "ParseInt", a |-> <<VStr(s), VInt(b), VInt(64)>>, want |-> [t |-> "pe", v |-> ParseInt(s, b, 64)]] : s \in {t \in NumStrs : Len(t) <= 5}, b \in {2, 10, 16, 36}}

\* ------------------------------------------------------------------ unicode/utf8
Cont(b) == b >= 128 /\ b <= 191
\* first rune of a byte string: <<rune, width>>; invalid or short encodings are <<65533, 1>>
DecodeRune(s) ==
  LET n == Len(s)  b0 == s[1] IN
  IF n = 0 THEN <<65533, 0>>
  ELSE IF b0 < 128 THEN <<b0, 1>>
  ELSE IF b0 >= 194 /\ b0 <= 223 THEN (IF n >= 2 /\ Cont(s[2]) THEN <<(b0 - 192) * 64 + (s[2] - 128), 2>> ELSE <<65533, 1>>)
  ELSE IF b0 >= 224 /\ b0 <= 239 THEN
       (IF n >= 3 /\ Cont(s[2]) /\ Cont(s[3]) /\ (b0 = 224 => s[2] >= 160) /\ (b0 = 237 => s[2] <= 159)
        THEN <<(b0 - 224) * 4096 + (s[2] - 128) * 64 + (s[3] - 128), 3>> ELSE <<65533, 1>>)
  ELSE IF b0 >= 240 /\ b0 <= 244 THEN
       (IF n >= 4 /\ Cont(s[2]) /\ Cont(s[3]) /\ Cont(s[4]) /\ (b0 = 240 => s[2] >= 144) /\ (b0 = 244 => s[2] <= 143)
        THEN <<(b0 - 240) * 262144 + (s[2] - 128) * 4096 + (s[3] - 128) * 64 + (s[4] - 128), 4>> ELSE <<65533, 1>>)
  ELSE <<65533, 1>>
RECURSIVE RuneCount(_)
RuneCount(s) == IF s = <<>> THEN 0 ELSE 1 + RuneCount(SubSeq(s, DecodeRune(s)[2] + 1, Len(s)))
RECURSIVE Valid(_)
Valid(s) == IF s = <<>> THEN TRUE ELSE LET d == DecodeRune(s) IN
            IF d[1] = 65533 /\ d[2] = 1 THEN FALSE ELSE Valid(SubSeq(s, d[2] + 1, Len(s)))
Utf8Bytes == {65, 128, 191, 194, 224, 160, 159, 237, 240, 144, 143, 244, 245, 255, 239}
Utf8Strs == Seqs(Utf8Bytes, 3) \cup {<<240, 144, 128, 128>>, <<244, 143, 191, 191>>, <<244, 144, 128, 128>>, <<240, 143, 191, 191>>, <<239, 191, 189>>, <<237, 159, 191>>, <<237, 160, 128>>,
                                      <<240, 159, 152, 128, 65>>}
Utf8Cases ==
  {[fn |-> "DecodeRuneInString", a |-> <<VBytes(s)>>, want |-> [t |-> "rw", v |-> DecodeRune(s)]] : s \in Utf8Strs}
  \cup {[fn |-> "RuneCountInString", a |-> <<VBytes(s)>>, want |-> VInt(RuneCount(s))] : s \in Utf8Strs}
  \cup {[fn |-> "ValidString", a |-> <<VBytes(s)>>, want |-> VBool(Valid(s))] : s \in Utf8Strs}

\* ------------------------------------------------------------------ encoding/hex, encoding/base64
HexDig(n) == DigitChar(n)
HexEncode(bs) == Flat(Mat([i \in 1..Len(bs) |-> <<HexDig(bs[i] \div 16), HexDig(bs[i] % 16)>>]))
HexVal(c) == IF c \in {"A", "F"} THEN (IF c = "A" THEN 10 ELSE 15) ELSE IF DigitVal(c) < 16 /\ c \notin {"Z"} THEN DigitVal(c) ELSE 99
\* DecodeString: <<number of bytes decoded, error>>; error "nil", "length" or the offending character
RECURSIVE HexDecode(_, _)
HexDecode(s, n) == IF s = <<>> THEN <<n, "nil">>
                   ELSE IF HexVal(s[1]) = 99 THEN <<n, s[1]>>
                   ELSE IF Len(s) = 1 THEN <<n, "length">>
                   ELSE IF HexVal(s[2]) = 99 THEN <<n, s[2]>>
                   ELSE HexDecode(SubSeq(s, 3, Len(s)), n + 1)
B64 == <<"A", "B", "C", "D", "E", "F", "G", "H", "I", "J", "K", "L", "M", "N", "O", "P", "Q", "R", "S", "T", "U", "V", "W", "X", "Y", "Z", "a", "b", "c", "d", "e", "f", "g", "h", "i", "j",
         "k", "l", "m", "n", "o", "p", "q", "r", "s", "t", "u", "v", "w", "x", "y", "z", "0", "1", "2", "3", "4", "5", "6", "7", "8", "9", "+", "/">>
RECURSIVE B64Encode(_)
B64Encode(bs) == IF bs = <<>> THEN <<>>
                 ELSE IF Len(bs) = 1 THEN <<B64[bs[1] \div 4 + 1], B64[(bs[1] % 4) * 16 + 1], "=", "=">>
                 ELSE IF Len(bs) = 2 THEN <<B64[bs[1] \div 4 + 1], B64[(bs[1] % 4) * 16 + bs[2] \div 16 + 1], B64[(bs[2] % 16) * 4 + 1], "=">>
                 ELSE <<B64[bs[1] \div 4 + 1], B64[(bs[1] % 4) * 16 + bs[2] \div 16 + 1], B64[(bs[2] % 16) * 4 + bs[3] \div 64 + 1], B64[(bs[3] % 64) + 1]>> \o B64Encode(SubSeq(bs, 4, Len(bs)))
CodecBytes == Seqs({0, 15, 97, 128, 255}, 3) \cup {<<1, 2, 3, 4>>, <<255, 255, 255, 255, 255>>, <<0, 16, 131, 16, 81, 135>>}
CodecCases ==
  {[fn |-> "hex.EncodeToString", a |-> <<VBytes(b)>>, want |-> VStr(HexEncode(b))] : b \in CodecBytes}
  \cup {[fn |-> "hex.DecodeString", a |-> <<VStr(s)>>, want |-> [t |-> "he", v |-> HexDecode(s, 0)]] : s \in Seqs({"0", "f", "F", "g"}, 4)}
  \cup {[fn |-> "base64.EncodeToString", a |-> <<VBytes(b)>>, want |-> VStr(B64Encode(b))] : b \in CodecBytes}
  \cup {[fn |-> "base64.RoundTrip", a |-> <<VBytes(b)>>, want |-> VBytes(b)] : b \in CodecBytes}

\* ------------------------------------------------------------------ math/bits (BV.tla)
BitVals(W) == {Mat(v) : v \in {Zero(W), One(W), AllOnes(W), MinS(W), MaxS(W), FromInt(85, W), [i \in 1..NB(W) |-> 170], [i \in 1..NB(W) |-> IF i = 1 THEN 240 ELSE IF i = NB(W) THEN 1 ELSE 0],
               [i \in 1..NB(W) |-> IF i = NB(W) THEN 18 ELSE 52]}}
ReverseBits(a) == Mat(FromBits(Mat([k \in 1..Width(a) |-> Bit(a, Width(a) - k)])))
ReverseBytes(a) == Mat([i \in 1..Len(a) |-> a[Len(a) + 1 - i]])
BitsCasesAt(W) ==
  UNION {{[fn |-> "LeadingZeros", w |-> W, a |-> <<VBytes(x)>>, want |-> VInt(Clz(x))],
          [fn |-> "TrailingZeros", w |-> W, a |-> <<VBytes(x)>>, want |-> VInt(Ctz(x))],
          [fn |-> "OnesCount", w |-> W, a |-> <<VBytes(x)>>, want |-> VInt(Popcnt(x))],
          [fn |-> "Len", w |-> W, a |-> <<VBytes(x)>>, want |-> VInt(W - Clz(x))],
          [fn |-> "Reverse", w |-> W, a |-> <<VBytes(x)>>, want |-> VBytes(ReverseBits(x))],
          [fn |-> "ReverseBytes", w |-> W, a |-> <<VBytes(x)>>, want |-> VBytes(ReverseBytes(x))]} : x \in BitVals(W)}
  \cup {[fn |-> "RotateLeft", w |-> W, a |-> <<VBytes(x), VInt(k)>>, want |-> VBytes(Mat(IF k >= 0 THEN Rotl(x, k) ELSE Rotr(x, -k)))] : x \in BitVals(W), k \in {0, 1, 7, 8, -1, -9, 63, 64, 65}}
BitsCases == UNION {BitsCasesAt(W) : W \in {8, 16, 32, 64}}

\* ------------------------------------------------------------------ sort
IsSorted(s) == \A i \in 1..(Len(s) - 1) : s[i] <= s[i + 1]
Occur(s, x) == Cardinality({i \in 1..Len(s) : s[i] = x})
Sorted(s) == CHOOSE t \in [1..Len(s) -> {s[i] : i \in 1..Len(s)}] : IsSorted(t) /\ \A x \in {s[i] : i \in 1..Len(s)} : Occur(t, x) = Occur(s, x)
Search(s, x) == IF \E i \in 1..Len(s) : s[i] >= x THEN (CHOOSE i \in 1..Len(s) : s[i] >= x /\ \A j \in 1..(i - 1) : s[j] < x) - 1 ELSE Len(s)
IntLists == Seqs({1, 2, 3, -5}, 4) \ {<<>>}
SortCases ==
  {[fn |-> "sort.Ints", a |-> <<VList(s)>>, want |-> VList(Sorted(s))] : s \in IntLists}
  \cup {[fn |-> "sort.SearchInts", a |-> <<VList(Sorted(s)), VInt(x)>>, want |-> VInt(Search(Sorted(s), x))] : s \in IntLists, x \in {-6, -5, 0, 1, 2, 3, 4}}

\* ------------------------------------------------------------------ hashes
RECURSIVE AdlerAB(_, _, _)
AdlerAB(bs, a, b) == IF bs = <<>> THEN <<a, b>> ELSE AdlerAB(Tail(bs), (a + Head(bs)) % 65521, (b + ((a + Head(bs)) % 65521)) % 65521)
Poly == <<32, 131, 184, 237>>                        \* 0xEDB88320, little-endian limbs
RECURSIVE CrcBits(_, _)
CrcBits(c, n) == IF n = 0 THEN c ELSE CrcBits(Mat(IF Bit(c, 0) = 1 THEN BXor(ShrU(c, 1), Poly) ELSE ShrU(c, 1)), n - 1)
RECURSIVE Crc(_, _)
Crc(bs, c) == IF bs = <<>> THEN c ELSE Crc(Tail(bs), CrcBits(Mat(BXor(c, <<Head(bs), 0, 0, 0>>)), 8))
Crc32(bs) == Mat(BNot(Crc(bs, Mat(AllOnes(32)))))
FnvPrime == <<147, 1, 0, 1>>                       \* 16777619 = 0x01000193
FnvBasis == <<197, 157, 28, 129>>                    \* 2166136261
RECURSIVE Fnv1a(_, _)
Fnv1a(bs, h) == IF bs = <<>> THEN h ELSE Fnv1a(Tail(bs), Mat(Mul(Mat(BXor(h, <<Head(bs), 0, 0, 0>>)), FnvPrime)))
RECURSIVE Fnv1(_, _)
Fnv1(bs, h) == IF bs = <<>> THEN h ELSE Fnv1(Tail(bs), Mat(BXor(Mat(Mul(h, FnvPrime)), <<Head(bs), 0, 0, 0>>)))
HashBytes == Seqs({0, 1, 97, 255}, 3) \cup {<<97, 98, 99>>, <<255, 255, 255, 255>>, <<104, 101, 108, 108, 111>>}
HashCases ==
  {[fn |-> "adler32.Checksum", a |-> <<VBytes(b)>>, want |-> [t |-> "ab", v |-> AdlerAB(b, 1, 0)]] : b \in HashBytes}
  \cup {[fn |-> "crc32.ChecksumIEEE", a |-> <<VBytes(b)>>, want |-> VBytes(Crc32(b))] : b \in HashBytes}
  \cup {[fn |-> "fnv.New32a", a |-> <<VBytes(b)>>, want |-> VBytes(Fnv1a(b, FnvBasis))] : b \in HashBytes}
  \cup {[fn |-> "fnv.New32", a |-> <<VBytes(b)>>, want |-> VBytes(Fnv1(b, FnvBasis))] : b \in HashBytes}


\* ------------------------------------------------------------------ crypto/md5 (RFC 1321) on BV.tla
Md5K == <<<<120, 164, 106, 215>>, <<86, 183, 199, 232>>, <<219, 112, 32, 36>>, <<238, 206, 189, 193>>,
        <<175, 15, 124, 245>>, <<42, 198, 135, 71>>, <<19, 70, 48, 168>>, <<1, 149, 70, 253>>,
        <<216, 152, 128, 105>>, <<175, 247, 68, 139>>, <<177, 91, 255, 255>>, <<190, 215, 92, 137>>,
        <<34, 17, 144, 107>>, <<147, 113, 152, 253>>, <<142, 67, 121, 166>>, <<33, 8, 180, 73>>,
        <<98, 37, 30, 246>>, <<64, 179, 64, 192>>, <<81, 90, 94, 38>>, <<170, 199, 182, 233>>,
        <<93, 16, 47, 214>>, <<83, 20, 68, 2>>, <<129, 230, 161, 216>>, <<200, 251, 211, 231>>,
        <<230, 205, 225, 33>>, <<214, 7, 55, 195>>, <<135, 13, 213, 244>>, <<237, 20, 90, 69>>,
        <<5, 233, 227, 169>>, <<248, 163, 239, 252>>, <<217, 2, 111, 103>>, <<138, 76, 42, 141>>,
        <<66, 57, 250, 255>>, <<129, 246, 113, 135>>, <<34, 97, 157, 109>>, <<12, 56, 229, 253>>,
        <<68, 234, 190, 164>>, <<169, 207, 222, 75>>, <<96, 75, 187, 246>>, <<112, 188, 191, 190>>,
        <<198, 126, 155, 40>>, <<250, 39, 161, 234>>, <<133, 48, 239, 212>>, <<5, 29, 136, 4>>,
        <<57, 208, 212, 217>>, <<229, 153, 219, 230>>, <<248, 124, 162, 31>>, <<101, 86, 172, 196>>,
        <<68, 34, 41, 244>>, <<151, 255, 42, 67>>, <<167, 35, 148, 171>>, <<57, 160, 147, 252>>,
        <<195, 89, 91, 101>>, <<146, 204, 12, 143>>, <<125, 244, 239, 255>>, <<209, 93, 132, 133>>,
        <<79, 126, 168, 111>>, <<224, 230, 44, 254>>, <<20, 67, 1, 163>>, <<161, 17, 8, 78>>,
        <<130, 126, 83, 247>>, <<53, 242, 58, 189>>, <<187, 210, 215, 42>>, <<145, 211, 134, 235>>>>           \* floor(2^32 * |sin(i+1)|), little-endian limbs
Md5S == <<7, 12, 17, 22, 7, 12, 17, 22, 7, 12, 17, 22, 7, 12, 17, 22, 5, 9, 14, 20, 5, 9, 14, 20, 5, 9, 14, 20, 5, 9, 14, 20, 4, 11, 16, 23, 4, 11, 16, 23, 4, 11, 16, 23, 4, 11, 16, 23, 6, 10, 15, 21, 6, 10, 15, 21, 6, 10, 15, 21, 6, 10, 15, 21>>
Md5Init == <<<<1, 35, 69, 103>>, <<137, 171, 205, 239>>, <<254, 220, 186, 152>>, <<118, 84, 50, 16>>>>       \* A, B, C, D
\* message + 0x80 + zeros to 56 mod 64 + the bit length as 8 little-endian bytes
Md5Pad(m) == LET n == Len(m)
                 z == (55 - n) % 64          \* number of zero bytes
                 bits == n * 8
             IN m \o <<128>> \o [i \in 1..z |-> 0] \o <<bits % 256, (bits \div 256) % 256, (bits \div 65536) % 256, 0, 0, 0, 0, 0>>
Md5Word(blk, g) == <<blk[4 * g + 1], blk[4 * g + 2], blk[4 * g + 3], blk[4 * g + 4]>>
Md5F(i, b, c, d) == IF i < 16 THEN BOr(BAnd(b, c), BAnd(BNot(b), d))
                    ELSE IF i < 32 THEN BOr(BAnd(d, b), BAnd(BNot(d), c))
                    ELSE IF i < 48 THEN BXor(BXor(b, c), d)
                    ELSE BXor(c, BOr(b, BNot(d)))
Md5G(i) == IF i < 16 THEN i ELSE IF i < 32 THEN (5 * i + 1) % 16 ELSE IF i < 48 THEN (3 * i + 5) % 16 ELSE (7 * i) % 16
RECURSIVE Md5Rounds(_, _, _)
Md5Rounds(blk, st, i) ==
  IF i = 64 THEN st
  ELSE LET a == st[1]  b == st[2]  c == st[3]  d == st[4]
           f == Mat(Add(Add(Add(Mat(Md5F(i, b, c, d)), a), Md5K[i + 1]), Md5Word(blk, Md5G(i))))
       IN Md5Rounds(blk, <<d, Mat(Add(b, Mat(Rotl(f, Md5S[i + 1])))), b, c>>, i + 1)
RECURSIVE Md5Blocks(_, _)
Md5Blocks(p, st) == IF p = <<>> THEN st
                    ELSE LET r == Md5Rounds(SubSeq(p, 1, 64), st, 0)
                         IN Md5Blocks(SubSeq(p, 65, Len(p)), <<Mat(Add(st[1], r[1])), Mat(Add(st[2], r[2])), Mat(Add(st[3], r[3])), Mat(Add(st[4], r[4]))>>)
Md5(m) == LET st == Md5Blocks(Mat(Md5Pad(m)), Md5Init) IN st[1] \o st[2] \o st[3] \o st[4]      \* the 16 digest bytes
\* messages around the padding boundaries (55/56/57, 63/64, 119/120): byte i is (i * 7 + 1) mod 251
Md5Msg(n) == [i \in 1..n |-> (i * 7 + 1) % 251]
Md5Cases == {[fn |-> "md5.Sum", a |-> <<VBytes(Mat(Md5Msg(n)))>>, want |-> VStr(HexEncode(Md5(Mat(Md5Msg(n)))))] : n \in {0, 1, 3, 54, 55, 56, 57, 63, 64, 65, 119, 120, 121, 128}}

\* ------------------------------------------------------------------ driver
CasesOf(f) == CASE f = "strings" -> StringCases [] f = "strconv" -> StrconvCases [] f = "utf8" -> Utf8Cases [] f = "codec" -> CodecCases
                [] f = "bits" -> BitsCases [] f = "sort" -> SortCases [] f = "hash" -> HashCases \cup Md5Cases
VARIABLES fam, c, done
Init == fam \in Families /\ c \in CasesOf(fam) /\ done = FALSE
Next == ~done /\ done' = TRUE /\ UNCHANGED <<fam, c>> /\ (Emit => PrintT(<<"T", ToJson([fam |-> fam, c |-> c])>>))
\* values printed in the Go documentation and well-known check values
Known == /\ Index(<<"a", "b", "a">>, <<"b", "a">>) = 1 /\ Count(<<"a", "a", "a">>, <<"a", "a">>) = 1 /\ Count(<<"a", "b">>, <<>>) = 3
         /\ Replace(<<"a", "b">>, <<>>, <<"b", "b">>, -1) = <<"b", "b", "a", "b", "b", "b", "b", "b">>
         /\ Split(<<"a", " ", "a">>, <<" ">>) = <<<<"a">>, <<"a">>>> /\ Split(<<>>, <<"a">>) = <<<<>>>>
         /\ FormatInt(-255, 16) = <<"-", "f", "f">> /\ ParseInt(<<"1", "2", "8">>, 10, 8) = <<127, "range">> /\ ParseInt(<<"-", "1", "2", "8">>, 10, 8) = <<-128, "nil">>
         /\ ParseInt(<<"9", "0", "+">>, 36, 8) = <<127, "range">> /\ ParseInt(<<"2", "0", "0", "x">>, 10, 8) = <<0, "syntax">>
         /\ DecodeRune(<<240, 159, 152, 128>>) = <<128512, 4>> /\ DecodeRune(<<237, 160, 128>>) = <<65533, 1>> /\ RuneCount(<<224, 160>>) = 2
         /\ B64Encode(<<97>>) = <<"Y", "Q", "=", "=">> /\ HexEncode(<<255, 0>>) = <<"f", "f", "0", "0">>
         /\ Crc32(<<97, 98, 99>>) = <<194, 65, 36, 53>>          \* crc32("abc") = 0x352441c2
         /\ Fnv1a(<<97>>, FnvBasis) = <<44, 41, 12, 228>>         \* fnv1a32("a") = 0xe40c292c
         /\ AdlerAB(<<97, 98, 99>>, 1, 0) = <<295, 589>>          \* adler32("abc") = 0x024d0127
         /\ HexEncode(Md5(<<>>)) = <<"d", "4", "1", "d", "8", "c", "d", "9", "8", "f", "0", "0", "b", "2", "0", "4", "e", "9", "8", "0", "0", "9", "9", "8", "e", "c", "f", "8", "4", "2", "7", "e">>
         /\ HexEncode(Md5(<<97, 98, 99>>)) = <<"9", "0", "0", "1", "5", "0", "9", "8", "3", "c", "d", "2", "4", "f", "b", "0", "d", "6", "9", "6", "3", "f", "7", "d", "2", "8", "e", "1", "7", "f", "7", "2">>
=============================================================================
