------------------------------ MODULE WaHeap ------------------------------
(* C10, implementation level: a block-level transcription of                  *)
(* internal/waroot/malloc/malloc.wat (= waroot/src/runtime/heap_malloc.wat.ws)*)
(* One operator per WAT function, same list disciplines, same rover, same     *)
(* split / coalesce / grow rules -- including what the code knowingly does.   *)
(* Deterministic in (state, operation).  The contract (WaHeapContract) is     *)
(* checked as INVARIANTS of this spec; every transition is also emitted as a  *)
(* JSON line (Emit = TRUE) and replayed on the real allocator.                *)
EXTENDS WaHeapContract, Json

CONSTANTS Sizes, MaxLive, MaxOps, Emit,
          FixZero,   \* TRUE: model the repair of F1 (a 0-byte request is served as 8 bytes)
          FixGrow    \* TRUE: model the repair of F2 (grow by the deficit, exact fit does not grow)

VARIABLES nops, hist

vars == <<hdr, freep, heapPtr, heapTop, pages, live, lastOp, nops, hist>>

\* the machine state threaded through the transcription; w = header cells written
St == [hdr |-> hdr, freep |-> freep, heapPtr |-> heapPtr, heapTop |-> heapTop, pages |-> pages, w |-> {}]

Rd(s, a) == IF a \in DOMAIN s.hdr THEN s.hdr[a] ELSE [size |-> 0, next |-> 0]   \* untouched memory reads as zero
WrSize(s, a, v) == [s EXCEPT !.hdr = (a :> [size |-> v, next |-> Rd(s, a).next]) @@ s.hdr, !.w = @ \cup {a}]
WrNext(s, a, v) == [s EXCEPT !.hdr = (a :> [size |-> Rd(s, a).size, next |-> v]) @@ s.hdr, !.w = @ \cup {a}]
WrBoth(s, a, sz, nx) == [s EXCEPT !.hdr = (a :> [size |-> sz, next |-> nx]) @@ s.hdr, !.w = @ \cup {a}]

\* $wa_malloc_reuse_fixed : <<state, block>>
ReuseFixed(s, fl) ==
  IF Rd(s, fl).size = 0 THEN <<s, 0>>
  ELSE LET s1 == WrSize(s, fl, Rd(s, fl).size - 1)
           p  == Rd(s1, fl).next
           s2 == WrNext(s1, fl, Rd(s1, p).next)
           s3 == WrNext(s2, p, 0)
       IN <<s3, p>>

\* $heap_reuse_varying : first fit around the ring starting after the rover.
\* fuel-bounded: running out of fuel is the outcome "the WAT loop never exits".
RECURSIVE Varying(_, _, _, _, _)
Varying(s, nbytes, prevp, p, fuel) ==
  IF fuel = 0 THEN <<s, -1>>
  ELSE IF Rd(s, p).size >= nbytes + 8 THEN          \* split: front part is handed out
    LET rem == p + 8 + nbytes
        s1 == WrNext(s, rem, Rd(s, p).next)
        s2 == WrSize(s1, rem, Rd(s1, p).size - nbytes - 8)
        s3 == WrNext(s2, prevp, rem)
        s4 == [s3 EXCEPT !.freep = prevp]
        s5 == WrBoth(s4, p, nbytes, 0)
    IN <<s5, p>>
  ELSE IF Rd(s, p).size >= nbytes THEN              \* whole block
    LET s1 == WrNext(s, prevp, Rd(s, p).next)
        s2 == [s1 EXCEPT !.freep = prevp]
        s3 == WrNext(s2, p, 0)
    IN <<s3, p>>
  ELSE IF p = s.freep THEN <<s, 0>>                 \* wrapped around
  ELSE Varying(s, nbytes, p, Rd(s, p).next, fuel - 1)

ReuseVarying(s, nbytes) == Varying(s, nbytes, s.freep, Rd(s, s.freep).next, Cardinality(DOMAIN s.hdr) + 3)

\* $heap_new_allocation
NewAlloc(s, size) ==
  LET bs == 8 + size
      need == IF FixGrow THEN (s.heapPtr + bs - s.heapTop + 65535) \div 65536
                         ELSE (bs + 65535) \div 65536
      mustGrow == IF FixGrow THEN s.heapPtr + bs > s.heapTop ELSE s.heapPtr + bs >= s.heapTop
  IN IF mustGrow
     THEN IF s.pages + need > MaxPages THEN <<s, 0>>
          ELSE LET s1 == [s EXCEPT !.pages = @ + need, !.heapTop = @ + need * Page]
                   s2 == [s1 EXCEPT !.heapPtr = @ + bs]
               IN <<WrBoth(s2, s.heapPtr, size, 0), s.heapPtr>>
     ELSE LET s2 == [s EXCEPT !.heapPtr = @ + bs]
          IN <<WrBoth(s2, s.heapPtr, size, 0), s.heapPtr>>

\* $wa_malloc : <<state, data pointer>>   (-1: diverged)
DoMalloc(s, req) ==
  LET a0  == Align8(req)
      sz0 == IF FixZero /\ a0 = 0 THEN 8 ELSE a0
      cls == ClassOf(sz0)
      fl  == cls[1]
      sz  == cls[2]
      r1  == IF FixedEnabled /\ IsFixedSize(sz) THEN ReuseFixed(s, fl) ELSE <<s, 0>>
  IN IF r1[2] # 0 THEN <<r1[1], r1[2] + 8>>
     ELSE LET r2 == ReuseVarying(r1[1], sz)
          IN IF r2[2] = -1 THEN <<r2[1], -1>>
             ELSE IF r2[2] # 0 THEN <<r2[1], r2[2] + 8>>
             ELSE LET r3 == NewAlloc(r2[1], sz)
                  IN IF r3[2] # 0 THEN <<r3[1], r3[2] + 8>> ELSE <<r3[1], 0>>

\* $wa_l128_free : K&R ordered insert with coalescing, fuel-bounded search
RECURSIVE FindSlot(_, _, _, _)
FindSlot(s, bp, p, fuel) ==
  IF fuel = 0 THEN -1
  ELSE LET nx == Rd(s, p).next
       IN IF bp > p /\ bp < nx THEN p
          ELSE IF p >= nx /\ (bp > p \/ bp < nx) THEN p
          ELSE FindSlot(s, bp, nx, fuel - 1)

L128Free(s, bp) ==
  LET p == FindSlot(s, bp, s.freep, Cardinality(DOMAIN s.hdr) + 3)
  IN IF p = -1 THEN [s EXCEPT !.freep = -1]
     ELSE
     LET nx == Rd(s, p).next
         s1 == IF bp + Rd(s, bp).size + 8 = nx     \* join to upper neighbour
               THEN WrNext(WrSize(s, bp, Rd(s, bp).size + Rd(s, nx).size + 8), bp, Rd(s, nx).next)
               ELSE WrNext(s, bp, nx)
         s2 == IF p + Rd(s1, p).size + 8 = bp      \* join to lower neighbour
               THEN WrNext(WrSize(s1, p, Rd(s1, p).size + Rd(s1, bp).size + 8), p, Rd(s1, bp).next)
               ELSE WrNext(s1, p, bp)
     IN [s2 EXCEPT !.freep = p]

\* $wa_lfixed_free_all : flush a full fixed list into the ring
RECURSIVE FreeAllFrom(_, _, _)
FreeAllFrom(s, p, fuel) ==
  IF p = 0 \/ fuel = 0 \/ s.freep = -1 THEN s
  ELSE LET temp == Rd(s, p).next IN FreeAllFrom(L128Free(s, p), temp, fuel - 1)
FreeAll(s, fl) == WrBoth(FreeAllFrom(s, Rd(s, fl).next, Cap + 2), fl, 0, 0)

\* $wa_lfixed_free_block
FixedFree(s, fl, block) ==
  LET s0 == IF Rd(s, fl).size = Cap THEN FreeAll(s, fl) ELSE s
      s1 == WrNext(s0, block, Rd(s0, fl).next)
      s2 == WrNext(s1, fl, block)
  IN WrSize(s2, fl, Rd(s2, fl).size + 1)

\* $wa_free
DoFree(s, ptr) ==
  LET block == ptr - 8
      size  == Rd(s, block).size
  IN IF FixedEnabled /\ IsFixedSize(size)
     THEN FixedFree(s, ClassOf(size)[1], block)
     ELSE L128Free(s, block)

----------------------------------------------------------------------------
Zero == [size |-> 0, next |-> 0]
Init ==
  /\ hdr = (L24 :> Zero) @@ (L32 :> Zero) @@ (L48 :> Zero) @@ (L80 :> Zero) @@
           (L128 :> [size |-> 0, next |-> L128]) @@ (HeapBase + 40 :> Zero)
  /\ freep = L128
  /\ heapPtr = FirstBlock
  /\ heapTop = InitPages * Page
  /\ pages = InitPages
  /\ live = << >>
  /\ lastOp = [op |-> "init"]
  /\ nops = 0
  /\ hist = << >>

Commit(s) == /\ hdr' = s.hdr /\ freep' = s.freep /\ heapPtr' = s.heapPtr
             /\ heapTop' = s.heapTop /\ pages' = s.pages

\* what the replayer compares after each call: reply, globals, and the list shapes
Digest == <<heapPtr, heapTop, freep, RingBlocks, FixedBlocks(L24), FixedBlocks(L32),
            FixedBlocks(L48), FixedBlocks(L80)>>

Malloc(n) ==
  /\ nops < MaxOps
  /\ Cardinality(DOMAIN live) < MaxLive
  /\ lastOp.op # "diverged"
  /\ LET r == DoMalloc(St, n)
     IN /\ Commit(r[1])
        /\ live' = IF r[2] > 0 THEN (r[2] :> n) @@ live ELSE live
        /\ lastOp' = IF r[2] = -1 THEN [op |-> "diverged", n |-> n]
                     ELSE [op |-> "malloc", n |-> n, r |-> r[2], w |-> r[1].w, before |-> Before]
        /\ hist' = IF Emit THEN Append(hist, <<"m", n, r[2], IF r[2] = -1 THEN << >> ELSE Digest'>>) ELSE hist
        /\ (Emit => PrintT(<<"T", ToJson(hist')>>))
  /\ nops' = nops + 1

Free(p) ==
  /\ nops < MaxOps
  /\ lastOp.op # "diverged"
  /\ LET s == DoFree(St, p)
     IN /\ Commit(s)
        /\ live' = [q \in DOMAIN live \ {p} |-> live[q]]
        /\ lastOp' = IF s.freep = -1 THEN [op |-> "diverged", n |-> p] ELSE [op |-> "free", p |-> p, w |-> s.w]
        /\ hist' = IF Emit THEN Append(hist, <<"f", p, 0, IF s.freep = -1 THEN << >> ELSE Digest'>>) ELSE hist
        /\ (Emit => PrintT(<<"T", ToJson(hist')>>))
  /\ nops' = nops + 1

Next == (\E n \in Sizes : Malloc(n)) \/ (\E p \in DOMAIN live : Free(p))
Spec == Init /\ [][Next]_vars

\* history is hidden; the reply class of the last operation is visible (a VIEW that hides
\* the reply would hide FailOnlyWhenExhausted violations: TLC skips invariants on seen views)
View == <<hdr, freep, heapPtr, heapTop, pages, live, lastOp.op,
          IF lastOp.op = "malloc" THEN lastOp.r = 0 ELSE FALSE>>

\* reachability companions (must be *violated*: the antecedents are not vacuous)
NeverFails   == ~(lastOp.op = "malloc" /\ lastOp.r = 0)
NeverFlushes == ~(lastOp.op = "free" /\ Cardinality(lastOp.w) > 4)
=============================================================================
