#!/bin/bash
# seedtest.sh <seed id> <check id> [tier]: apply a kept seeded change to a scratch worktree of /repo and run a check against it
# (VERIF_REPO); /repo itself is not touched, no evidence file is written.
set -e
SEED=$1; CHK=$2; TIER=${3:-quick}
WT=/tmp/repo-seed-$SEED
git -C /repo worktree remove --force $WT 2>/dev/null || true
git -C /repo worktree add -q --detach $WT HEAD
git -C $WT apply /verif/seeded/$SEED/patch.diff
cd /verif
set +e
VERIF_REPO=$WT ./check $CHK --tier $TIER 2>&1 | tail -${TAIL:-4} | cut -c1-400
git -C /repo worktree remove --force $WT
git -C /repo worktree prune
