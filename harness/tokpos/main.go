// Harness for C23: replays TLC histories of TokenPos on real token.FileSet objects.
package main

import (
	"bufio"
	"encoding/json"
	"fmt"
	"os"
	"strings"

	"wa-lang.org/wa/internal/token"
)

func unescape(line string) (string, bool) {
	const pre = `<<"T", "`
	if !strings.HasPrefix(line, pre) || !strings.HasSuffix(line, `">>`) {
		return "", false
	}
	s := line[len(pre) : len(line)-3]
	s = strings.ReplaceAll(s, `\"`, `"`)
	s = strings.ReplaceAll(s, `\\`, `\`)
	return s, true
}

type Op struct {
	Op      string `json:"op"`
	S       int    `json:"s"`
	ID      int    `json:"id"`
	Content []int  `json:"content"`
	P       int    `json:"p"`
	Dst     int    `json:"dst"`
	Src     int    `json:"src"`
}
type PosT struct {
	Line int `json:"line"`
	Col  int `json:"col"`
}
type FileT struct {
	ID      int    `json:"id"`
	Base    int    `json:"base"`
	Size    int    `json:"size"`
	Content []int  `json:"content"`
	Pos     []PosT `json:"pos"`
}
type Case struct {
	Ops  []Op      `json:"ops"`
	Want [][]FileT `json:"want"`
}

func name(id int) string { return fmt.Sprintf("f%d.wa", id) }

func run(c *Case) (fail string) {
	defer func() {
		if e := recover(); e != nil {
			fail = fmt.Sprint("panic: ", e)
		}
	}()
	fs := []*token.FileSet{nil, token.NewFileSet(), token.NewFileSet()}
	// shadow sets: the same operations on files that also carry a //line entry (file name, line and column) in the
	// middle of the file; a load must preserve the adjusted position of every offset (reference = the set in memory)
	sh := []*token.FileSet{nil, token.NewFileSet(), token.NewFileSet()}
	for _, op := range c.Ops {
		switch op.Op {
		case "add":
			b := make([]byte, len(op.Content))
			for i, v := range op.Content {
				b[i] = byte(v)
			}
			f := fs[op.S].AddFile(name(op.ID), -1, len(b))
			f.SetLinesForContent(b)
			g := sh[op.S].AddFile(name(op.ID), -1, len(b))
			g.SetLinesForContent(b)
			if len(b) >= 2 {
				g.AddLineColumnInfo(len(b)/2, "gen.wa", 10+op.ID, 3)
			}
		case "query":
			_ = fs[op.S].Position(token.Pos(op.P))
		case "load":
			if err := fs[op.Dst].FromJson(fs[op.Src].ToJson()); err != nil {
				return "FromJson: " + err.Error()
			}
			type at struct {
				p   token.Pos
				pos token.Position
			}
			var before []at
			sh[op.Src].Iterate(func(f *token.File) bool {
				for off := 0; off <= f.Size(); off++ {
					p := token.Pos(f.Base() + off)
					before = append(before, at{p, sh[op.Src].Position(p)})
				}
				return true
			})
			if err := sh[op.Dst].FromJson(sh[op.Src].ToJson()); err != nil {
				return "FromJson (files with line entries): " + err.Error()
			}
			for _, a := range before {
				if g := sh[op.Dst].Position(a.p); g != a.pos {
					return fmt.Sprintf("adjusted position of %d is %v in memory and %v after the JSON round trip (file with a //line entry)", a.p, a.pos, g)
				}
			}
		}
	}
	for s := 1; s <= 2; s++ {
		want := c.Want[s-1]
		var got []*token.File
		fs[s].Iterate(func(f *token.File) bool { got = append(got, f); return true })
		if len(got) != len(want) {
			return fmt.Sprintf("set %d holds %d files, specified %d", s, len(got), len(want))
		}
		for i, w := range want {
			f := got[i]
			if f.Name() != name(w.ID) || f.Base() != w.Base || f.Size() != w.Size {
				return fmt.Sprintf("set %d file %d is (%s, base %d, size %d), specified (%s, %d, %d)", s, i, f.Name(), f.Base(), f.Size(), name(w.ID), w.Base, w.Size)
			}
			for off, p := range w.Pos {
				if p.Line == 0 {
					continue
				}
				g := fs[s].Position(token.Pos(w.Base + off))
				if g.Filename != name(w.ID) || g.Line != p.Line || g.Column != p.Col || g.Offset != off {
					return fmt.Sprintf("set %d: Position(%d) = %s:%d:%d (offset %d), specified %s:%d:%d (offset %d)", s, w.Base+off, g.Filename, g.Line, g.Column, g.Offset, name(w.ID), p.Line, p.Col, off)
				}
			}
		}
	}
	return ""
}

func main() {
	f, err := os.Open(os.Args[1])
	if err != nil {
		fmt.Fprintln(os.Stderr, err)
		os.Exit(2)
	}
	out := bufio.NewWriter(os.Stdout)
	defer out.Flush()
	enc := json.NewEncoder(out)
	sc := bufio.NewScanner(f)
	sc.Buffer(make([]byte, 1<<20), 1<<24)
	n, bad := 0, 0
	for sc.Scan() {
		js, ok := unescape(sc.Text())
		if !ok {
			continue
		}
		var c Case
		if err := json.Unmarshal([]byte(js), &c); err != nil {
			fmt.Fprintln(os.Stderr, err)
			os.Exit(2)
		}
		n++
		if fail := run(&c); fail != "" {
			bad++
			if bad <= 40 {
				enc.Encode(map[string]interface{}{"fail": fail, "case": c})
			}
		}
	}
	enc.Encode(map[string]interface{}{"done": true, "n": n, "bad": bad})
}
