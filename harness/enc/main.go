// Harness for C17: encodes TLC's operand tuples with the repository's RISC-V and LoongArch
// encoders and decodes the produced words with the repository's decoders.
//
//	enc run < cases.ndjson
package main

import (
	"bufio"
	"encoding/json"
	"fmt"
	"os"
	"strings"

	"wa-lang.org/wa/internal/native/abi"
	"wa-lang.org/wa/internal/native/loong64"
	"wa-lang.org/wa/internal/native/riscv"
	"wa-lang.org/wa/internal/native/x64"
	"wa-lang.org/wa/internal/native/x64/x86asm"
)

type Case struct {
	ID   int      `json:"id"`
	Arch string   `json:"arch"`
	Mn   string   `json:"mn"`
	Uses []string `json:"uses"`
	Rd   int      `json:"rd"`
	Rs1  int      `json:"rs1"`
	Rs2  int      `json:"rs2"`
	Imm  int32    `json:"imm"`
	Cls  struct {
		Rd  string `json:"rd"`
		Rs1 string `json:"rs1"`
		Rs2 string `json:"rs2"`
	} `json:"cls"`
}

type Res struct {
	ID       int    `json:"id"`
	Known    bool   `json:"known"` // the mnemonic exists in the encoder's table
	Accepted bool   `json:"accepted"`
	Err      string `json:"err"`
	Panic    string `json:"panic"`
	Word     uint32 `json:"word"`
	DecErr   string `json:"dec_err"`
	DecPanic string `json:"dec_panic"`
	DecAs    string `json:"dec_as"`
	DecRd    int    `json:"dec_rd"`
	DecRs1   int    `json:"dec_rs1"`
	DecRs2   int    `json:"dec_rs2"`
	DecImm   int32  `json:"dec_imm"`
}

func has(u []string, s string) bool {
	for _, x := range u {
		if x == s {
			return true
		}
	}
	return false
}

func reg(base abi.RegType, used bool, n int) abi.RegType {
	if !used {
		return 0
	}
	return base + abi.RegType(n)
}

func unreg(base abi.RegType, r abi.RegType) int {
	if r == 0 {
		return -1
	}
	return int(r - base)
}

func one(c *Case) (r Res) {
	r.ID = c.ID
	name := strings.ReplaceAll(c.Mn, "_", ".")
	var base abi.RegType
	var as abi.As
	var ok bool
	if c.Arch == "riscv64" {
		base = riscv.REG_X0
		as, ok = riscv.LookupAs(name)
	} else {
		base = loong64.REG_R0
		as, ok = loong64.LookupAs(name)
	}
	if !ok {
		return
	}
	r.Known = true
	baseOf := func(cls string) abi.RegType {
		switch {
		case cls == "f" && c.Arch == "riscv64":
			return riscv.REG_F0
		case cls == "f":
			return loong64.REG_F0
		case cls == "fcc":
			return loong64.REG_FCC0
		}
		return base
	}
	bRd, bRs1, bRs2 := baseOf(c.Cls.Rd), baseOf(c.Cls.Rs1), baseOf(c.Cls.Rs2)
	arg := &abi.AsArgument{Rd: reg(bRd, has(c.Uses, "rd"), c.Rd), Rs1: reg(bRs1, has(c.Uses, "rs1"), c.Rs1), Rs2: reg(bRs2, has(c.Uses, "rs2"), c.Rs2), Imm: c.Imm}
	func() {
		defer func() {
			if p := recover(); p != nil {
				r.Panic = fmt.Sprint(p)
			}
		}()
		var w uint32
		var err error
		if c.Arch == "riscv64" {
			w, err = riscv.EncodeRV64(as, arg)
		} else {
			w, err = loong64.EncodeLA64(as, arg)
		}
		if err != nil {
			r.Err = err.Error()
			return
		}
		r.Accepted, r.Word = true, w
	}()
	if !r.Accepted {
		return
	}
	func() {
		defer func() {
			if p := recover(); p != nil {
				r.DecPanic = fmt.Sprint(p)
			}
		}()
		var das abi.As
		var darg *abi.AsArgument
		var err error
		if c.Arch == "riscv64" {
			das, darg, err = riscv.Decode(r.Word)
			if err == nil {
				r.DecAs = riscv.AsString(das, "")
			}
		} else {
			das, darg, err = loong64.Decode(r.Word)
			if err == nil {
				r.DecAs = loong64.AsString(das, "")
			}
		}
		if err != nil {
			r.DecErr = err.Error()
			return
		}
		r.DecRd, r.DecRs1, r.DecRs2, r.DecImm = unreg(bRd, darg.Rd), unreg(bRs1, darg.Rs1), unreg(bRs2, darg.Rs2), darg.Imm
	}()
	return
}

// ---- x86-64 (X64ModRM.tla) ----

type XCase struct {
	ID   int    `json:"id"`
	Op   string `json:"op"`
	Form string `json:"form"`
	Reg  int    `json:"reg"`
	Base int    `json:"base"`
	Disp int64  `json:"disp"`
}

type XRes struct {
	ID       int    `json:"id"`
	Accepted bool   `json:"accepted"`
	Err      string `json:"err"`
	Panic    string `json:"panic"`
	Code     []int  `json:"code"`
	DecErr   string `json:"dec_err"`
	DecLen   int    `json:"dec_len"`
	DecOp    string `json:"dec_op"`
	DecText  string `json:"dec_text"`
	DecDst   string `json:"dec_dst"` // "reg:N" or "mem:BASE:DISP"
	DecSrc   string `json:"dec_src"`
}

var xops = map[string]abi.As{"add": x64.AADD, "or": x64.AOR, "and": x64.AAND, "sub": x64.ASUB, "xor": x64.AXOR, "cmp": x64.ACMP, "mov": x64.AMOV, "lea": x64.ALEA}

func xarg(a x86asm.Arg) string {
	switch v := a.(type) {
	case x86asm.Reg:
		if v >= x86asm.RAX && v <= x86asm.R15 {
			return fmt.Sprintf("reg:%d", int(v-x86asm.RAX))
		}
		return "reg:" + v.String()
	case x86asm.Mem:
		if v.Base >= x86asm.RAX && v.Base <= x86asm.R15 && v.Index == 0 && v.Segment == 0 {
			return fmt.Sprintf("mem:%d:%d", int(v.Base-x86asm.RAX), int64(int32(v.Disp)))
		}
		return "mem:" + v.String()
	}
	return fmt.Sprint(a)
}

func xone(c *XCase) (r XRes) {
	r.ID = c.ID
	r.Code = []int{}
	reg := &abi.X64Operand{Kind: abi.X64Operand_Reg, Reg: x64.REG_RAX + abi.RegType(c.Reg)}
	var arg *abi.X64Argument
	switch c.Form {
	case "regreg":
		arg = &abi.X64Argument{Dst: reg, Src: &abi.X64Operand{Kind: abi.X64Operand_Reg, Reg: x64.REG_RAX + abi.RegType(c.Base)}}
	case "load":
		arg = &abi.X64Argument{Dst: reg, Src: &abi.X64Operand{Kind: abi.X64Operand_Mem, Reg: x64.REG_RAX + abi.RegType(c.Base), PtrTyp: abi.X64QWordPtr, Offset: c.Disp}}
	default:
		arg = &abi.X64Argument{Dst: &abi.X64Operand{Kind: abi.X64Operand_Mem, Reg: x64.REG_RAX + abi.RegType(c.Base), PtrTyp: abi.X64QWordPtr, Offset: c.Disp}, Src: reg}
	}
	var code []byte
	func() {
		defer func() {
			if p := recover(); p != nil {
				r.Panic = fmt.Sprint(p)
			}
		}()
		b, err := x64.Encode(xops[c.Op], arg)
		if err != nil {
			r.Err = err.Error()
			return
		}
		r.Accepted, code = true, b
	}()
	if !r.Accepted {
		return
	}
	for _, b := range code {
		r.Code = append(r.Code, int(b))
	}
	// the bytes of a following instruction, so that a decoder that runs past the end is seen
	tail := []byte{0x48, 0x89, 0xd8, 0xc3, 0x90, 0x90, 0x90, 0x90, 0x90, 0x90, 0x90, 0x90}
	func() {
		defer func() {
			if p := recover(); p != nil {
				r.DecErr = fmt.Sprint("panic: ", p)
			}
		}()
		inst, err := x86asm.Decode(append(append([]byte{}, code...), tail...), 64)
		if err != nil {
			r.DecErr = err.Error()
			return
		}
		r.DecLen, r.DecOp, r.DecText = inst.Len, strings.ToLower(inst.Op.String()), x86asm.IntelSyntax(inst, 0, nil)
		if inst.Args[0] != nil {
			r.DecDst = xarg(inst.Args[0])
		}
		if inst.Args[1] != nil {
			r.DecSrc = xarg(inst.Args[1])
		}
	}()
	return
}

func cmdX64() {
	dec := json.NewDecoder(bufio.NewReaderSize(os.Stdin, 1<<20))
	w := bufio.NewWriter(os.Stdout)
	defer w.Flush()
	for dec.More() {
		var c XCase
		if err := dec.Decode(&c); err != nil {
			fmt.Fprintln(os.Stderr, "bad case:", err)
			os.Exit(2)
		}
		b, _ := json.Marshal(xone(&c))
		w.Write(b)
		w.WriteByte('\n')
	}
}

func main() {
	if len(os.Args) >= 2 && os.Args[1] == "x64" {
		cmdX64()
		return
	}
	if len(os.Args) < 2 || os.Args[1] != "run" {
		fmt.Fprintln(os.Stderr, "usage: enc run|x64")
		os.Exit(2)
	}
	dec := json.NewDecoder(bufio.NewReaderSize(os.Stdin, 1<<20))
	w := bufio.NewWriter(os.Stdout)
	defer w.Flush()
	for dec.More() {
		var c Case
		if err := dec.Decode(&c); err != nil {
			fmt.Fprintln(os.Stderr, "bad case:", err)
			os.Exit(2)
		}
		b, _ := json.Marshal(one(&c))
		w.Write(b)
		w.WriteByte('\n')
	}
}
