// Harness for C20: executes TLC-specified RISC-V cases (Rv.tla) on the wemu riscv64 CPU.
// Instructions are encoded here from the ISA manual's format tables (independent of the
// repository's encoder), placed in DRAM, and run with one StepRun.
package main

import (
	"bufio"
	"encoding/binary"
	"encoding/json"
	"fmt"
	"os"
	"strings"

	"wa-lang.org/wa/internal/native/wemu/device"
	"wa-lang.org/wa/internal/native/wemu/device/dram"
	"wa-lang.org/wa/internal/native/wemu/riscv64"
)

func unescape(line string) (string, bool) {
	const pre = `<<"T", "`
	if !strings.HasPrefix(line, pre) || !strings.HasSuffix(line, `">>`) {
		return "", false
	}
	s := line[len(pre) : len(line)-3]
	s = strings.ReplaceAll(s, `\"`, `"`)
	s = strings.ReplaceAll(s, `\\`, `\`)
	return s, true
}

type Case struct {
	Kind string `json:"kind"`
	Op   string `json:"op"`
	A    []int  `json:"a"`
	B    []int  `json:"b"`
	Imm  int    `json:"imm"`
	Rd   []int  `json:"rd"`
	Pc   []int  `json:"pc"`
	Abs  bool   `json:"abs"`
	St   []int  `json:"st"`
}

func le(v []int) uint64 {
	var b [8]byte
	for i := range v {
		if i < 8 {
			b[i] = byte(v[i])
		}
	}
	return binary.LittleEndian.Uint64(b[:])
}

// opcode, funct3, funct7 from the RISC-V unprivileged ISA manual, chapter "RV32/64G Instruction Set Listings"
type enc struct{ opcode, f3, f7 uint32 }

var rrEnc = map[string]enc{
	"add": {0x33, 0, 0x00}, "sub": {0x33, 0, 0x20}, "sll": {0x33, 1, 0}, "slt": {0x33, 2, 0}, "sltu": {0x33, 3, 0}, "xor": {0x33, 4, 0},
	"srl": {0x33, 5, 0}, "sra": {0x33, 5, 0x20}, "or": {0x33, 6, 0}, "and": {0x33, 7, 0},
	"addw": {0x3b, 0, 0}, "subw": {0x3b, 0, 0x20}, "sllw": {0x3b, 1, 0}, "srlw": {0x3b, 5, 0}, "sraw": {0x3b, 5, 0x20},
	"mul": {0x33, 0, 1}, "mulh": {0x33, 1, 1}, "mulhsu": {0x33, 2, 1}, "mulhu": {0x33, 3, 1}, "div": {0x33, 4, 1}, "divu": {0x33, 5, 1},
	"rem": {0x33, 6, 1}, "remu": {0x33, 7, 1}, "mulw": {0x3b, 0, 1}, "divw": {0x3b, 4, 1}, "divuw": {0x3b, 5, 1}, "remw": {0x3b, 6, 1}, "remuw": {0x3b, 7, 1},
}
var riEnc = map[string]enc{
	"addi": {0x13, 0, 0}, "slti": {0x13, 2, 0}, "sltiu": {0x13, 3, 0}, "xori": {0x13, 4, 0}, "ori": {0x13, 6, 0}, "andi": {0x13, 7, 0}, "addiw": {0x1b, 0, 0},
	"jalr": {0x67, 0, 0},
	"lb": {0x03, 0, 0}, "lh": {0x03, 1, 0}, "lw": {0x03, 2, 0}, "ld": {0x03, 3, 0}, "lbu": {0x03, 4, 0}, "lhu": {0x03, 5, 0}, "lwu": {0x03, 6, 0},
}
var shEnc = map[string]enc{
	"slli": {0x13, 1, 0x00}, "srli": {0x13, 5, 0x00}, "srai": {0x13, 5, 0x10}, // funct6 in bits 31..26
	"slliw": {0x1b, 1, 0x00}, "srliw": {0x1b, 5, 0x00}, "sraiw": {0x1b, 5, 0x20},
}
var brEnc = map[string]uint32{"beq": 0, "bne": 1, "blt": 4, "bge": 5, "bltu": 6, "bgeu": 7}
var stEnc = map[string]uint32{"sb": 0, "sh": 1, "sw": 2, "sd": 3}

func rType(e enc, rd, rs1, rs2 uint32) uint32 {
	return e.f7<<25 | rs2<<20 | rs1<<15 | e.f3<<12 | rd<<7 | e.opcode
}
func iType(e enc, rd, rs1 uint32, imm int) uint32 {
	return uint32(imm&0xfff)<<20 | rs1<<15 | e.f3<<12 | rd<<7 | e.opcode
}
func sType(f3, rs1, rs2 uint32, imm int) uint32 {
	u := uint32(imm & 0xfff)
	return (u>>5)<<25 | rs2<<20 | rs1<<15 | f3<<12 | (u&0x1f)<<7 | 0x23
}
func bType(f3, rs1, rs2 uint32, imm int) uint32 {
	u := uint32(imm & 0x1fff)
	return (u>>12&1)<<31 | (u>>5&0x3f)<<25 | rs2<<20 | rs1<<15 | f3<<12 | (u>>1&0xf)<<8 | (u>>11&1)<<7 | 0x63
}
func uType(opcode, rd uint32, imm20 int) uint32 { return uint32(imm20&0xfffff)<<12 | rd<<7 | opcode }
func jType(rd uint32, imm int) uint32 {
	u := uint32(imm & 0x1fffff)
	return (u>>20&1)<<31 | (u>>1&0x3ff)<<21 | (u>>11&1)<<20 | (u>>12&0xff)<<12 | rd<<7 | 0x6f
}

const (
	base     = 0x80000000
	dataAddr = base + 0x2000
	memSize  = 0x4000
)

type result struct {
	rd, pc uint64
	st     []byte
	err    string
}

func runCase(c *Case, rd, rs1, rs2 uint32, withNop bool) (res result) {
	defer func() {
		if e := recover(); e != nil {
			res.err = fmt.Sprint("panic: ", e)
		}
	}()
	mem := dram.NewDRAM("ram", base, memSize, false)
	a, b := le(c.A), le(c.B)
	var inst uint32
	regs := map[uint32]uint64{}
	switch c.Kind {
	case "rr":
		inst = rType(rrEnc[c.Op], rd, rs1, rs2)
		regs[rs1], regs[rs2] = a, b
	case "ri":
		inst = iType(riEnc[c.Op], rd, rs1, c.Imm)
		regs[rs1] = a
	case "sh":
		e := shEnc[c.Op]
		inst = e.f7<<25 | uint32(c.Imm&0x3f)<<20 | rs1<<15 | e.f3<<12 | rd<<7 | e.opcode
		if c.Op == "srai" {
			inst = 0x10<<26 | uint32(c.Imm&0x3f)<<20 | rs1<<15 | e.f3<<12 | rd<<7 | e.opcode
		}
		regs[rs1] = a
	case "lui":
		op := uint32(0x37)
		if c.Op == "auipc" {
			op = 0x17
		}
		inst = uType(op, rd, c.Imm)
	case "br":
		inst = bType(brEnc[c.Op], rs1, rs2, c.Imm)
		regs[rs1], regs[rs2] = a, b
	case "jal":
		inst = jType(rd, c.Imm)
	case "jalr":
		inst = iType(riEnc["jalr"], rd, rs1, c.Imm)
		regs[rs1] = a
	case "ld":
		inst = iType(riEnc[c.Op], rd, rs1, c.Imm)
		regs[rs1] = uint64(int64(dataAddr) - int64(c.Imm))
		pat := make([]byte, 8)
		for i := range pat {
			pat[i] = byte(c.A[i])
		}
		mem.Fill(dataAddr, pat)
	case "st":
		inst = sType(stEnc[c.Op], rs1, rs2, c.Imm)
		regs[rs1] = uint64(int64(dataAddr) - int64(c.Imm))
		regs[rs2] = b
		mem.Fill(dataAddr-8, []byte{0xEE, 0xEE, 0xEE, 0xEE, 0xEE, 0xEE, 0xEE, 0xEE, 0xEE, 0xEE, 0xEE, 0xEE, 0xEE, 0xEE, 0xEE, 0xEE, 0xEE, 0xEE, 0xEE, 0xEE, 0xEE, 0xEE, 0xEE, 0xEE})
	}
	var ib [8]byte
	binary.LittleEndian.PutUint32(ib[:4], inst)
	binary.LittleEndian.PutUint32(ib[4:], 0x00000013) // nop = addi x0, x0, 0
	mem.Fill(base, ib[:])
	bus := device.NewBus()
	bus.MapDevice(mem)
	cpu := riscv64.NewCPU()
	cpu.Reset(base, base+memSize-16)
	for r, v := range regs {
		cpu.SetXReg(int(r), v)
	}
	if err := cpu.StepRun(bus); err != nil {
		res.err = err.Error()
		return
	}
	res.pc = cpu.GetPC()
	if withNop && res.pc == base+4 {
		if err := cpu.StepRun(bus); err != nil {
			res.err = "nop: " + err.Error()
			return
		}
		res.pc = cpu.GetPC()
	}
	res.rd = cpu.GetXReg(int(rd))
	if c.Kind == "st" {
		for i := -8; i < 16; i++ {
			v, _ := bus.Read(uint64(dataAddr+i), 1)
			res.st = append(res.st, byte(v))
		}
	}
	return
}

func main() {
	f, err := os.Open(os.Args[1])
	if err != nil {
		fmt.Fprintln(os.Stderr, err)
		os.Exit(2)
	}
	out := bufio.NewWriter(os.Stdout)
	defer out.Flush()
	enc := json.NewEncoder(out)
	sc := bufio.NewScanner(f)
	sc.Buffer(make([]byte, 1<<20), 1<<24)
	n, bad, execs := 0, 0, 0
	perClass := map[string]int{}
	for sc.Scan() {
		js, ok := unescape(sc.Text())
		if !ok {
			continue
		}
		var c Case
		if err := json.Unmarshal([]byte(js), &c); err != nil {
			fmt.Fprintln(os.Stderr, err)
			os.Exit(2)
		}
		n++
		// variants: plain (rd=x10, rs1=x11, rs2=x12), rd aliases rs1, rd = x0 (read after a following nop)
		type variant struct {
			name         string
			rd, rs1, rs2 uint32
			nop          bool
		}
		vs := []variant{{"plain", 10, 11, 12, false}, {"rd=rs1", 11, 11, 12, false}, {"rd=x0", 0, 11, 12, true}}
		if c.Kind == "br" || c.Kind == "st" {
			vs = vs[:1]
		}
		if c.Kind == "jal" || c.Kind == "jalr" {
			vs = vs[:2] // x0 would have to be read after a step at the jump target, which holds no code here
		}
		for _, v := range vs {
			execs++
			r := runCase(&c, v.rd, v.rs1, v.rs2, v.nop)
			fail := ""
			wantPc := uint64(base) + le(c.Pc)
			if c.Abs {
				wantPc = le(c.Pc)
			}
			if v.nop && r.err == "" && wantPc == base+4 {
				wantPc = base + 8
			}
			wantRd := le(c.Rd)
			if c.Kind == "jal" || c.Kind == "jalr" {
				wantRd = base + 4
			}
			if c.Kind == "lui" && c.Op == "auipc" {
				wantRd += base
			}
			switch {
			case r.err != "":
				fail = "error: " + r.err
			case r.pc != wantPc:
				fail = fmt.Sprintf("pc = %#x, specified %#x", r.pc, wantPc)
			case v.rd == 0 && r.rd != 0:
				fail = fmt.Sprintf("x0 reads %#x after the instruction", r.rd)
			case v.rd != 0 && len(c.Rd) > 0 && r.rd != wantRd:
				fail = fmt.Sprintf("rd = %#x, specified %#x", r.rd, wantRd)
			case c.Kind == "st":
				for i := -8; i < 16; i++ {
					want := byte(0xEE)
					if i >= 0 && i < len(c.St) {
						want = byte(c.St[i])
					}
					if r.st[i+8] != want {
						fail = fmt.Sprintf("memory at data%+d = %#x, specified %#x", i, r.st[i+8], want)
						break
					}
				}
			}
			if fail != "" {
				bad++
				kind := "rd"
				switch {
				case strings.Contains(fail, "integer divide by zero"):
					kind = "panic-div0"
				case strings.Contains(fail, "unsupport"):
					kind = "unsupported"
				case strings.HasPrefix(fail, "error"):
					kind = "error"
				case strings.HasPrefix(fail, "pc"):
					kind = "pc"
				case strings.HasPrefix(fail, "x0"):
					kind = "x0"
				case strings.HasPrefix(fail, "memory"):
					kind = "mem"
				}
				key := c.Op + "/" + v.name + "/" + kind
				perClass[key]++
				if perClass[key] <= 3 {
					enc.Encode(map[string]interface{}{"fail": fail, "variant": v.name, "case": c})
				}
				break
			}
		}
	}
	enc.Encode(map[string]interface{}{"done": true, "n": n, "bad": bad, "execs": execs, "classes": perClass})
}
