-------------------------------- MODULE PcRel --------------------------------
(* C18: hi/lo splitting of PC-relative offsets (internal/native/pcrel).       *)
(* The CPU side is written from the architecture manuals on BV bit-vectors:   *)
(*   RISC-V    auipc rd, hi20 ; addi rd, rd, lo12                             *)
(*             rd = pc + sext((hi20 << 12) as 32 bits) + sext(lo12)           *)
(*   LoongArch pcalau12i rd, si20 ; addi.d rd, rd, si12                       *)
(*             rd = ((pc + sext(si20 << 12)) & ~0xFFF) + sext(si12)           *)
(* taking the emitted pair as instruction *fields* (20 and 12 bits).  The     *)
(* reference split is the unique pair whose recombination is exact.  TLC      *)
(* evaluates it on dense windows and boundary sets and checks exactness on    *)
(* the reference itself; the Go functions must return the same fields.        *)
EXTENDS BV, FiniteSets, Json
CONSTANTS Mode, Emit      \* "rv" | "la"

\* ---- RISC-V, 32-bit offsets ----
\* the reference split: lo = sign-extended low 12 bits, hi = (delta - lo) >> 12
RvLo(d) == SExtBits(BAnd(d, FromInt(4095, 32)), 12)
RvHi(d) == ShrS(Sub(d, RvLo(d)), 12)                       \* 32-bit value; the field is its low 20 bits
RvHiField(d) == BAnd(RvHi(d), FromInt(1048575, 32))
RvLoField(d) == BAnd(RvLo(d), FromInt(4095, 32))
\* what auipc+addi add to the pc, modulo 2^32
RvCpuOffset(hiField, loField) == Add(Shl(hiField, 12), SExtBits(loField, 12))
RvExact(d) == RvCpuOffset(RvHiField(d), RvLoField(d)) = d
RvLoInRange(d) == LET lo == RvLo(d) IN LeS(FromInt(-2048, 32), lo) /\ LeS(lo, FromInt(2047, 32))

\* ---- LoongArch, 64-bit pc and target ----
Page(pc) == BAnd(pc, BNot(FromInt(4095, 64)))
LaDelta(pc, t) == Sub(t, Page(pc))
LaLoField(pc, t) == BAnd(t, FromInt(4095, 64))              \* si12 field = target's page offset
LaHi(pc, t) == ShrS(Sub(LaDelta(pc, t), SExtBits(LaLoField(pc, t), 12)), 12)
LaHiField(pc, t) == BAnd(LaHi(pc, t), FromInt(1048575, 64))
LaCpu(pc, hiField, loField) ==
  Add(BAnd(Add(pc, SExtBits(Shl(hiField, 12), 32)), BNot(FromInt(4095, 64))), SExtBits(loField, 12))
LaExact(pc, t) == LaCpu(pc, LaHiField(pc, t), LaLoField(pc, t)) = t
\* the pair can express the target: delta - sext(lo12) fits si20 << 12
LaInRange(pc, t) == LET h == LaHi(pc, t) IN LeS(FromInt(-524288, 64), h) /\ LeS(h, FromInt(524287, 64))

\* ---- case spaces ----
Pow2(k) == Shl(One(32), k)
RvDeltas == { FromInt(n, 32) : n \in -4200..4200 }
            \cup UNION { { Add(Pow2(k), FromInt(j, 32)), Neg(Add(Pow2(k), FromInt(j, 32))) } : k \in 11..31, j \in -3..3 }
            \cup { MinS(32), MaxS(32), Add(MinS(32), FromInt(2047, 32)), Add(MinS(32), FromInt(2048, 32)),
                   Sub(MaxS(32), FromInt(2047, 32)), Sub(MaxS(32), FromInt(2048, 32)) }
Pow64(k) == Shl(One(64), k)
LaPcs == { Add(hi, FromInt(off, 64)) : hi \in { Zero(64), Pow64(31), Pow64(32), Add(Pow64(40), Pow64(12)), Pow64(63),
                                             Sub(Zero(64), Pow64(13)) },
                                       off \in {0, 4, 2044, 2048, 4092} }
LaOffsets == { FromInt(n, 64) : n \in {-4097, -4096, -4095, -2049, -2048, -2047, -1, 0, 1, 2047, 2048, 2049, 4095, 4096, 4097,
                                       65536, -65536, 1048576 + 2048, -1048576 - 2049} }
             \cup UNION { { Add(Pow64(k), FromInt(j, 64)), Neg(Add(Pow64(k), FromInt(j, 64))) } : k \in {20, 30}, j \in {-2049, -1, 0, 2047, 2048} }
             \cup { Sub(Pow64(31), FromInt(j, 64)) : j \in {2049, 2050, 4096, 6144} }
             \cup { Neg(Sub(Pow64(31), FromInt(j, 64))) : j \in {0, 1, 2048, 4096} }
LaCases == { <<pc, Add(Page(pc), o)>> : pc \in LaPcs, o \in LaOffsets }

VARIABLES case, done
vars == <<case, done>>
Init == /\ case \in (IF Mode = "rv" THEN { <<d>> : d \in RvDeltas } ELSE LaCases)
        /\ done = FALSE
\* (the work is done in Step, which TLC's workers evaluate in parallel; cases outside the
\* pcalau12i range are not in the property's domain and are dropped here)
Step == /\ ~done /\ done' = TRUE /\ UNCHANGED case
        /\ (Mode = "la" => LaInRange(case[1], case[2]))
        /\ (Emit => IF Mode = "rv"
              THEN PrintT(<<"T", ToJson([mode |-> "rv", delta |-> case[1], hi |-> RvHiField(case[1]), lo |-> RvLoField(case[1])])>>)
              ELSE PrintT(<<"T", ToJson([mode |-> "la", pc |-> case[1], target |-> case[2],
                                         hi |-> LaHiField(case[1], case[2]), lo |-> LaLoField(case[1], case[2])])>>))
Next == Step
\* exactness of the reference split (the property, on the specification side)
Exact == done => IF Mode = "rv" THEN RvExact(case[1]) /\ RvLoInRange(case[1]) ELSE LaExact(case[1], case[2])
=============================================================================
