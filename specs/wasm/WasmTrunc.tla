-------------------------------- MODULE WasmTrunc --------------------------------
(* The trapping float-to-integer conversions of WebAssembly (iNN.trunc_fMM_s/u):  *)
(* the operand is truncated toward zero; the result is defined when the truncated *)
(* value is representable in the target type, otherwise the instruction traps     *)
(* ("integer overflow"; "invalid conversion to integer" for NaN).                  *)
(* Operands are exact: sign, integer magnitude (a 72-bit bit-vector) and an        *)
(* optional half; only values that the source format represents exactly are used.  *)
EXTENDS Integers, Sequences, FiniteSets, TLC, Json, BV
CONSTANTS Emit
M == 72
Pow2(k) == Shl(One(M), k)
Minus(a, n) == Sub(a, FromInt(n, M))
Plus(a, n) == Add(a, FromInt(n, M))
\* magnitudes exactly representable in f64 (with or without a half) and in f32
F64Mags == {<<Zero(M), 0>>, <<Zero(M), 1>>, <<One(M), 1>>, <<Minus(Pow2(31), 1), 0>>, <<Minus(Pow2(31), 1), 1>>, <<Pow2(31), 0>>, <<Pow2(31), 1>>, <<Plus(Pow2(31), 1), 0>>,
            <<Minus(Pow2(32), 1), 0>>, <<Minus(Pow2(32), 1), 1>>, <<Pow2(32), 0>>, <<Pow2(32), 1>>, <<Pow2(53), 0>>, <<Minus(Pow2(63), 1024), 0>>, <<Pow2(63), 0>>,
            <<Plus(Pow2(63), 2048), 0>>, <<Minus(Pow2(64), 2048), 0>>, <<Pow2(64), 0>>}
F32Mags == {<<Zero(M), 0>>, <<Zero(M), 1>>, <<One(M), 1>>, <<Pow2(24), 0>>, <<Minus(Pow2(31), 128), 0>>, <<Pow2(31), 0>>, <<Plus(Pow2(31), 256), 0>>, <<Minus(Pow2(32), 256), 0>>,
            <<Pow2(32), 0>>, <<Sub(Pow2(63), Pow2(39)), 0>>, <<Pow2(63), 0>>, <<Add(Pow2(63), Pow2(40)), 0>>, <<Sub(Pow2(64), Pow2(40)), 0>>, <<Pow2(64), 0>>}
Ops == {<<"i32.trunc_f64_s", 32, "s", 64>>, <<"i32.trunc_f64_u", 32, "u", 64>>, <<"i64.trunc_f64_s", 64, "s", 64>>, <<"i64.trunc_f64_u", 64, "u", 64>>,
        <<"i32.trunc_f32_s", 32, "s", 32>>, <<"i32.trunc_f32_u", 32, "u", 32>>, <<"i64.trunc_f32_s", 64, "s", 32>>, <<"i64.trunc_f32_u", 64, "u", 32>>}
\* the truncated value is neg * m; is it representable, and as which bit pattern
InRange(op, neg, m) == IF op[3] = "s" THEN (IF neg THEN LeU(m, Pow2(op[2] - 1)) ELSE LtU(m, Pow2(op[2] - 1)))
                       ELSE (IF neg THEN m = Zero(M) ELSE LtU(m, Pow2(op[2])))
Pattern(op, neg, m) == LET w == Trunc(m, op[2]) IN IF neg THEN Neg(w) ELSE w
Cases == {<<op, neg, mh>> : op \in Ops, neg \in BOOLEAN, mh \in F64Mags \cup F32Mags}
VARIABLES c, special, done
Init == /\ done = FALSE
        /\ \/ c \in {k \in Cases : k[3] \in (IF k[1][4] = 64 THEN F64Mags ELSE F32Mags)} /\ special = ""
           \/ c \in {<<op, neg, <<Zero(M), 0>>>> : op \in Ops, neg \in BOOLEAN} /\ special \in {"nan", "inf"}
Next == /\ ~done /\ done' = TRUE /\ UNCHANGED <<c, special>>
        /\ LET op == c[1]  neg == c[2]  m == c[3][1]
               ok == special = "" /\ InRange(op, neg, m)
           IN Emit => PrintT(<<"T", ToJson([kind |-> "ftrunc", op |-> op[1], w |-> op[2], neg |-> neg, a |-> m, half |-> c[3][2], special |-> special,
                                             trap |-> IF ok THEN "" ELSE IF special = "nan" THEN "invalid conversion to integer" ELSE "integer overflow",
                                             r |-> IF ok THEN Pattern(op, neg, m) ELSE Zero(op[2])])>>)
Known == /\ InRange(<<"i32.trunc_f64_s", 32, "s", 64>>, TRUE, Pow2(31)) /\ ~InRange(<<"i32.trunc_f64_s", 32, "s", 64>>, FALSE, Pow2(31))
         /\ ~InRange(<<"i32.trunc_f64_s", 32, "s", 64>>, TRUE, Plus(Pow2(31), 1)) /\ InRange(<<"i32.trunc_f64_u", 32, "u", 64>>, FALSE, Minus(Pow2(32), 1))
         /\ InRange(<<"i64.trunc_f64_u", 64, "u", 64>>, TRUE, Zero(M)) /\ Pattern(<<"i32.trunc_f64_s", 32, "s", 64>>, TRUE, One(M)) = <<255, 255, 255, 255>>
=============================================================================
