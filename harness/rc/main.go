// Harness for C11 / C12: compiles a Wa program with the real compiler, rewrites the produced
// WAT so that $runtime.HeapAlloc / HeapFree / Block.Retain / Block.Release (and the program's
// own checkpoint function) call host functions, assembles it with Wa's assembler, runs it on
// the embedded engine and logs every event.  With -poison the host overwrites the payload of
// every block with 0xDB at the moment it is freed.
//
//	rc run [-poison] <file.wa>      -> ndjson events on stdout; the last line carries the program's output
package main

import (
	"bufio"
	"context"
	"encoding/json"
	"flag"
	"fmt"
	"os"
	"regexp"
	"strings"

	"wa-lang.org/wa/api"
	w3 "wa-lang.org/wa/internal/3rdparty/wazero"
	wapi "wa-lang.org/wa/internal/3rdparty/wazero/api"
	"wa-lang.org/wa/internal/wat/watutil"
	"wa-lang.org/wa/internal/wazero"
)

const wrappers = `
(func $runtime.HeapAlloc (param $n i32) (result i32)
	(local $p i32)
	local.get $n
	call $runtime.HeapAlloc.orig
	local.set $p
	local.get $p
	local.get $n
	call $verif.alloc
	local.get $p
)
(func $runtime.HeapFree (param $p i32)
	local.get $p
	call $verif.free
	local.get $p
	call $runtime.HeapFree.orig
)
(func $runtime.Block.Retain (param $p i32) (result i32)
	local.get $p
	call $verif.retain
	local.get $p
	call $runtime.Block.Retain.orig
)
(func $runtime.Block.Release (param $p i32)
	local.get $p
	call $verif.release
	local.get $p
	call $runtime.Block.Release.orig
)
`

const imports = `(import "verif" "alloc" (func $verif.alloc (param i32) (param i32)))
(import "verif" "free" (func $verif.free (param i32)))
(import "verif" "retain" (func $verif.retain (param i32)))
(import "verif" "release" (func $verif.release (param i32)))
(import "verif" "checkpoint" (func $verif.checkpoint (param i32)))
`

func rewrite(wat string) (string, error) {
	heads := []struct{ old, new string }{
		{`(func $runtime.HeapAlloc (export "runtime.HeapAlloc") (param $nbytes i32) (result i32)`, `(func $runtime.HeapAlloc.orig (param $nbytes i32) (result i32)`},
		{`(func $runtime.HeapFree (export "runtime.HeapFree") (param $ptr i32)`, `(func $runtime.HeapFree.orig (param $ptr i32)`},
		{`(func $runtime.Block.Retain (export "runtime.Block.Retain") (param $ptr i32) (result i32)`, `(func $runtime.Block.Retain.orig (param $ptr i32) (result i32)`},
		{`(func $runtime.Block.Release (export "runtime.Block.Release") (param $ptr i32)`, `(func $runtime.Block.Release.orig (param $ptr i32)`},
	}
	for _, h := range heads {
		if strings.Count(wat, h.old) != 1 {
			return "", fmt.Errorf("runtime function header not found exactly once: %s", h.old)
		}
		wat = strings.Replace(wat, h.old, h.new, 1)
	}
	// the program's checkpoint function reports to the host
	re := regexp.MustCompile(`\(func \$[^\s()]*\.checkpoint \(param \$k i32\)\n`)
	if loc := re.FindStringIndex(wat); loc != nil {
		at := loc[1]
		for { // local declarations come first
			nl := strings.Index(wat[at:], "\n")
			if nl < 0 || !strings.HasPrefix(strings.TrimSpace(wat[at:at+nl]), "(local ") {
				break
			}
			at += nl + 1
		}
		wat = wat[:at] + "  local.get $k\n  call $verif.checkpoint\n" + wat[at:]
	}
	nl := strings.Index(wat, "\n")
	wat = wat[:nl+1] + imports + wat[nl+1:]
	end := strings.LastIndex(wat, ")")
	wat = wat[:end] + wrappers + wat[end:]
	return wat, nil
}

func main() {
	fs := flag.NewFlagSet("run", flag.ExitOnError)
	poison := fs.Bool("poison", false, "")
	if len(os.Args) < 3 || os.Args[1] != "run" {
		os.Exit(2)
	}
	fs.Parse(os.Args[2:])
	file := fs.Arg(0)
	src, err := os.ReadFile(file)
	must(err)
	mainFn, watBytes, fset, err := api.BuildFile(api.DefaultConfig(), file, string(src))
	if err != nil {
		fmt.Println(`{"ev":"compile_error","msg":` + jsonStr(err.Error()) + `}`)
		return
	}
	wat, err := rewrite(string(watBytes))
	must(err)
	wasm, err := watutil.Wat2Wasm(file, []byte(wat))
	must(err)
	m, err := wazero.BuildModule(file, wasm, fset)
	must(err)
	defer m.Close()
	rt := wazero.VerifRuntime(m)
	out := bufio.NewWriterSize(os.Stdout, 1<<20)
	defer out.Flush()
	enc := json.NewEncoder(out)
	ctx := context.Background()
	rd32 := func(mod wapi.Module, a uint32) uint32 {
		v, _ := mod.Memory().ReadUint32Le(ctx, a)
		return v
	}
	b := rt.NewHostModuleBuilder("verif")
	b = b.NewFunctionBuilder().WithFunc(func(ctx context.Context, mod wapi.Module, p, n uint32) {
		zero := true
		if p != 0 {
			buf, ok := mod.Memory().Read(ctx, p, (n+7)/8*8)
			if ok {
				for _, x := range buf {
					if x != 0 {
						zero = false
						break
					}
				}
			}
		}
		enc.Encode(map[string]interface{}{"ev": "alloc", "p": p, "n": n, "zero": zero})
	}).Export("alloc")
	b = b.NewFunctionBuilder().WithFunc(func(ctx context.Context, mod wapi.Module, p uint32) {
		size := uint32(0)
		if p >= 8 {
			size = rd32(mod, p-8)
		}
		enc.Encode(map[string]interface{}{"ev": "free", "p": p, "rc": rd32(mod, p), "size": size})
		if *poison && p != 0 && size > 0 && size < 1<<24 {
			// the block is dead: the allocator only uses the 8 bytes *before* the payload
			buf := make([]byte, size)
			for i := range buf {
				buf[i] = 0xDB
			}
			mod.Memory().Write(ctx, p, buf)
		}
	}).Export("free")
	b = b.NewFunctionBuilder().WithFunc(func(ctx context.Context, mod wapi.Module, p uint32) {
		if p != 0 {
			enc.Encode(map[string]interface{}{"ev": "retain", "p": p, "rc": rd32(mod, p)})
		}
	}).Export("retain")
	b = b.NewFunctionBuilder().WithFunc(func(ctx context.Context, mod wapi.Module, p uint32) {
		if p != 0 {
			enc.Encode(map[string]interface{}{"ev": "release", "p": p, "rc": rd32(mod, p)})
		}
	}).Export("release")
	b = b.NewFunctionBuilder().WithFunc(func(ctx context.Context, mod wapi.Module, k uint32) {
		enc.Encode(map[string]interface{}{"ev": "checkpoint", "k": k})
	}).Export("checkpoint")
	_, err = b.Instantiate(ctx, rt)
	must(err)
	stdout, stderr, err := m.RunMain(mainFn)
	res := map[string]interface{}{"ev": "exit", "stdout": string(stdout), "stderr": string(stderr), "error": ""}
	if err != nil {
		res["error"] = strings.Split(err.Error(), "\n")[0]
	}
	enc.Encode(res)
	_ = w3.NewModuleConfig
}

func jsonStr(s string) string { b, _ := json.Marshal(s); return string(b) }

func must(err error) {
	if err != nil {
		fmt.Fprintln(os.Stderr, "harness error:", err)
		os.Exit(2)
	}
}
