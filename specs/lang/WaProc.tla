-------------------------------- MODULE WaProc --------------------------------
(* C01: value and reference semantics inside one function body, and defer.      *)
(* A program is a sequence of statement atoms over the variables                *)
(*   x, y: int   s, t: S (a struct with one int field)   a, b: [2]int           *)
(* Assignment of structs and arrays copies; a pointer, a slice of an array, a   *)
(* closure and a pointer-receiver method share the variable; a function taking  *)
(* the struct by value does not.  `defer f(x)` evaluates x at the defer         *)
(* statement; a deferred closure sees the variables as they are when it runs;   *)
(* deferred calls run last-in first-out after the return value has been stored  *)
(* in the named result, which a deferred closure may still change.              *)
(* The specification is an interpreter for these atoms; TLC enumerates all      *)
(* programs up to MaxLen and emits the lines each one prints.                   *)
EXTENDS Integers, Sequences, FiniteSets, TLC, Json
CONSTANTS Emit, MaxLen
Atoms == {"x++", "y=x*2", "print", "defer-val", "defer-clo", "closure-add", "copy-struct", "ptr-method", "val-func", "copy-array", "ptr-store", "field-store", "slice-alias",
          "defer-dbl", "defer-res"}
St0 == [x |-> 1, y |-> 0, sv |-> 0, tv |-> 0, a0 |-> 0, a1 |-> 0, b0 |-> 0, defers |-> <<>>, out |-> <<>>]
\* the effect of one atom; out collects the printed lines (each a sequence of integers)
Step(st, at) ==
  CASE at = "x++"          -> [st EXCEPT !.x = st.x + 1]
    [] at = "y=x*2"        -> [st EXCEPT !.y = st.x * 2]
    [] at = "print"        -> [st EXCEPT !.out = Append(st.out, <<st.x, st.y>>)]
    [] at = "defer-val"    -> [st EXCEPT !.defers = Append(st.defers, [k |-> "val", v |-> st.x])]      \* defer println(x)
    [] at = "defer-clo"    -> [st EXCEPT !.defers = Append(st.defers, [k |-> "clo", v |-> 0])]         \* defer func() { println(x) }()
    [] at = "closure-add"  -> [st EXCEPT !.x = st.x + 10]                                             \* f := func() { x += 10 }; f()
    [] at = "copy-struct"  -> [st EXCEPT !.tv = st.sv + 1, !.out = Append(st.out, <<st.sv, st.sv + 1>>)] \* t = s; t.v++; println(s.v, t.v)
    [] at = "ptr-method"   -> [st EXCEPT !.sv = st.sv + 1]                                            \* s.Inc()
    [] at = "val-func"     -> [st EXCEPT !.y = st.sv + 1]                                             \* y = incCopy(s)   (s unchanged)
    [] at = "copy-array"   -> [st EXCEPT !.b0 = st.x, !.out = Append(st.out, <<st.a0, st.x>>)]        \* b = a; b[0] = x; println(a[0], b[0])
    [] at = "ptr-store"    -> [st EXCEPT !.x = st.y]                                                  \* p := &x; *p = y
    [] at = "field-store"  -> [st EXCEPT !.sv = st.x]                                                 \* s.v = x
    [] at = "slice-alias"  -> [st EXCEPT !.a1 = st.x]                                                 \* sl := a[:]; sl[1] = x
    [] at = "defer-dbl"    -> [st EXCEPT !.defers = Append(st.defers, [k |-> "dbl", v |-> 0])]         \* defer func() { x *= 2 }()
    [] at = "defer-res"    -> [st EXCEPT !.defers = Append(st.defers, [k |-> "res", v |-> 0])]         \* defer func() { r += x }()
RECURSIVE Run(_, _)
Run(st, prog) == IF prog = <<>> THEN st ELSE Run(Step(st, Head(prog)), Tail(prog))
\* after `return x + y`: r holds the value, then the deferred calls run in reverse order
RECURSIVE Unwind(_, _, _, _)
Unwind(ds, x, r, out) == IF ds = <<>> THEN Append(out, <<r>>)
                         ELSE LET d == ds[Len(ds)]  rest == SubSeq(ds, 1, Len(ds) - 1) IN
                              CASE d.k = "val" -> Unwind(rest, x, r, Append(out, <<d.v>>))
                                [] d.k = "clo" -> Unwind(rest, x, r, Append(out, <<x>>))
                                [] d.k = "dbl" -> Unwind(rest, 2 * x, r, out)
                                [] d.k = "res" -> Unwind(rest, x, r + x, out)
Output(prog) == LET st == Run(St0, prog)
                    fin == Append(st.out, <<st.x, st.y, st.sv, st.tv, st.a0, st.a1, st.b0>>)
                IN Unwind(st.defers, st.x, st.x + st.y, fin)     \* the last line is what the caller prints: the result
Progs == UNION {[1..n -> Atoms] : n \in 1..MaxLen}
VARIABLES prog, done
Init == prog \in Progs /\ done = FALSE
Next == ~done /\ done' = TRUE /\ UNCHANGED prog /\ (Emit => PrintT(<<"T", ToJson([prog |-> prog, out |-> Output(prog)])>>))
\* the example worked out by hand (and run in Go): prints 0 1 / 0 11 / 2 2 1 1 0 2 11 / 4 / 1 / 6
Known == Output(<<"defer-val", "defer-clo", "closure-add", "copy-struct", "ptr-method", "val-func", "copy-array", "ptr-store", "slice-alias", "defer-dbl", "defer-res">>)
         = <<<<0, 1>>, <<0, 11>>, <<2, 2, 1, 1, 0, 2, 11>>, <<4>>, <<1>>, <<6>>>>
=============================================================================
