// Independent engine (V8): runs cases.json against module.wasm, prints mismatches as JSON lines.
const fs = require('fs'), path = require('path');
const dir = process.argv[2];
const cases = JSON.parse(fs.readFileSync(path.join(dir, 'cases.json')));
const bytes = fs.readFileSync(path.join(dir, 'module.wasm'));
if (!WebAssembly.validate(bytes)) { console.log(JSON.stringify({invalid: true})); process.exit(0); }
const inst = new WebAssembly.Instance(new WebAssembly.Module(bytes), {});
let bad = 0;
cases.forEach((c, i) => {
  const f = inst.exports[c.fn];
  const args = c.args.map((a, k) => c.argty[k] === 'i64' ? BigInt.asIntN(64, BigInt(a)) : (Number(a) | 0));
  let got = '', trap = '';
  try {
    const r = f(...args);
    got = c.resty === 'i64' ? BigInt.asUintN(64, r).toString() : (r >>> 0).toString();
  } catch (e) { trap = String(e.message || e); }
  const ok = (c.trap === '' && trap === '' && got === c.want) || (c.trap !== '' && trap !== '');
  if (!ok) { bad++; if (bad <= 60) console.log(JSON.stringify({engine: 'v8', i, case: c, got, trap})); }
});
console.log(JSON.stringify({engine: 'v8', done: true, n: cases.length, bad}));
