CONSTANTS
  Emit = TRUE
  MaxLen = 3
INIT Init
NEXT Next
INVARIANT Known
