"""C02 -- native x86-64 executables behave like the WebAssembly build.
Part 1 (instruction level): the hub module of WasmNum.tla (C31/C03/C04) is translated by
wat2x64, assembled and linked with gcc exactly as `wa native build` does, and every case is
executed natively; values and trap/no-trap outcomes are compared with the TLC-specified ones.
Part 2 (program level): the integer-kernel programs of WaInt.tla are built with
`wa native build --arch x64 --target linux` and with the WebAssembly backend; output and
exit status must agree (and equal the specification)."""
import json
import os
import re
import subprocess

import common
import hub
import kernel
from common import MachineryError

LEVEL = "model_checking"

IMPORTS = ('\t(import "syscall_linux" "print_i64" (func $verif.print_i64 (param i64)))\n'
           '\t(import "syscall_linux" "print_rune" (func $verif.print_rune (param i32)))\n')
GCC = ["gcc", "-static", "-z", "noexecstack", "-nostdlib"]


def signed(v, bits):
    v &= (1 << bits) - 1
    return v - (1 << bits) if v >> (bits - 1) else v


def call_text(i, c):
    """WAT that prints `<i> <result as signed i64>`"""
    t = ["\t\ti64.const %d" % i, "\t\tcall $verif.print_i64", "\t\ti32.const 32", "\t\tcall $verif.print_rune"]
    for a, ty in zip(c["args"], c["argty"]):
        t.append("\t\t%s.const %d" % (ty, signed(int(a), 32 if ty == "i32" else 64)))
    t.append("\t\tcall $%s" % c["fn"])
    if c["resty"] == "i32":
        t.append("\t\ti64.extend_i32_u")
    t += ["\t\tcall $verif.print_i64", "\t\ti32.const 10", "\t\tcall $verif.print_rune"]
    return "\n".join(t) + "\n"


def split_module(text):
    """-> (header lines up to the first func, {fn name: func text})"""
    parts = re.split(r"\n(?=\t\(func \$)", text.rstrip().rstrip(")"))
    head = parts[0]
    funcs = {}
    for p in parts[1:]:
        m = re.match(r"\t\(func \$([^\s()]+)", p)
        funcs[m.group(1)] = p
    return head, funcs


def native_wat(head, funcs, picks):
    """a module with the given functions, the print imports and a _start that runs the picked (index, case) pairs"""
    first, rest = head.split("\n", 1)
    body = "".join(call_text(i, c) for i, c in picks)
    return (first + "\n" + IMPORTS + rest + "\n" + "\n".join(funcs) + "\n\t(func $verif.main (export \"_start\")\n" + body + "\t)\n)\n")


def build_native(h, d, name, wat):
    w = os.path.join(d, name + ".wat")
    open(w, "w").write(wat)
    rc, so, se, to = common.run_child([h, "wat2x64", w, os.path.join(d, name + ".s")], timeout=300)
    if rc != 0:
        return None, "wat2x64: " + (so + se)[-400:]
    p = subprocess.run(GCC + [name + ".s", "-o", name + ".exe"], cwd=d, capture_output=True, text=True, timeout=600)
    if p.returncode != 0:
        return None, "gcc: " + p.stderr[-400:]
    os.unlink(os.path.join(d, name + ".s"))
    return os.path.join(d, name + ".exe"), ""


def part_wat(chk, thorough):
    h = common.go_build("native")
    b, out, cases, prep = hub.prepare(chk, thorough)
    head, funcs = split_module(open(os.path.join(out, "module.wat")).read())
    mod = [(i, c) for i, c in enumerate(cases) if c["mod"] == "module" and c["fn"] in funcs]
    plain = [(i, c) for i, c in mod if not c["trap"]]
    traps = [(i, c) for i, c in mod if c["trap"]]
    d = common.subdir("c02")
    # every non-trapping case, in executables of 1500 cases (all functions are in each)
    chunks = list(common.chunks(plain, 1500))

    def job(kc):
        k, chunk = kc
        exe, err = build_native(h, d, "m%d" % k, native_wat(head, funcs.values(), chunk))
        if exe is None:
            return chunk, None, err
        rc, so, se, to = common.run_child([exe], timeout=300)
        os.unlink(exe)
        return chunk, (rc, so, to), ""
    for chunk, res, err in common.parallel(job, list(enumerate(chunks))):
        if res is None:
            chk.report("C02:does-not-build:hub", "the native toolchain rejects the hub module: " + err[:300], {"error": err})
            continue
        rc, so, to = res
        got = {}
        for l in so.splitlines():
            t = l.split()
            if len(t) == 2 and t[0].isdigit():
                got[int(t[0])] = t[1]
        for i, c in chunk:
            chk.add("traces_validated_against_impl", 1)
            bits = 32 if c["resty"] == "i32" else 64
            want = str(int(c["want"]) & ((1 << bits) - 1) if bits == 32 else signed(int(c["want"]), 64))
            if i not in got:
                # the executable stopped at or before this case: only the first missing one is the culprit
                chk.report("C02:%s:%s" % ("hang" if to else "spurious-crash", hub.case_key(c)),
                           "native: %s(%s) ends the process (status %s); specified %s" % (c["fn"], ", ".join(c["args"]), rc, c["want"]), {"case": c, "status": rc})
                break
            if got[i] != want:
                chk.report("C02:value:%s" % hub.case_key(c), "native: %s(%s) = %s; specified %s" % (c["fn"], ", ".join(c["args"]), got[i], want), {"case": c, "got": got[i]})
    # trapping cases: one small executable each; one per function (three in thorough)
    per_fn = {}
    for i, c in traps:
        per_fn.setdefault(c["fn"], []).append((i, c))
    picked = []
    for fn in sorted(per_fn):
        picked += per_fn[fn][:3 if thorough else 1]
    if not thorough:
        picked = picked[::max(1, len(picked) // 64)]

    def tjob(ic):
        i, c = ic
        exe, err = build_native(h, d, "t%d" % i, native_wat(head, [funcs[c["fn"]]], [(i, c)]))
        if exe is None:
            return ic, None, err
        rc, so, se, to = common.run_child([exe], timeout=60)
        os.unlink(exe)
        return ic, (rc, so, to), ""
    for (i, c), res, err in common.parallel(tjob, picked):
        if res is None:
            raise MachineryError("trap executable does not build: " + err)
        rc, so, to = res
        chk.add("traces_validated_against_impl", 1)
        printed = len(so.split()) >= 2
        if rc == 0 or printed:
            chk.report("C02:no-trap:%s" % hub.case_key(c), "native: %s(%s) returns %s (status %s); the WebAssembly semantics is a trap (%s)" % (
                c["fn"], ", ".join(c["args"]), (so.split() or ["?", "nothing"])[-1], rc, c["trap"]), {"case": c, "status": rc, "stdout": so[:100]})
    chk.cov["wat_cases"] = len(plain)
    chk.cov["wat_trap_cases"] = len(picked)
    chk.sample(plain[0][1])
    chk.sample(picked[0][1])


def part_wa(chk, thorough):
    wa = common.build_wa()
    types = kernel.ALL_TYPES if thorough else ["i32", "u8", "i64"]
    cs = [c for c in kernel.cases_from_tlc(chk, types, "WaInt cases %s" % types) if c["rt"] != "panic"]

    def traps(c):
        # cases on which the WebAssembly build itself stops (C01's open findings) cannot be compared by output
        a, bb = kernel.val(c["a"], c["signed"]), kernel.val(c["b"], c["signed"])
        return c["kind"] == "arith" and c["op"] in ("/", "%") and c["signed"] and a == -(1 << (c["w"] - 1)) and bb == -1
    batches = list(common.chunks(cs, 2500))
    d = common.subdir("c02w")

    def job(ib):
        i, batch = ib
        f = os.path.join(d, "k%d.wa" % i)
        open(f, "w").write(kernel.program(batch, False))
        exe = os.path.join(d, "k%d.exe" % i)
        r1 = common.run_child([wa, "native", "build", "--arch", "x64", "--target", "linux", "-o", exe, f], timeout=600, cwd=d)
        if r1[0] != 0 or not os.path.exists(exe):
            return batch, ("build", (r1[1] + r1[2])[-400:]), None
        rn = common.run_child([exe], timeout=120, cwd=d)
        rw = common.run_child([wa, "run", f], timeout=120, cwd=d)
        for x in (exe, exe + ".s"):
            if os.path.exists(x):
                os.unlink(x)
        return batch, rn, rw
    for batch, rn, rw in common.parallel(job, list(enumerate(batches))):
        if rw is None:
            chk.report("C02:does-not-build:kernel-program", "`wa native build --arch x64` fails on a kernel program: " + rn[1][:300], {"error": rn[1]})
            continue
        ln, lw = rn[1].splitlines(), rw[1].splitlines()
        for k, c in enumerate(batch):
            chk.add("traces_validated_against_impl", 1)
            want = kernel.expected_rt(c, kernel.SIGNED)
            g = ln[k].strip() if k < len(ln) else None
            w = lw[k].strip() if k < len(lw) else None
            if g != w:
                chk.report("C02:program-output:%s:%s" % (c["t"], kernel.OPNAME.get(c["op"], c["op"])),
                           "%s: the native executable prints %s, the WebAssembly build prints %s (specified %s)" % (kernel.call(c), g, w, want), {"case": c, "native": g, "wasm": w})
                if g is None or w is None:
                    break
        if rn[0] != rw[0]:
            chk.report("C02:program-status", "exit status differs: native %s, WebAssembly build %s" % (rn[0], rw[0]), {"native": rn[0], "wasm": rw[0], "stderr": rn[2][-200:]})
    chk.cov["program_cases"] = len(cs)


def run(chk):
    thorough = chk.tier == "thorough"
    chk.assume("integer subset: the hub's numeric, conversion, memory and constant cases (no floating point, no control-flow cases beyond calls) and the integer kernel programs; "
               "a WebAssembly trap corresponds to abnormal termination of the executable; trapping cases are run one per function (three in thorough), each in its own executable; "
               "the two builds are compared with each other and with the specification")
    part_wat(chk, thorough)
    part_wa(chk, thorough)
    chk.cov["exhaustive"] = True
    chk.cov["explanation"] = ("every non-trapping hub case executed in native executables produced by wat2x64 + gcc (the `wa native build` pipeline); every integer-kernel case "
                              "executed in a natively built Wa program and in the WebAssembly build of the same program")


def replay(chk, path):
    run(chk)
