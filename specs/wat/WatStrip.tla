------------------------------ MODULE WatStrip ------------------------------
(* C06: dead-code stripping of WebAssembly text modules (watstrip).           *)
(* A module is a call graph: functions 1..N (function 1 may be an import),    *)
(* call sites with a placement (top level, inside a block, inside the else    *)
(* arm of an if, after an unconditional return), exported functions, table    *)
(* entries reached through call_indirect, and an optional start function.     *)
(* Contract: stripping keeps exactly the functions reachable from the roots   *)
(* (every call site is a reference, also a dead one - the module must stay    *)
(* valid), and every root behaves as before.  The marking pass of DoPass is   *)
(* transcribed as a worklist machine and checked against the fixed point.     *)
EXTENDS Integers, Sequences, FiniteSets, TLC, Json
CONSTANTS N, Emit, ExportSets, ElemSets, StartSet, ImportSet

F == 1..N
Placement(i, j) == (i + 2 * j) % 4        \* 0 top, 1 in block, 2 in else arm, 3 after return (dead)

VARIABLES calls,     \* set of <<caller, callee>>
          imported,  \* function 1 is an import
          exports, elems, start,   \* roots (start = 0: none; k: a start function that calls k)
          marked, work, phase
vars == <<calls, imported, exports, elems, start, marked, work, phase>>

Defined == IF imported THEN F \ {1} ELSE F
Roots == exports \cup elems \cup (IF start = 0 THEN {} ELSE {start})

\* reference semantics: least fixed point
RECURSIVE Closure(_)
Closure(S) == LET T == S \cup { c[2] : c \in { x \in calls : x[1] \in S } } IN IF T = S THEN S ELSE Closure(T)
Reach == Closure(Roots)

\* value of function i called with fuel d: 2^i plus the values of its live callees
RECURSIVE Val(_, _)
Callees(i) == { c[2] : c \in { x \in calls : x[1] = i /\ Placement(x[1], x[2]) # 3 } }
RECURSIVE SumVals(_, _)
SumVals(S, d) == IF S = {} THEN 0 ELSE LET j == CHOOSE x \in S : TRUE IN Val(j, d) + SumVals(S \ {j}, d)
Val(i, d) == (2 ^ i) + (IF d > 0 /\ ~(imported /\ i = 1) THEN SumVals(Callees(i), d - 1) ELSE 0)

Init == /\ calls \in SUBSET (F \X F)
        /\ imported \in ImportSet
        /\ (imported => \A c \in calls : c[1] # 1)              \* an import has no body
        /\ exports \in ExportSets /\ elems \in ElemSets /\ start \in StartSet
        /\ (imported => 1 \notin exports \cup elems /\ start # 1)   \* roots are defined functions here
        /\ marked = {} /\ work = << >> /\ phase = "roots"

\* ---- DoPass transcribed: roots are taken from the *defined* functions, marking recurses ----
SeedRoots == /\ phase = "roots"
             /\ work' = LET S == Roots \cap Defined IN [i \in 1..Cardinality(S) |-> CHOOSE x \in S : Cardinality({y \in S : y < x}) = i - 1]
             /\ phase' = "mark" /\ UNCHANGED <<calls, imported, exports, elems, start, marked>>
MarkOne == /\ phase = "mark" /\ work # << >>
           /\ LET fn == Head(work) IN
              IF fn \in marked THEN /\ work' = Tail(work) /\ marked' = marked
              ELSE /\ marked' = marked \cup {fn}
                   /\ work' = LET S == { c[2] : c \in { x \in calls : x[1] = fn } } \ (marked \cup {fn})
                              IN [i \in 1..Cardinality(S) |-> CHOOSE x \in S : Cardinality({y \in S : y < x}) = i - 1] \o Tail(work)
           /\ UNCHANGED <<calls, imported, exports, elems, start, phase>>
Done == /\ phase = "mark" /\ work = << >>
        /\ phase' = "done"
        /\ (Emit => PrintT(<<"T", ToJson([n |-> N, calls |-> calls, imported |-> imported, exports |-> exports, elems |-> elems,
                                          start |-> start, keep |-> Reach, predicted |-> marked,
                                          vals |-> [i \in F |-> Val(i, 2)]])>>))
        /\ UNCHANGED <<calls, imported, exports, elems, start, marked, work>>
Next == SeedRoots \/ MarkOne \/ Done

\* the marking pass computes the fixed point
MarkIsReach == phase = "done" => marked = Reach
View == <<calls, imported, exports, elems, start, marked, work, phase>>
=============================================================================
