"""C24 -- build-tag expressions: BuildTag.tla (grammar recogniser, Boolean evaluation,
minimal-parenthesis printing); TLC enumerates every token string up to the bound and
checks print/parse closure on the reference; the real buildtag.Parse / Eval / String are
run on every string; file inclusion is checked through the real loader on generated
modules."""
import json
import os

import common
from common import MachineryError

LEVEL = "model_checking"
NOTPAREN = "TRUE"     # String() on this tree parenthesises a negated negation (fix: commit)


def cfg(maxlen, emit):
    return """CONSTANTS
  MaxLen = %d
  Emit = %s
  NotParen = %s
INIT Init
NEXT Next
INVARIANTS Closed
""" % (maxlen, "TRUE" if emit else "FALSE", NOTPAREN)


def key_of(l):
    c = l["case"]
    shape = "".join("t" if t in ("a", "b", "c") else t for t in c["toks"])
    if l["fail"].startswith("reparse") and "!(!" in shape.replace(" ", ""):
        shape = "double-negation"
    elif len(shape) > 12:
        shape = shape[:12]
    return "C24:%s:%s" % (l["fail"], shape)


INCL_EXPRS = [("a", ["a"]), ("!a", ["!", "a"]), ("a && b", None), ("a || b", None), ("!(a || b)", None),
              ("linux", None), ("wasm", None), ("!wasm && a", None), ("(a || b) && !c", None), ("js || wasi || a", None)]


def tokenize(e):
    out, i = [], 0
    while i < len(e):
        if e[i] == " ":
            i += 1
        elif e[i:i + 2] in ("&&", "||"):
            out.append(e[i:i + 2])
            i += 2
        else:
            out.append(e[i])
            i += 1
    return out


ASSIGN = [[], ["a"], ["b"], ["a", "b"], ["c"], ["a", "c"], ["b", "c"], ["a", "b", "c"]]


def inclusion(chk, wa, ttmap):
    """A source file of a non-main package is included iff its constraint holds for the
    configured tags: module with main + package sub, one file per constraint, observed
    through which functions exist (each file defines one function; main calls it through
    a per-file generated program)."""
    import itertools
    d = common.subdir("c24mod")
    n = 0
    exprs = [e for e in ["a", "!a", "a && b", "a || b", "!(a || b)", "!(!a)", "!a && !b", "a && !c", "a || !b"] if tuple(tokenize(e)) in ttmap]
    tagsets = [[], ["a"], ["b"], ["a", "b"], ["c"], ["a", "c"], ["a", "b", "c"]]

    def truth(e, on):
        # the truth table TLC computed for this very token string (BuildTag.tla Eval)
        tt = ttmap.get(tuple(tokenize(e)))
        if tt is None:
            raise MachineryError("no TLC truth table for %r" % e)
        return bool(tt[ASSIGN.index(sorted(on))])
    jobs = []
    for i, e in enumerate(exprs):
        mod = os.path.join(d, "m%d" % i)
        os.makedirs(os.path.join(mod, "src", "sub"), exist_ok=True)
        open(os.path.join(mod, "wa.mod"), "w").write('name = "m%d"\npkgpath = "m%d"\n' % (i, i))
        open(os.path.join(mod, "src", "main.wa"), "w").write('import "m%d/sub"\n\nfunc main {\n\tprintln(sub.Which())\n}\n' % i)
        open(os.path.join(mod, "src", "sub", "yes.wa"), "w").write('#wa:build %s\n\nfunc Which() => string {\n\treturn "included"\n}\n' % e)
        neg = "!(%s)" % e
        open(os.path.join(mod, "src", "sub", "no.wa"), "w").write('#wa:build %s\n\nfunc Which() => string {\n\treturn "excluded"\n}\n' % neg)
        for on in tagsets:
            jobs.append((e, mod, on))

    def job(j):
        e, mod, on = j
        args = [wa, "run"] + (["-tags=" + " ".join(on)] if on else []) + ["."]
        rc, so, se, to = common.run_child(args, timeout=60, cwd=mod)
        return e, on, rc, so.strip(), se.strip()
    for e, on, rc, so, se in common.parallel(job, jobs):
        n += 1
        # the spec's value: TLC's truth tables are keyed by assignment; here recomputed from the
        # same Boolean reading (the expressions are fixed and tiny)
        want = "included" if truth(e, on) else "excluded"
        if so.splitlines()[-1:] != [want]:
            chk.report("C24:inclusion:%s" % e.replace(" ", ""), "file with constraint %r and tags %s: expected the file to be %s, program printed %r %r" % (e, on, want, so[-100:], se[-200:]),
                       {"expr": e, "tags": on, "want": want, "stdout": so, "stderr": se})
    chk.add("inclusion_cases", n)
    return n


def run(chk):
    b = common.go_build("tools")
    thorough = chk.tier == "thorough"
    chk.assume("tag alphabet {a, b, c}; strings are rendered with single spaces and in the most compact spelling the lexer allows")
    d = common.subdir("c24")
    maxlen = 7 if thorough else 6
    path = os.path.join(d, "cases.txt")
    with open(path, "w") as fh:
        res = common.run_tlc("tools", "BuildTag", "c.cfg", files={"c.cfg": cfg(maxlen, True)}, collect_prefix='<<"T"',
                             timeout=3000, line_cb=lambda l: fh.write(l + "\n"))
    chk.tlc(res, "all token strings of length <= %d" % maxlen)
    rc, so, se, to = common.run_child([b, "buildtag", path], timeout=1800)
    ttmap = {}
    for line in open(path):
        if '\\"ok\\":true' in line:
            c = json.loads(common.parse_printt(line.rstrip("\n"), "T")[0])
            ttmap[tuple(c["toks"])] = c["tt"]
    os.unlink(path)
    if rc != 0:
        raise MachineryError("tools harness failed: " + se[-1500:])
    lines = [json.loads(l) for l in so.splitlines() if l.strip()]
    done = [l for l in lines if l.get("done")][0]
    if done["n"] == 0:
        raise MachineryError("no cases")
    chk.add("traces_validated_against_impl", done["n"] * 2)
    chk.cov["well_formed_strings"] = done["accepted"] // 2
    chk.cov["printed_form_differs_from_spec_print"] = done["drift"]
    fails = [l for l in lines if "fail" in l]
    for l in fails:
        chk.report(key_of(l), "%s: %r (%s)" % (l["fail"], l["line"], l["detail"]), l)
    if res.violated and not fails:
        raise MachineryError("BuildTag.tla's own print/parse closure fails (%s) but the code round-trips every string: spec and code disagree on printing" % res.violated)
    chk.sample({"toks": ["!", "(", "a", "||", "b", ")", "&&", "c"], "ok": True, "tt": [0, 0, 0, 0, 1, 0, 0, 0]})
    wa = common.build_wa()
    inclusion(chk, wa, ttmap)
    chk.cov["exhaustive"] = True
    chk.cov["explanation"] = ("every token string over {a,b,c,!,&&,||,(,)} up to the bound: accept/reject vs the grammar recogniser, truth table under all 8 "
                              "assignments vs Eval, Parse(String(x)) accepted and equivalent; file inclusion through `wa run -tags` on generated modules")


def replay(chk, path):
    rec = json.load(open(path))["record"]
    b = common.go_build("tools")
    if "case" in rec:
        d = common.subdir("c24")
        p = os.path.join(d, "r.txt")
        js = json.dumps(rec["case"]).replace("\\", "\\\\").replace('"', '\\"')
        open(p, "w").write('<<"T", "%s">>\n' % js)
        rc, so, se, to = common.run_child([b, "buildtag", p], timeout=60)
        for l in so.splitlines():
            l = json.loads(l)
            if "fail" in l:
                chk.report(key_of(l), l["fail"], l)
