------------------------------- MODULE X64ModRM -------------------------------
(* C17 (x86-64 part): the ModRM/SIB/displacement encoding of the two-operand    *)
(* 64-bit integer instructions the native backend emits most (mov, add, sub,    *)
(* and, or, xor, cmp, lea) in the forms  op r64, r64 / op r64, [base+disp] /     *)
(* op [base+disp], r64, from the Intel SDM (vol. 2, ch. 2):                      *)
(*   REX.W prefix 0100WRXB, opcode, ModRM = mod:reg:rm, an SIB byte when the     *)
(*   base's low bits are 100 (rsp, r12), no displacement only when it is zero    *)
(*   and the base's low bits are not 101 (rbp, r13: mod=00 rm=101 means          *)
(*   RIP-relative), else an 8-bit displacement when it fits, else 32 bits.       *)
(* Role F: TLC emits the set of valid encodings of every case (the shortest      *)
(* displacement form; both directions for register-register).                    *)
EXTENDS Integers, Sequences, FiniteSets, TLC, Json
CONSTANTS Emit

\* opcode of the "r/m64, r64" (store, MR) and "r64, r/m64" (load, RM) forms
Ops == [add |-> <<1, 3>>, or |-> <<9, 11>>, and |-> <<33, 35>>, sub |-> <<41, 43>>, xor |-> <<49, 51>>, cmp |-> <<57, 59>>, mov |-> <<137, 139>>, lea |-> <<0, 141>>]
Rex(r, b) == 72 + 4 * (r \div 8) + (b \div 8)                      \* 0x48 | R<<2 | B
ModRM(mod, reg, rm) == mod * 64 + (reg % 8) * 8 + (rm % 8)
Byte(v, k) == (v \div (256 ^ k)) % 256                             \* two's complement byte k (floor division)
Disp8(d) == <<Byte(d, 0)>>
Disp32(d) == <<Byte(d, 0), Byte(d, 1), Byte(d, 2), Byte(d, 3)>>
\* the memory operand [base + disp] with register field reg
Mem(reg, base, disp) ==
  LET sib == IF base % 8 = 4 THEN <<36>> ELSE <<>>                 \* scale=00 index=100 (none) base=100
  IN IF disp = 0 /\ base % 8 # 5 THEN <<ModRM(0, reg, base)>> \o sib
     ELSE IF disp >= -128 /\ disp <= 127 THEN <<ModRM(1, reg, base)>> \o sib \o Disp8(disp)
     ELSE <<ModRM(2, reg, base)>> \o sib \o Disp32(disp)
Load(op, reg, base, disp) == <<Rex(reg, base), Ops[op][2]>> \o Mem(reg, base, disp)      \* op reg, [base+disp]
Store(op, reg, base, disp) == <<Rex(reg, base), Ops[op][1]>> \o Mem(reg, base, disp)     \* op [base+disp], reg
\* op dst, src between registers: either direction bit
RegReg(op, dst, src) == {<<Rex(src, dst), Ops[op][1], ModRM(3, src, dst)>>, <<Rex(dst, src), Ops[op][2], ModRM(3, dst, src)>>}

Regs == 0..15
Disps == {0, 1, 8, 127, 128, -1, -128, -129, 4096, -4096, 2147483647, -2147483647}
Cases ==
  {[op |-> o, form |-> "load", reg |-> r, base |-> b, disp |-> d, enc |-> {Load(o, r, b, d)}] : o \in DOMAIN Ops, r \in {1, 9}, b \in Regs, d \in Disps}
  \cup {[op |-> o, form |-> "store", reg |-> r, base |-> b, disp |-> d, enc |-> {Store(o, r, b, d)}] : o \in DOMAIN Ops \ {"lea"}, r \in {1, 9}, b \in Regs, d \in Disps}
  \cup {[op |-> o, form |-> "regreg", reg |-> r, base |-> b, disp |-> 0, enc |-> RegReg(o, r, b)] : o \in DOMAIN Ops \ {"lea"}, r \in {0, 3, 8, 15}, b \in Regs}
VARIABLES c, done
Init == c \in Cases /\ done = FALSE
Next == ~done /\ done' = TRUE /\ UNCHANGED c /\ (Emit => PrintT(<<"T", ToJson(c)>>))
\* encodings printed in the manual / produced by every assembler
Known == /\ Load("mov", 1, 13, 0) = <<73, 139, 77, 0>>             \* mov rcx, [r13]      = 49 8b 4d 00
         /\ Load("mov", 0, 4, 8) = <<72, 139, 68, 36, 8>>          \* mov rax, [rsp+8]    = 48 8b 44 24 08
         /\ Store("mov", 3, 5, -8) = <<72, 137, 93, 248>>          \* mov [rbp-8], rbx    = 48 89 5d f8
         /\ Load("lea", 0, 0, 4096) = <<72, 141, 128, 0, 16, 0, 0>> \* lea rax, [rax+4096] = 48 8d 80 00 10 00 00
         /\ <<72, 137, 216>> \in RegReg("mov", 0, 3)               \* mov rax, rbx        = 48 89 d8
=============================================================================
