-------------------------------- MODULE WaFront --------------------------------
(* C08: the input space of the front ends and the language dispatch.            *)
(* Part 1 (token strings): for each surface language an alphabet of tokens       *)
(* (keywords, brackets, an identifier, literals including unterminated ones,     *)
(* comments, illegal bytes); every token string up to MaxLen is an input.  The   *)
(* specified outcome of every entry point on every input is "returns": a value   *)
(* or an error, never a panic, never non-termination.                             *)
(* Part 2 (dispatch): the language of a source is decided by the file name's     *)
(* extension and otherwise by its content; formatting then follows the language:  *)
(* Wa/Wz are formatted (or rejected with an error), WAT and assembly are returned *)
(* unchanged, an unknown language is an error.                                    *)
EXTENDS Integers, Sequences, FiniteSets, TLC, Json
CONSTANTS Emit, MaxLen

Alpha ==
 [wa  |-> {"func", "main", "{", "}", "(", ")", "x", ":=", "=", "1", "1.5e", "0x", "UNTERMSTR", "\"a\"", "UNTERMCHAR", "'a'", "`", "/*", "LCOM", "HCOM", "NL", ";", ",", ":", "=>",
           "if", "else", "for", "switch", "case", "default", "type", "struct", "interface", "import", "global", "const", "map", "defer", "return", "break", "this", ".", "[", "]",
           "+", "*", "&", "<-", "...", "ILL01", "ILLFF", "range", "DIRECTIVE"},
  wz  |-> {"函数", "主控", "函数·主控", ":", "完毕", "(", ")", "甲", ":=", "=", "1", "UNTERMSTR", "\"a\"", "ZCOM", "LCOM", "NL", ";", ",", "=>", "如果", "否则", "或者", "循环",
           "找辙", "有辙", "没辙", "结构", "接口", "类型", "引入", "全局", "常量", "返回", "跳出", "·", "[", "]", "{", "}", "+", "*", "ILL01", "ILLFF", "整型", "输出"},
  wat |-> {"(", ")", "module", "func", "$f", "param", "result", "i32", "i64", "i32.const", "1", "-1", "0x", "export", "import", "\"a\"", "UNTERMSTR", "WATCOM", "(;", ";)", "memory",
           "data", "call", "local.get", "type", "table", "elem", "start", "global", "mut", "if", "else", "end", "block", "br", "offset=", "ILL01", "ILLFF"},
  asm |-> {".section", ".text", ".globl", "name:", "mov", "rax", ",", "[", "]", "rip", "+", "1", "-1", "HCOM", "UNTERMSTR", ".quad", ".ascii", "\"a\"", "函数", "完毕", "$暂甲格",
           "%相对.高20", "(", ")", "addi", "a0", "ILL01", "ILLFF", ".intel_syntax", "noprefix", "NL", "全局", ":", "字串", "="}]
Langs == DOMAIN Alpha
\* strings of length 3 are taken over a core of each alphabet (the full cube is 10^5 strings per language)
Core ==
 [wa  |-> {"func", "main", "{", "}", "(", ")", "x", ":=", "1", "UNTERMSTR", "\"a\"", "/*", "LCOM", "NL", ";", ",", ":", "type", "struct", "import", ".", "[", "*", "ILL01", "case", "=>"},
  wz  |-> {"函数·主控", ":", "完毕", "(", ")", "甲", ":=", "1", "UNTERMSTR", "ZCOM", "NL", ",", "如果", "否则", "循环", "找辙", "有辙", "结构", "类型", "引入", "·", "[", "{", "ILL01", "返回"},
  wat |-> {"(", ")", "module", "func", "$f", "param", "i32", "i32.const", "1", "export", "\"a\"", "UNTERMSTR", "WATCOM", "(;", "memory", "data", "call", "if", "end", "block", "offset=", "ILL01"},
  asm |-> {".section", ".text", ".globl", "name:", "mov", "rax", ",", "[", "]", "+", "1", "HCOM", "UNTERMSTR", ".quad", "\"a\"", "函数", "完毕", "$暂甲格", "%相对.高20", "(", "ILL01", "NL", ":"}]

\* ---- part 2: dispatch ----
Exts == {".wa", ".WA", ".wz", ".wat", ".wa.s", ".wz.s", ".txt", ""}
\* content classes by what the detection sees first (comments skipped)
Contents == {"empty", "wa-keyword-first", "wz-keyword-first", "identifier-first", "wat-only", "illegal-first", "comment-only"}
LangOf(ext, content) ==
  CASE ext \in {".wa", ".WA"} -> "wa"
    [] ext = ".wz" -> "wz"
    [] ext = ".wat" -> "wat"
    [] ext \in {".wa.s", ".wz.s"} -> "nasm"
    [] OTHER -> CASE content = "wa-keyword-first" -> "wa"
                  [] content = "wz-keyword-first" -> "wz"
                  [] content = "wat-only" -> "wat"
                  [] OTHER -> "unknown"
\* what formatting may answer for a language: the set of admissible outcomes
FormatOutcomes(lang) == CASE lang \in {"wa", "wz"} -> {"same", "changed", "error"}
                          [] lang \in {"wat", "nasm"} -> {"same"}
                          [] OTHER -> {"error"}

VARIABLES part, lang, toks, ext, content, done
vars == <<part, lang, toks, ext, content, done>>
Seqs(S, n) == UNION {[1..k -> S] : k \in 1..n}
Init == /\ done = FALSE
        /\ \/ /\ part = "tokens" /\ lang \in Langs /\ toks \in Seqs(Alpha[lang], IF MaxLen > 2 THEN 2 ELSE MaxLen) \cup (IF MaxLen > 2 THEN [1..3 -> Core[lang]] ELSE {}) /\ ext = "" /\ content = ""
           \/ /\ part = "dispatch" /\ lang = "" /\ toks = <<>> /\ ext \in Exts /\ content \in Contents
Next == /\ ~done /\ done' = TRUE /\ UNCHANGED <<part, lang, toks, ext, content>>
        /\ (Emit => IF part = "tokens" THEN PrintT(<<"T", ToJson([part |-> part, lang |-> lang, toks |-> toks])>>)
                    ELSE PrintT(<<"T", ToJson([part |-> part, ext |-> ext, content |-> content, lang |-> LangOf(ext, content),
                                               fmt |-> FormatOutcomes(LangOf(ext, content))])>>))
\* the extension decides before the content is looked at
ExtWins == part = "dispatch" /\ ext \notin {".txt", ""} => \A c \in Contents : LangOf(ext, c) = LangOf(ext, content)
=============================================================================
