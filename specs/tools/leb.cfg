CONSTANTS
  Mode = "enc"
  W = 32
  Signed = TRUE
  DecMaxLen = 5
  Emit = FALSE
INIT Init
NEXT Next
INVARIANTS RoundTrip Minimal
