CONSTANTS
  Full = FALSE
  Emit = TRUE
  Widths = {32, 64}
INIT Init
NEXT Next
INVARIANTS Laws
