CONSTANTS
  Emit = TRUE
INIT Init
NEXT Next
INVARIANTS ZeroIffReturn ExitCodeKept FailuresNonZero OutputComplete
