CONSTANTS
  HeapBase = 65000
  InitPages = 1
  MaxPages = 2
  Cap = 1
  Sizes = {1, 24, 80, 128, 200}
  MaxLive = 3
  MaxOps = 6
  Emit = TRUE
  FixZero = FALSE
  FixGrow = FALSE
INIT Init
NEXT Next
VIEW View
INVARIANTS Terminates InHeap Aligned LargeEnough NoOverlap Tiling DisjointStatus FixedListsOk RingOk WritesOutsideLive FailOnlyWhenExhausted
