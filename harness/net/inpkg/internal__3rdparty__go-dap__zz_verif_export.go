// Read-only accessor used by the verification harness (overlay only, never in /repo).
package dap

import "sort"

type VerifCtor struct {
	Kind string // request | response | event
	Name string
	New  func() Message
}

// VerifCtors lists every message kind the default codec can decode.
func VerifCtors() []VerifCtor {
	var out []VerifCtor
	for k, v := range requestCtor {
		out = append(out, VerifCtor{"request", k, v})
	}
	for k, v := range responseCtor {
		out = append(out, VerifCtor{"response", k, v})
	}
	for k, v := range eventCtor {
		out = append(out, VerifCtor{"event", k, v})
	}
	sort.Slice(out, func(i, j int) bool {
		if out[i].Kind != out[j].Kind {
			return out[i].Kind < out[j].Kind
		}
		return out[i].Name < out[j].Name
	})
	return out
}
