// Harness for C25 (SLIP framing) and C26 (DAP framing): replays TLC-generated cases on the
// real writers and readers through a transport that serves exactly the TLC-chosen chunks.
//
//	net slip <file with raw TLC lines>
//	net dap  <file with raw TLC lines>
package main

import (
	"bufio"
	"bytes"
	"encoding/json"
	"errors"
	"fmt"
	"io"
	"os"
	"strings"

	"reflect"

	dap "wa-lang.org/wa/internal/3rdparty/go-dap"
	"wa-lang.org/wa/internal/3rdparty/slip"
)

func unescape(line string) (string, bool) {
	const pre = `<<"T", "`
	if !strings.HasPrefix(line, pre) || !strings.HasSuffix(line, `">>`) {
		return "", false
	}
	s := line[len(pre) : len(line)-3]
	s = strings.ReplaceAll(s, `\"`, `"`)
	s = strings.ReplaceAll(s, `\\`, `\`)
	return s, true
}

var errDone = errors.New("end of recorded stream")

// chunkReader serves the wire in the given chunks. In zero mode every chunk boundary is
// visible as one read that returns (0, nil), as a transport with a read timeout does.
type chunkReader struct {
	chunks [][]byte
	zero   bool
	gap    bool
	idle   int // empty reads per boundary (0 or 1 = one)
	polls  int // empty reads still owed at the current boundary
}

func (c *chunkReader) Read(p []byte) (int, error) {
	if c.polls > 0 {
		c.polls--
		return 0, nil
	}
	for len(c.chunks) > 0 && len(c.chunks[0]) == 0 {
		c.chunks = c.chunks[1:]
		if c.zero && len(c.chunks) > 0 {
			if c.idle > 1 {
				c.polls = c.idle - 1
			}
			return 0, nil
		}
	}
	if len(c.chunks) == 0 {
		return 0, errDone
	}
	n := copy(p, c.chunks[0])
	c.chunks[0] = c.chunks[0][n:]
	return n, nil
}

func split(wire []byte, cuts []int) [][]byte {
	var out [][]byte
	prev := 0
	for _, c := range cuts {
		if c > prev && c < len(wire) {
			out = append(out, append([]byte{}, wire[prev:c]...))
			prev = c
		}
	}
	out = append(out, append([]byte{}, wire[prev:]...))
	return out
}

type Pkt struct {
	F int   `json:"f"`
	P []int `json:"p"`
}
type SlipCase struct {
	Sent      []Pkt `json:"sent"`
	Cuts      []int `json:"cuts"`
	Wire      []int `json:"wire"`
	Zero      bool  `json:"zero"`
	Idle      int   `json:"idle"`
	Mux       bool  `json:"mux"`
	Predicted []Pkt `json:"predicted"`
}

func toBytes(a []int) []byte {
	b := make([]byte, len(a))
	for i, v := range a {
		b[i] = byte(v)
	}
	return b
}
func toInts(b []byte) []int {
	a := make([]int, len(b))
	for i, v := range b {
		a[i] = int(v)
	}
	return a
}

func eqPkts(a, b []Pkt) bool {
	if len(a) != len(b) {
		return false
	}
	for i := range a {
		if a[i].F != b[i].F || len(a[i].P) != len(b[i].P) {
			return false
		}
		for j := range a[i].P {
			if a[i].P[j] != b[i].P[j] {
				return false
			}
		}
	}
	return true
}

const plain = 999

func runSlip(c *SlipCase) (wire []byte, got []Pkt, fail string) {
	defer func() {
		if e := recover(); e != nil {
			fail = fmt.Sprint("panic: ", e)
		}
	}()
	var buf bytes.Buffer
	if c.Mux {
		w := slip.NewSlipMuxWriter(&buf)
		for _, p := range c.Sent {
			if err := w.WritePacket(byte(p.F), toBytes(p.P)); err != nil {
				return nil, nil, "write error: " + err.Error()
			}
		}
	} else {
		w := slip.NewWriter(&buf)
		for _, p := range c.Sent {
			if err := w.WritePacket(toBytes(p.P)); err != nil {
				return nil, nil, "write error: " + err.Error()
			}
		}
	}
	wire = append([]byte{}, buf.Bytes()...)
	tr := &chunkReader{chunks: split(wire, c.Cuts), zero: c.Zero, idle: c.Idle}
	got = []Pkt{}
	if c.Mux {
		r := slip.NewSlipMuxReader(tr)
		for n := 0; n < len(c.Sent)+3; n++ {
			p, f, err := r.ReadPacket()
			if err != nil {
				break
			}
			got = append(got, Pkt{F: int(f), P: toInts(p)})
		}
	} else {
		r := slip.NewReader(tr)
		var acc []byte
		for n := 0; n < 8*len(wire)+16; n++ {
			p, isPrefix, err := r.ReadPacket()
			acc = append(acc, p...)
			if !isPrefix && len(acc) > 0 {
				got = append(got, Pkt{F: plain, P: toInts(acc)})
				acc = nil
			}
			if err != nil {
				if err != errDone && err != io.EOF {
					fail = "read error: " + err.Error()
				}
				break
			}
		}
	}
	return wire, got, ""
}

func slipMain(path string) {
	f, err := os.Open(path)
	must(err)
	defer f.Close()
	out := bufio.NewWriter(os.Stdout)
	defer out.Flush()
	enc := json.NewEncoder(out)
	sc := bufio.NewScanner(f)
	sc.Buffer(make([]byte, 1<<20), 1<<24)
	n, bad, drift, wiredrift := 0, 0, 0, 0
	for sc.Scan() {
		js, ok := unescape(sc.Text())
		if !ok {
			continue
		}
		var c SlipCase
		must(json.Unmarshal([]byte(js), &c))
		n++
		wire, got, fail := runSlip(&c)
		if fail == "" && !eqPkts(got, c.Sent) {
			fail = "delivered packets differ from the packets sent"
		}
		if fail != "" {
			bad++
			if bad <= 40 {
				enc.Encode(map[string]interface{}{"fail": fail, "case": c, "got": got, "wire": toInts(wire)})
			}
			continue
		}
		if !bytes.Equal(wire, toBytes(c.Wire)) {
			wiredrift++
		}
		if !eqPkts(got, c.Predicted) {
			drift++
		}
	}
	enc.Encode(map[string]interface{}{"done": true, "n": n, "bad": bad, "drift": drift, "wiredrift": wiredrift})
}

// ---------------------------------------------------------------- C26

type DapCase struct {
	Sent [][]int `json:"sent"`
	Cuts []int   `json:"cuts"`
	Wire []int   `json:"wire"`
}

func runDapRaw(c *DapCase) (fail string, wire []byte, got [][]int) {
	defer func() {
		if e := recover(); e != nil {
			fail = fmt.Sprint("panic: ", e)
		}
	}()
	var buf bytes.Buffer
	for _, b := range c.Sent {
		if err := dap.WriteBaseMessage(&buf, toBytes(b)); err != nil {
			return "write error: " + err.Error(), nil, nil
		}
	}
	wire = append([]byte{}, buf.Bytes()...)
	if !bytes.Equal(wire, toBytes(c.Wire)) {
		return "the bytes written are not the specified framing", wire, nil
	}
	r := bufio.NewReader(&chunkReader{chunks: split(wire, c.Cuts)})
	got = [][]int{}
	for i := range c.Sent {
		b, err := dap.ReadBaseMessage(r)
		if err != nil {
			return fmt.Sprintf("message %d: read error: %v", i, err), wire, got
		}
		got = append(got, toInts(b))
		if !bytes.Equal(b, toBytes(c.Sent[i])) {
			return fmt.Sprintf("message %d read back differently", i), wire, got
		}
	}
	return "", wire, got
}

// fill sets the fields of a message deterministically for pattern p (1: scalars, 2: also
// nested pointers, slices, maps, raw JSON), leaving the dispatch fields alone.
func fill(v reflect.Value, p int, depth int, path string) {
	switch v.Kind() {
	case reflect.Struct:
		for i := 0; i < v.NumField(); i++ {
			f := v.Type().Field(i)
			switch f.Name {
			case "Type", "Command", "Event", "Success":
				if depth <= 2 {
					continue // dispatch fields of the protocol envelope
				}
			}
			if f.PkgPath != "" {
				continue
			}
			fill(v.Field(i), p, depth+1, path+"."+f.Name)
		}
	case reflect.String:
		v.SetString(fmt.Sprintf("s%d\\\"é\n", len(path)))
	case reflect.Int, reflect.Int64, reflect.Int32:
		v.SetInt(int64(7 + len(path)))
	case reflect.Float64:
		v.SetFloat(1.5)
	case reflect.Bool:
		v.SetBool(true)
	case reflect.Ptr:
		if p >= 2 && depth < 6 {
			v.Set(reflect.New(v.Type().Elem()))
			fill(v.Elem(), p, depth+1, path)
		}
	case reflect.Slice:
		if v.Type() == reflect.TypeOf(json.RawMessage{}) {
			if p >= 2 {
				v.Set(reflect.ValueOf(json.RawMessage(`{"a":"b"}`)))
			}
			return
		}
		if p >= 2 && depth < 6 {
			s := reflect.MakeSlice(v.Type(), 2, 2)
			fill(s.Index(0), p, depth+1, path+"[0]")
			fill(s.Index(1), 1, depth+1, path+"[1]")
			v.Set(s)
		}
	case reflect.Map:
		if p >= 2 && v.Type().Key().Kind() == reflect.String {
			m := reflect.MakeMap(v.Type())
			e := reflect.New(v.Type().Elem()).Elem()
			fill(e, 1, depth+1, path+"[k]")
			m.SetMapIndex(reflect.ValueOf("k").Convert(v.Type().Key()), e)
			v.Set(m)
		}
	case reflect.Interface:
		if p >= 2 {
			v.Set(reflect.ValueOf(map[string]interface{}{"k": "v"}))
		}
	}
}

func dapMain(path string) {
	f, err := os.Open(path)
	must(err)
	defer f.Close()
	out := bufio.NewWriter(os.Stdout)
	defer out.Flush()
	enc := json.NewEncoder(out)
	sc := bufio.NewScanner(f)
	sc.Buffer(make([]byte, 1<<20), 1<<24)
	n, bad := 0, 0
	var cutsets [][]int
	for sc.Scan() {
		js, ok := unescape(sc.Text())
		if !ok {
			continue
		}
		var c DapCase
		must(json.Unmarshal([]byte(js), &c))
		n++
		if len(cutsets) < 4000 {
			cutsets = append(cutsets, c.Cuts)
		}
		if fail, wire, got := runDapRaw(&c); fail != "" {
			bad++
			if bad <= 40 {
				enc.Encode(map[string]interface{}{"fail": fail, "case": c, "got": got, "wire": toInts(wire), "layer": "framing"})
			}
		}
	}
	// typed messages: every registered kind x fill pattern, written back to back and read
	// through TLC-chosen chunkings (cut positions scaled to the wire)
	ctors := dap.VerifCtors()
	typed, tbad := 0, 0
	for p := 0; p <= 2; p++ {
		var msgs []dap.Message
		var buf bytes.Buffer
		for _, ct := range ctors {
			m := ct.New()
			// the message a client writes is the schema's type for this name (dap_schema_table.go), not whatever the
			// codec's own constructor map holds: a registry entry pointing at a sibling type must show as a difference
			// (the codec's constructor is kept when it builds the schema's type: it pre-fills protocol defaults such as
			// pathFormat="path" that an absent optional field decodes to)
			if sc, ok := schemaCtor[ct.Kind+":"+ct.Name]; ok && reflect.TypeOf(sc()) != reflect.TypeOf(m) {
				m = sc()
			}
			mv := reflect.ValueOf(m).Elem()
			if p > 0 {
				fill(mv, p, 0, ct.Name)
			}
			// the envelope: what the decoder dispatches on
			setStr := func(name, val string) {
				f := mv.FieldByName(name)
				if f.IsValid() && f.Kind() == reflect.Struct { // the embedded envelope struct of the same name
					f = f.FieldByName(name)
				}
				if f.IsValid() && f.Kind() == reflect.String {
					f.SetString(val)
				}
			}
			setStr("Type", ct.Kind)
			if ct.Kind == "event" {
				setStr("Event", ct.Name)
			} else {
				setStr("Command", ct.Name)
			}
			if f := mv.FieldByName("Success"); f.IsValid() && f.Kind() == reflect.Bool && ct.Kind == "response" {
				f.SetBool(true)
			}
			msgs = append(msgs, m)
			must(dap.WriteProtocolMessage(&buf, m))
		}
		wire := buf.Bytes()
		for k := 0; k < 40 && k < len(cutsets); k++ {
			cs := cutsets[(k*97+p*31)%len(cutsets)]
			var cuts []int
			for _, c := range cs {
				cuts = append(cuts, (c*7919+k*13)%len(wire))
			}
			// plus regular small chunks of TLC-chosen size
			size := 1 + (k*5)%23
			for off := size; off < len(wire); off += size * (1 + k%3) {
				cuts = append(cuts, off)
			}
			sortInts(cuts)
			r := bufio.NewReader(&chunkReader{chunks: split(wire, cuts)})
			for i, want := range msgs {
				typed++
				got, err := func() (m dap.Message, err error) {
					defer func() {
						if e := recover(); e != nil {
							err = fmt.Errorf("panic: %v", e)
						}
					}()
					return dap.ReadProtocolMessage(r)
				}()
				wj, _ := json.Marshal(want)
				gj, _ := json.Marshal(got)
				// equal = same Go value, or same JSON (a nil raw message reads back as `null`)
				if err != nil || !(reflect.DeepEqual(got, want) || (bytes.Equal(wj, gj) && reflect.TypeOf(got) == reflect.TypeOf(want))) {
					tbad++
					if tbad <= 20 {
						enc.Encode(map[string]interface{}{"fail": "typed message read back differently", "layer": "codec", "kind": ctors[i].Kind + ":" + ctors[i].Name,
							"pattern": p, "error": fmt.Sprint(err), "want": fmt.Sprintf("%T ", want) + string(wj), "got": fmt.Sprintf("%T ", got) + string(gj)})
					}
					if err != nil {
						break
					}
				}
			}
		}
	}
	enc.Encode(map[string]interface{}{"done": true, "n": n, "bad": bad, "typed": typed, "typed_bad": tbad, "kinds": len(ctors)})
}

func sortInts(a []int) {
	for i := 1; i < len(a); i++ {
		for j := i; j > 0 && a[j] < a[j-1]; j-- {
			a[j], a[j-1] = a[j-1], a[j]
		}
	}
}

func must(err error) {
	if err != nil {
		fmt.Fprintln(os.Stderr, "harness error:", err)
		os.Exit(2)
	}
}

func main() {
	if len(os.Args) < 3 {
		os.Exit(2)
	}
	switch os.Args[1] {
	case "slip":
		slipMain(os.Args[2])
	case "dap":
		dapMain(os.Args[2])
	default:
		os.Exit(2)
	}
}
