"""C18 -- hi/lo splitting of PC-relative offsets: PcRel.tla (CPU recombination from the
manuals on BV bit-vectors) evaluated by TLC on dense windows; the same formula over
unbounded integers discharged by Apalache for all offsets; the Go functions must return
the specified instruction fields for every TLC case."""
import json
import os
import shutil
import subprocess
import tempfile

import common
from common import MachineryError

LEVEL = "model_checking"


def cfg(mode):
    return 'CONSTANTS\n  Mode = "%s"\n  Emit = TRUE\nINIT Init\nNEXT Next\nINVARIANTS Exact\n' % mode


def apalache(chk):
    d = tempfile.mkdtemp(prefix="apa-", dir=common.scratch())
    shutil.copy(os.path.join(common.SPECS, "tools", "PcRelApa.tla"), d)
    out = {}
    for inv, want_ok in (("Inv", True), ("BadInv", False)):
        try:
            p = subprocess.run(["apalache-mc", "check", "--init=Init", "--next=Next", "--inv=" + inv, "--length=0", "PcRelApa.tla"],
                               cwd=d, capture_output=True, text=True, timeout=600)
        except subprocess.TimeoutExpired:
            raise MachineryError("apalache timeout")
        ok = "The outcome is: NoError" in p.stdout
        err = "The outcome is: Error" in p.stdout
        if not ok and not err:
            raise MachineryError("apalache failed: " + (p.stdout + p.stderr)[-1500:])
        out[inv] = ok
        if ok != want_ok:
            raise MachineryError("Apalache: %s is %s on PcRelApa.tla -- the integer form of the split formula is wrong (specification error)" % (
                inv, "proved" if ok else "refuted"))
    chk.cov["apalache"] = {"obligations": ["Init => RvInv for all 2^32 offsets", "Init => LaInv for all 64-bit pc/target in the pcalau12i range",
                                           "BadInv refuted (non-vacuity)"], "discharged": 2, "refuted_as_expected": 1}
    shutil.rmtree(d, ignore_errors=True)


def key_of(l):
    return "C18:" + l["fail"]


def run(chk):
    b = common.go_build("tools")
    chk.assume("RISC-V offsets are recombined modulo 2^32; LoongArch targets satisfy: page delta minus the signed low part fits the signed 20-bit field")
    apalache(chk)
    d = common.subdir("c18")

    def one(mode):
        path = os.path.join(d, mode + ".txt")
        with open(path, "w") as fh:
            res = common.run_tlc("tools", "PcRel", "p.cfg", files={"p.cfg": cfg(mode)}, collect_prefix='<<"T"', timeout=1800,
                                 line_cb=lambda l: fh.write(l + "\n"), workers=8)
        if res.violated:
            raise MachineryError("PcRel.tla's reference split is not exact (%s): specification error" % res.violated)
        rc, so, se, to = common.run_child([b, "pcrel", path], timeout=600)
        first = open(path).readline().rstrip("\n")
        os.unlink(path)
        if rc != 0:
            raise MachineryError("tools harness failed: " + se[-1500:])
        return mode, res, [json.loads(l) for l in so.splitlines() if l.strip()], first
    for mode, res, lines, first in common.parallel(one, ["rv", "la"], workers=2):
        chk.tlc(res, mode)
        done = [l for l in lines if l.get("done")][0]
        if done["n"] == 0:
            raise MachineryError("no cases for " + mode)
        chk.add("traces_validated_against_impl", done["n"])
        chk.add("function_executions", done["execs"])
        p = common.parse_printt(first, "T")
        if p:
            chk.sample(json.loads(p[0]))
        for l in lines:
            if "fail" in l:
                chk.report(key_of(l), "%s: %s" % (l["fail"], l["detail"]), l)
    chk.cov["exhaustive"] = False
    chk.cov["explanation"] = ("Apalache discharges exactness of the split formula for all offsets / pcs / in-range targets; TLC evaluates the BV form of the same formula "
                              "on every offset in [-4200, 4200], +-2^k+j and the extremes (RISC-V) and on 30 pcs x 46 page-relative targets (LoongArch); "
                              "SplitOffset, CombineOffset, MakePCRel, MakeAbs, GetTargetAddress and MakeLa64PCRel are executed on every case")


def replay(chk, path):
    rec = json.load(open(path))["record"]
    b = common.go_build("tools")
    d = common.subdir("c18")
    p = os.path.join(d, "r.txt")
    js = json.dumps(rec["case"]).replace("\\", "\\\\").replace('"', '\\"')
    open(p, "w").write('<<"T", "%s">>\n' % js)
    rc, so, se, to = common.run_child([b, "pcrel", p], timeout=60)
    for l in so.splitlines():
        l = json.loads(l)
        if "fail" in l:
            chk.report(key_of(l), l["fail"], l)
