"""C21 -- LSP document sync: LspSync.tla (client = LSP position definition, server =
mapper.go transcribed); every transition replayed on a real LSPServer; random client
sessions recorded from the real server validated by TLC (LspSyncTrace)."""
import json
import os
import random

import common
from common import MachineryError, log

LEVEL = "model_checking"


def cfg(maxdoc, maxins, two, emit=True, cp='{"a", "e", "z", "g", "r", "n"}'):
    return """CONSTANTS
  MaxDoc = %d
  MaxIns = %d
  MaxOps = 1
  CP = %s
  Emit = %s
  Two = %s
INIT Init
NEXT Next
VIEW View
INVARIANTS InSync ErrorsExact
""" % (maxdoc, maxins, cp, "TRUE" if emit else "FALSE", "TRUE" if two else "FALSE")


def key_of(fail, t):
    kind = t.get("kind")
    cps = set(t.get("doc", [])) | set(c for ch in t.get("changes", []) for c in ch.get("t", []))
    feat = "+".join(sorted(x for x in cps if x in ("g", "r", "e", "z")))
    return "C21:%s:%s:%s" % (kind, fail.split(":")[0].replace(" ", "-"), feat or "ascii")


def run(chk):
    b = common.go_build("lsp")
    thorough = chk.tier == "thorough"
    chk.assume("documents have a .wa URI (DidChange deliberately ignores other suffixes); lone CR is not a line terminator in the client alphabet")
    chk.assume("invalid ranges are: line > last line + 1, character >= line length + 3, end before start")
    confs = [("doc<=3,ins<=2,two-changes", 3, 2, True)]
    if thorough:
        confs += [("doc<=4,ins<=2,two-changes", 4, 2, True), ("doc<=6,ins<=2", 6, 2, False)]
    else:
        confs += [("doc<=4,ins<=2", 4, 2, False)]
    d = common.subdir("c21")

    def one(c):
        name, md, mi, two = c
        path = os.path.join(d, "t_%d_%d_%d.txt" % (md, mi, two))
        with open(path, "w") as fh:
            res = common.run_tlc("lsp", "LspSync", "c.cfg", files={"c.cfg": cfg(md, mi, two)}, collect_prefix='<<"T"',
                                 timeout=3000, line_cb=lambda l: fh.write(l + "\n"), workers=8 if not thorough else None)
        if res.violated:
            raise MachineryError("LspSync itself violates %s (%s): the transcription of mapper.go is out of sync with the client model;"
                                 " the replay below decides" % (res.violated, name))
        rc, so, se, to = common.run_child([b, "replay", path], timeout=1800)
        os.unlink(path)
        if rc != 0:
            raise MachineryError("lsp harness failed: %s" % se[-1500:])
        return name, res, [json.loads(l) for l in so.splitlines() if l.strip()]

    results = common.parallel(one, confs, workers=2 if not thorough else 1)
    for name, res, lines in results:
        chk.tlc(res, name)
        done = [l for l in lines if l.get("done")]
        if not done or done[0]["n"] == 0:
            raise MachineryError("no transitions replayed for " + name)
        chk.add("traces_validated_against_impl", done[0]["n"])
        chk.cov.setdefault("transition_kinds", {})[name] = done[0]["kinds"]
        for l in lines:
            if "fail" in l:
                chk.report(key_of(l["fail"], l["trans"]), "%s: document %s, changes %s: server has %r, client has %r" % (
                    l["fail"], l["trans"]["doc"], json.dumps(l["trans"]["changes"]), l["server"], l["client"]),
                    {"transition": l["trans"], "server": l["server"], "client": l["client"], "fail": l["fail"]})
    # ---- V: random client sessions on the real server, validated by TLC
    rng = random.Random(common.seed())
    nsess, n, maxdoc = (12, 1500, 60) if thorough else (4, 500, 40)
    seeds = [rng.randrange(1 << 30) for _ in range(nsess)]

    def sess(sd):
        rc, so, se, to = common.run_child([b, "record", "-seed", str(sd), "-n", str(n), "-maxdoc", str(maxdoc)], timeout=600)
        if rc != 0:
            raise MachineryError("lsp recorder failed: " + se[-800:])
        res = common.run_tlc("lsp", "LspSyncTrace", "trace.cfg", workers=1, files={"trace.ndjson": so}, timeout=1800)
        return sd, so, res
    for sd, so, res in common.parallel(sess, seeds, workers=4):
        evs = so.splitlines()
        chk.add("traces_validated_against_impl", 1)
        chk.add("recorded_notifications", len(evs))
        if len(chk.cov["samples"]) < 3:
            chk.sample({"recorded_session_seed": sd, "event": json.loads(evs[min(3, len(evs) - 1)])})
        if res.violated or res.postcond_failed:
            at = (res.stuck or res.generated) - 1
            ev = json.loads(evs[min(max(at, 0), len(evs) - 1)])
            if res.violated == "InSync":
                chk.report("C21:recorded:%s" % ("error" if "error" in ev else "text-differs"),
                           "recorded session seed %d: after notification %d the server's text differs from the client model: %s" % (sd, at, json.dumps(ev)[:400]),
                           {"seed": sd, "n": n, "maxdoc": maxdoc, "event_index": at, "event": ev})
            elif "error" in ev:
                chk.report("C21:recorded:error", "recorded session seed %d: valid change rejected: %s" % (sd, json.dumps(ev)[:400]),
                           {"seed": sd, "n": n, "maxdoc": maxdoc, "event_index": at, "event": ev})
            else:
                raise MachineryError("trace rejected without a contract violation (harness client produced a non-client position?) seed %d at %s" % (sd, at))
    chk.sample({"transition": "see transition_kinds; e.g. doc [e,g] change {(0,1)-(0,3) -> [n]} want [e,n]"})
    chk.cov["exhaustive"] = True
    chk.cov["explanation"] = ("every transition (all documents up to the bound x every client-valid range x every inserted text, two-change "
                              "notifications, full changes, invalid ranges) of LspSync was executed on a real LSPServer via DidOpen/DidChange and "
                              "the stored text compared with the client's; recorded random sessions validated by TLC against the client model")


def replay(chk, path):
    rec = json.load(open(path))["record"]
    b = common.go_build("lsp")
    if "transition" in rec:
        d = common.subdir("c21")
        p = os.path.join(d, "r.txt")
        js = json.dumps(rec["transition"]).replace("\\", "\\\\").replace('"', '\\"')
        open(p, "w").write('<<"T", "%s">>\n' % js)
        rc, so, se, to = common.run_child([b, "replay", p], timeout=60)
        for l in so.splitlines():
            l = json.loads(l)
            if "fail" in l:
                chk.report(key_of(l["fail"], l["trans"]), l["fail"], l)
    else:
        rc, so, se, to = common.run_child([b, "record", "-seed", str(rec["seed"]), "-n", str(rec["n"]), "-maxdoc", str(rec["maxdoc"])], timeout=600)
        res = common.run_tlc("lsp", "LspSyncTrace", "trace.cfg", workers=1, files={"trace.ndjson": so}, timeout=1800)
        if res.violated or res.postcond_failed:
            chk.report("C21:recorded:text-differs", "recorded session rejected at %s" % res.stuck, rec)
