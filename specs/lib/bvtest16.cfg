CONSTANTS
  W = 16
  Vals <- Vals16
INIT Init
NEXT Next
INVARIANTS Laws
