CONSTANTS
  Emit = TRUE
  Families = {}
  MaxStr = 2
INIT SInit
NEXT SNext
INVARIANT SKnown
