"""C20 -- wemu: one-step semantics of RV64I + M from the unprivileged ISA manual (Rv.tla on
BV), evaluated by TLC on boundary operands; every case is encoded from the manual's format
tables, placed in DRAM and executed with one StepRun of the riscv64 emulator; rd (as read
after the step, x0 after a following nop), pc and stored bytes are compared."""
import json
import os

import common
from common import MachineryError

LEVEL = "model_checking"


def run(chk):
    b = common.go_build("emu")
    chk.assume("riscv64 emulator only (RV64I + M integer instructions); floating point, CSR, fence, atomics, compressed, riscv32 and LoongArch are not decided")
    chk.assume("three register allocations per case: rd=x10, rd aliasing rs1, rd=x0 read after a following nop")
    d = common.subdir("c20")

    def one(g):
        path = os.path.join(d, g + ".txt")
        with open(path, "w") as fh:
            res = common.run_tlc("isa", "Rv", g + ".cfg", collect_prefix='<<"T"', timeout=3000, line_cb=lambda l: fh.write(l + "\n"), workers=8)
        rc, so, se, to = common.run_child([b, path], timeout=1200)
        first = open(path).readline().rstrip("\n")
        os.unlink(path)
        if rc != 0:
            raise MachineryError("emu harness failed: " + se[-1500:])
        return g, res, [json.loads(l) for l in so.splitlines() if l.strip()], first
    for g, res, lines, first in common.parallel(one, ["rr", "ri", "ctl", "mem"], workers=2):
        chk.tlc(res, "group " + g)
        done = [l for l in lines if l.get("done")][0]
        if done["n"] == 0:
            raise MachineryError("no cases for " + g)
        chk.add("traces_validated_against_impl", done["n"])
        chk.add("instruction_executions", done["execs"])
        chk.cov.setdefault("deviating_cases_by_class", {}).update(done["classes"])
        p = common.parse_printt(first, "T")
        if p:
            chk.sample(json.loads(p[0]))
        for l in lines:
            if "fail" in l:
                c = l["case"]
                a = int.from_bytes(bytes(c["a"]), "little")
                bb = int.from_bytes(bytes(c["b"]), "little")
                f = l["fail"]
                cls = ("panic-div0" if "integer divide by zero" in f else "unsupported" if "unsupport" in f else "error" if f.startswith("error") else
                       "pc" if f.startswith("pc") else "x0" if f.startswith("x0") else "rd" if f.startswith("rd") else "mem")
                chk.report("C20:rv64:%s:%s:%s" % (c["op"], l["variant"], cls),
                           "%s (rs1=%#x, rs2=%#x, imm=%d, %s): %s" % (c["op"], a, bb, c["imm"], l["variant"], l["fail"]), l)
    chk.cov["exhaustive"] = True
    chk.cov["explanation"] = "every (instruction, operand tuple) case of Rv.tla executed by one StepRun on the riscv64 emulator in up to three register allocations"


def replay(chk, path):
    run(chk)
