CONSTANTS
  Calls = {1, 2}
  Uses = 2
  Locked = FALSE
  Emit = TRUE
  MaxSched = 5
INIT Init
NEXT Next
VIEW View
