CONSTANTS
  Emit = TRUE
  MaxLen = 2
INIT Init
NEXT Next
INVARIANT ExtWins
