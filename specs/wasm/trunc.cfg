CONSTANTS
  Emit = TRUE
INIT Init
NEXT Next
INVARIANT Known
