"""C22 -- diffs apply back: records (before, after, edits, package Apply result, unified
hunks) logged from the real diff package are judged by TLC with the reference definitions
of Diff.tla (valid edits, sequential splice, line patch)."""
import json
import random
import re

import common
from common import MachineryError

LEVEL = "model_checking"


def is_utf8(bs):
    try:
        bytes(bs).decode("utf-8")
        return True
    except UnicodeDecodeError:
        return False


def run(chk):
    b = common.go_build("diffh")
    thorough = chk.tier == "thorough"
    rng = random.Random(common.seed())
    chk.assume("exhaustive pairs over 3-5 symbol alphabets (ASCII with newline; multi-byte UTF-8; invalid bytes 0xFF / stray 0xA9) up to the listed length; "
               "random and mutated long texts (edit distance above the LCS search limit) from a seeded generator")
    chk.assume("unified rendering is judged as a line patch: hunks must match `before` at their from-line and produce `after`; every hunk contains a change")
    jobs = []
    if thorough:
        for sh in range(8):
            jobs.append(("pairs ascii len<=5", ["gen", "-maxlen", "5", "-alpha", "ascii", "-shards", "8", "-shard", str(sh)]))
        jobs += [("pairs utf8 len<=3", ["gen", "-maxlen", "3", "-alpha", "utf8"]),
                 ("pairs invalid len<=3", ["gen", "-maxlen", "3", "-alpha", "invalid"])]
        for i in range(8):
            jobs.append(("random ascii", ["rand", "-n", "600", "-len", "400", "-alpha", "ascii", "-seed", str(rng.randrange(1 << 30))]))
        for i in range(4):
            jobs.append(("random utf8", ["rand", "-n", "400", "-len", "250", "-alpha", "utf8", "-seed", str(rng.randrange(1 << 30))]))
    else:
        jobs = [("pairs ascii len<=4", ["gen", "-maxlen", "4", "-alpha", "ascii", "-shards", "2", "-shard", "0"]),
                ("pairs ascii len<=4", ["gen", "-maxlen", "4", "-alpha", "ascii", "-shards", "2", "-shard", "1"]),
                ("pairs utf8 len<=2", ["gen", "-maxlen", "2", "-alpha", "utf8"]),
                ("pairs invalid len<=2", ["gen", "-maxlen", "2", "-alpha", "invalid"]),
                ("random ascii", ["rand", "-n", "400", "-len", "300", "-alpha", "ascii", "-seed", str(rng.randrange(1 << 30))]),
                ("random ascii", ["rand", "-n", "400", "-len", "300", "-alpha", "ascii", "-seed", str(rng.randrange(1 << 30))]),
                ("random utf8", ["rand", "-n", "200", "-len", "200", "-alpha", "utf8", "-seed", str(rng.randrange(1 << 30))])]

    def one(j):
        name, args = j
        rc, so, se, to = common.run_child([b] + args, timeout=900)
        if rc != 0:
            raise MachineryError("diff harness failed: " + se[-1500:])
        res = common.run_tlc("diff", "Diff", "diff.cfg", workers=1, files={"trace.ndjson": so}, timeout=2400,
                             collect_prefix='<<"V"', heap="6g")
        return name, args, so, res
    for name, args, so, res in common.parallel(one, jobs, workers=6):
        recs = so.splitlines()
        if res.postcond_failed or res.generated != len(recs) + 1:
            raise MachineryError("TLC did not judge every record of %s %s (%d of %d)" % (name, args, res.generated - 1, len(recs)))
        chk.tlc(res, name)
        chk.add("traces_validated_against_impl", len(recs))
        chk.cov.setdefault("records_by_source", {})
        chk.cov["records_by_source"][name] = chk.cov["records_by_source"].get(name, 0) + len(recs)
        if recs:
            r = json.loads(recs[len(recs) // 2])
            chk.sample({"source": name, "fn": r["fn"], "before": r["b"][:40], "after": r["a"][:40], "edits": r["edits"][:4]}, cap=5)
        for v in res.lines:
            m = re.match(r'<<"V", (\d+), "([^"]+)">>', v)
            if not m:
                continue
            r = json.loads(recs[int(m.group(1)) - 1])
            cls = "valid-utf8" if is_utf8(r["b"]) and is_utf8(r["a"]) else "invalid-utf8"
            chk.report("C22:%s:%s:%s" % (m.group(2), r["fn"], cls),
                       "%s (%s): before %s after %s edits %s applied %s" % (m.group(2), r["fn"], bytes(r["b"])[:60], bytes(r["a"])[:60],
                                                                         json.dumps(r["edits"])[:200], r.get("applyErr") or bytes(r["applied"])[:60]),
                       {"args": args, "index": int(m.group(1)), "verdict": m.group(2), "record": r if len(recs[int(m.group(1)) - 1]) < 4000 else {"fn": r["fn"], "b": r["b"], "a": r["a"]}})
    chk.cov["exhaustive"] = False
    chk.cov["explanation"] = ("states = records judged by TLC (one state per record); every record comes from one call of the real diff.Strings/diff.Bytes + "
                              "diff.Apply + toUnified on a pair of texts")


def replay(chk, path):
    rec = json.load(open(path))["record"]
    b = common.go_build("diffh")
    rc, so, se, to = common.run_child([b] + rec["args"], timeout=900)
    recs = so.splitlines()
    line = recs[rec["index"] - 1]
    res = common.run_tlc("diff", "Diff", "diff.cfg", workers=1, files={"trace.ndjson": line + "\n"}, timeout=600, collect_prefix='<<"V"')
    for v in res.lines:
        chk.report("C22:replayed", v, rec)
