CONSTANTS
  Mode = "rv"
  Emit = TRUE
INIT Init
NEXT Next
INVARIANTS Exact
