// Harness for the small pure-function properties: C24 (build tags), C19 (LEB128),
// C18 (pc-relative splitting).  Each mode reads raw TLC output lines with the cases and
// the specified outcomes, runs the real functions, and prints mismatches as JSON lines.
package main

import (
	"bufio"
	"encoding/json"
	"fmt"
	"os"
	"strings"

	"bytes"
	"encoding/binary"

	"wa-lang.org/wa/internal/loader/buildtag"
	"wa-lang.org/wa/internal/native/pcrel"
	"wa-lang.org/wa/internal/wasm/leb128"
)

func unescape(line string) (string, bool) {
	const pre = `<<"T", "`
	if !strings.HasPrefix(line, pre) || !strings.HasSuffix(line, `">>`) {
		return "", false
	}
	s := line[len(pre) : len(line)-3]
	s = strings.ReplaceAll(s, `\"`, `"`)
	s = strings.ReplaceAll(s, `\\`, `\`)
	return s, true
}

func eachCase(path string, fn func(js []byte)) {
	f, err := os.Open(path)
	must(err)
	defer f.Close()
	sc := bufio.NewScanner(f)
	sc.Buffer(make([]byte, 1<<20), 1<<24)
	for sc.Scan() {
		if js, ok := unescape(sc.Text()); ok {
			fn([]byte(js))
		}
	}
}

// ---------------------------------------------------------------- C24

type tagCase struct {
	Toks    []string `json:"toks"`
	Ok      bool     `json:"ok"`
	TT      []int    `json:"tt"`
	Printed []string `json:"printed"`
}

var assignments = [][]string{{}, {"a"}, {"b"}, {"a", "b"}, {"c"}, {"a", "c"}, {"b", "c"}, {"a", "b", "c"}}

func truth(x buildtag.Expr) []int {
	tt := make([]int, 8)
	for i, on := range assignments {
		set := map[string]bool{}
		for _, t := range on {
			set[t] = true
		}
		if x.Eval(func(tag string) bool { return set[tag] }) {
			tt[i] = 1
		}
	}
	return tt
}

func eqInts(a, b []int) bool {
	if len(a) != len(b) {
		return false
	}
	for i := range a {
		if a[i] != b[i] {
			return false
		}
	}
	return true
}

func isTag(s string) bool { return s == "a" || s == "b" || s == "c" }

// two renderings of a token string: single spaces, and as compact as the lexer allows
func render(toks []string, compact bool) string {
	var sb strings.Builder
	for i, t := range toks {
		if i > 0 && (!compact || (isTag(t) && isTag(toks[i-1]))) {
			sb.WriteByte(' ')
		}
		sb.WriteString(t)
	}
	return sb.String()
}

// the spacing String() uses: binary operators spaced, nothing after ! and ( or before )
func renderGo(toks []string) string {
	var sb strings.Builder
	for i, t := range toks {
		if i > 0 && toks[i-1] != "!" && toks[i-1] != "(" && t != ")" {
			sb.WriteByte(' ')
		}
		sb.WriteString(t)
	}
	return sb.String()
}

func parseSafe(line string) (x buildtag.Expr, err error) {
	defer func() {
		if e := recover(); e != nil {
			err = fmt.Errorf("PANIC: %v", e)
		}
	}()
	return buildtag.Parse(line)
}

func buildtagMain(path string) {
	out := bufio.NewWriter(os.Stdout)
	defer out.Flush()
	enc := json.NewEncoder(out)
	n, bad, accepted, drift := 0, 0, 0, 0
	fail := func(kind string, c *tagCase, line string, detail string) {
		bad++
		if bad <= 40 {
			enc.Encode(map[string]interface{}{"fail": kind, "case": c, "line": line, "detail": detail})
		}
	}
	eachCase(path, func(js []byte) {
		var c tagCase
		must(json.Unmarshal(js, &c))
		n++
		for _, compact := range []bool{false, true} {
			line := "#wa:build " + render(c.Toks, compact)
			if len(c.Toks) == 0 {
				line = "#wa:build"
			}
			x, err := parseSafe(line)
			if err != nil && strings.HasPrefix(err.Error(), "PANIC") {
				fail("panic", &c, line, err.Error())
				continue
			}
			if (err == nil) != c.Ok {
				if c.Ok {
					fail("rejects-wellformed", &c, line, err.Error())
				} else {
					fail("accepts-malformed", &c, line, x.String())
				}
				continue
			}
			if !c.Ok {
				continue
			}
			accepted++
			if tt := truth(x); !eqInts(tt, c.TT) {
				fail("eval", &c, line, fmt.Sprint(tt))
				continue
			}
			printed := x.String()
			y, err := parseSafe("#wa:build " + printed)
			if err != nil {
				fail("reparse-rejected", &c, line, printed+": "+err.Error())
				continue
			}
			if tt := truth(y); !eqInts(tt, c.TT) {
				fail("reparse-differs", &c, line, printed)
				continue
			}
			if printed != renderGo(c.Printed) {
				drift++
			}
		}
	})
	enc.Encode(map[string]interface{}{"done": true, "n": n, "bad": bad, "accepted": accepted, "drift": drift})
}

// ---------------------------------------------------------------- C19

type lebCase struct {
	Mode   string `json:"mode"`
	W      int    `json:"w"`
	Signed bool   `json:"signed"`
	V      []int  `json:"v"`
	Bytes  []int  `json:"bytes"`
	Res    struct {
		Err string `json:"err"`
		V   []int  `json:"v"`
		N   int    `json:"n"`
	} `json:"res"`
}

func le64(v []int) uint64 {
	var b [8]byte
	for i := range b {
		if i < len(v) {
			b[i] = byte(v[i])
		}
	}
	return binary.LittleEndian.Uint64(b[:])
}

func toB(a []int) []byte {
	b := make([]byte, len(a))
	for i, v := range a {
		b[i] = byte(v)
	}
	return b
}

type decOut struct {
	v   uint64
	n   uint64
	err error
}

// every decoder front end for (w, signed): name -> result (value as the 64-bit two's
// complement / zero extension the specification uses)
func decodeAll(w int, signed bool, in []byte) map[string]decOut {
	out := map[string]decOut{}
	rd := func() *bytes.Reader { return bytes.NewReader(in) }
	switch {
	case w == 32 && !signed:
		v, n, err := leb128.DecodeUint32(rd())
		out["DecodeUint32"] = decOut{uint64(v), n, err}
		v, n, err = leb128.LoadUint32(in)
		out["LoadUint32"] = decOut{uint64(v), n, err}
	case w == 32 && signed:
		v, n, err := leb128.DecodeInt32(rd())
		out["DecodeInt32"] = decOut{uint64(int64(v)), n, err}
		v, n, err = leb128.LoadInt32(in)
		out["LoadInt32"] = decOut{uint64(int64(v)), n, err}
	case w == 33 && signed:
		v, n, err := leb128.DecodeInt33AsInt64(rd())
		out["DecodeInt33AsInt64"] = decOut{uint64(v), n, err}
	case w == 64 && signed:
		v, n, err := leb128.DecodeInt64(rd())
		out["DecodeInt64"] = decOut{uint64(v), n, err}
		v, n, err = leb128.LoadInt64(in)
		out["LoadInt64"] = decOut{uint64(v), n, err}
	}
	return out
}

func lebMain(path string) {
	out := bufio.NewWriter(os.Stdout)
	defer out.Flush()
	enc := json.NewEncoder(out)
	n, bad, execs := 0, 0, 0
	fail := func(kind string, c *lebCase, fn string, detail string) {
		bad++
		if bad <= 60 {
			enc.Encode(map[string]interface{}{"fail": kind, "fn": fn, "case": c, "detail": detail})
		}
	}
	eachCase(path, func(js []byte) {
		var c lebCase
		must(json.Unmarshal(js, &c))
		n++
		func() {
			defer func() {
				if e := recover(); e != nil {
					fail("panic", &c, "", fmt.Sprint(e))
				}
			}()
			if c.Mode == "enc" {
				v := le64(c.V)
				var got []byte
				fn := ""
				switch {
				case c.W == 32 && !c.Signed:
					got, fn = leb128.EncodeUint32(uint32(v)), "EncodeUint32"
				case c.W == 32 && c.Signed:
					got, fn = leb128.EncodeInt32(int32(uint32(v))), "EncodeInt32"
				case c.W == 64 && !c.Signed:
					got, fn = leb128.EncodeUint64(v), "EncodeUint64"
				case c.W == 64 && c.Signed:
					got, fn = leb128.EncodeInt64(int64(v)), "EncodeInt64"
				}
				if fn != "" {
					execs++
					if !bytes.Equal(got, toB(c.Bytes)) {
						fail("encode", &c, fn, fmt.Sprintf("got % x", got))
					}
				}
				// the specified encoding must decode back to (v, len) on every front end,
				// also when followed by unrelated bytes
				for _, tail := range [][]byte{nil, {0x80, 0x01}} {
					in := append(toB(c.Bytes), tail...)
					for name, d := range decodeAll(c.W, c.Signed, in) {
						execs++
						if d.err != nil {
							fail("decode-rejects-valid", &c, name, d.err.Error())
						} else if d.v != v || d.n != uint64(len(c.Bytes)) {
							fail("decode-value", &c, name, fmt.Sprintf("got %#x n=%d", d.v, d.n))
						}
					}
				}
				return
			}
			for name, d := range decodeAll(c.W, c.Signed, toB(c.Bytes)) {
				execs++
				switch {
				case c.Res.Err != "" && d.err == nil:
					fail("decode-accepts-"+c.Res.Err, &c, name, fmt.Sprintf("got %#x n=%d", d.v, d.n))
				case c.Res.Err == "" && d.err != nil:
					fail("decode-rejects-valid", &c, name, d.err.Error())
				case c.Res.Err == "" && (d.v != le64(c.Res.V) || d.n != uint64(c.Res.N)):
					fail("decode-value", &c, name, fmt.Sprintf("got %#x n=%d", d.v, d.n))
				}
			}
		}()
	})
	enc.Encode(map[string]interface{}{"done": true, "n": n, "bad": bad, "execs": execs})
}

// ---------------------------------------------------------------- C18

type pcCase struct {
	Mode   string `json:"mode"`
	Delta  []int  `json:"delta"`
	Pc     []int  `json:"pc"`
	Target []int  `json:"target"`
	Hi     []int  `json:"hi"`
	Lo     []int  `json:"lo"`
}

func pcrelMain(path string) {
	out := bufio.NewWriter(os.Stdout)
	defer out.Flush()
	enc := json.NewEncoder(out)
	n, bad, execs := 0, 0, 0
	fail := func(kind string, c *pcCase, detail string) {
		bad++
		if bad <= 60 {
			enc.Encode(map[string]interface{}{"fail": kind, "case": c, "detail": detail})
		}
	}
	rvPcs := []int64{0, 4, 0x1000, 0x7ffff000, 0x80000000, 0xfffff000, 0x12345678}
	eachCase(path, func(js []byte) {
		var c pcCase
		must(json.Unmarshal(js, &c))
		n++
		func() {
			defer func() {
				if e := recover(); e != nil {
					fail("panic", &c, fmt.Sprint(e))
				}
			}()
			wantHi, wantLo := uint32(le64(c.Hi)), uint32(le64(c.Lo))
			if c.Mode == "rv" {
				delta := int32(uint32(le64(c.Delta)))
				hi, lo := pcrel.SplitOffset(delta)
				execs++
				if lo < -2048 || lo > 2047 {
					fail("rv-lo-out-of-range", &c, fmt.Sprintf("SplitOffset(%d) = (%d, %d)", delta, hi, lo))
				} else if uint32(hi)&0xFFFFF != wantHi || uint32(lo)&0xFFF != wantLo {
					fail("rv-split", &c, fmt.Sprintf("SplitOffset(%d) = (%d, %d), fields %#x %#x; specified %#x %#x", delta, hi, lo, uint32(hi)&0xFFFFF, uint32(lo)&0xFFF, wantHi, wantLo))
				}
				if got := pcrel.CombineOffset(hi, lo); got != delta {
					fail("rv-combine", &c, fmt.Sprintf("CombineOffset(SplitOffset(%d)) = %d", delta, got))
				}
				for _, pc := range rvPcs {
					target := int64(uint32(pc + int64(delta)))
					h2, l2 := pcrel.MakePCRel(target, pc)
					execs++
					if uint32(h2)&0xFFFFF != wantHi || uint32(l2)&0xFFF != wantLo {
						fail("rv-makepcrel", &c, fmt.Sprintf("MakePCRel(%#x, %#x) = (%d, %d)", target, pc, h2, l2))
						break
					}
					if got := pcrel.GetTargetAddress(uint32(pc), h2, l2); got != uint32(target) {
						fail("rv-target", &c, fmt.Sprintf("GetTargetAddress(%#x, %d, %d) = %#x, want %#x", pc, h2, l2, got, target))
						break
					}
				}
				if delta >= 0 {
					h3, l3 := pcrel.MakeAbs(uint32(delta))
					if uint32(h3)&0xFFFFF != wantHi || uint32(l3)&0xFFF != wantLo {
						fail("rv-makeabs", &c, fmt.Sprintf("MakeAbs(%#x) = (%d, %d)", delta, h3, l3))
					}
				}
				return
			}
			pc, target := int64(le64(c.Pc)), int64(le64(c.Target))
			hi, lo := pcrel.MakeLa64PCRel(target, pc)
			execs++
			if uint32(hi)&0xFFFFF != wantHi || uint32(lo)&0xFFF != wantLo {
				fail("la-split", &c, fmt.Sprintf("MakeLa64PCRel(%#x, %#x) = (%#x, %#x); specified fields %#x %#x", uint64(target), uint64(pc), hi, lo, wantHi, wantLo))
			}
		}()
	})
	enc.Encode(map[string]interface{}{"done": true, "n": n, "bad": bad, "execs": execs})
}

func must(err error) {
	if err != nil {
		fmt.Fprintln(os.Stderr, "harness error:", err)
		os.Exit(2)
	}
}

func main() {
	if len(os.Args) < 3 {
		os.Exit(2)
	}
	switch os.Args[1] {
	case "buildtag":
		buildtagMain(os.Args[2])
	case "leb":
		lebMain(os.Args[2])
	case "pcrel":
		pcrelMain(os.Args[2])
	default:
		os.Exit(2)
	}
}
