CONSTANTS
  Emit = TRUE
  MaxPerturbed = 2
  Constructs <- CZ
  ExtraBreakFills <- WzExtra
  StrictBounds = TRUE
INIT Init
NEXT Next
INVARIANT ModelOK
