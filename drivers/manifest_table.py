"""The table MANIFEST.json is generated from (python3 drivers/manifest.py)."""
HOOK_COMMITS = []
CHECKS = {}
NOT_APPLICABLE = {}


def claim(pid, category, technique, text, note, ref):
    CHECKS[pid] = (category, technique, text, note, ref)


def skip(pid, reason):
    NOT_APPLICABLE[pid] = reason


claim("C10", "model_checking", "TLA+ implementation spec refines contract (TLC) + transition replay on both allocator copies + TLC validation of recorded traces",
      "WaHeap.tla transcribes malloc.wat block by block; TLC checks the C10 contract (WaHeapContract: in-heap, aligned, large enough, "
      "no overlap, tiling, list well-formedness, writes outside live data, fails only when exhausted) in every state of bounded "
      "configurations (cap 0/1/2/3, page-boundary heap bases, 5-8 request sizes, up to 9 operations). Every transition of the emitted "
      "configurations is executed on both real allocator copies (internal/waroot/malloc/malloc.wat and waroot/src/runtime/heap_malloc.wat.ws) "
      "and compared step by step; random recorded executions are judged by TLC against the contract (WaHeapObs) and the implementation "
      "spec (WaHeapTrace). A verdict needs a real execution that the contract spec rejects.",
      "Trusted: TLC, the harness's projection of linear memory (list walks, canaries over the requested bytes), wazero as executor of the "
      "allocator. Bounded: sizes/configurations of the cfgs; recorded traces up to 2*10^4 events per run.",
      "DESIGN.md section 4 C10")

claim("C13", "model_checking", "TLA+ transcription of map.wa refines the finite-map contract (TLC) + every model transition and simulated long histories rendered as Wa programs and run by the real toolchain",
      "WaMap.tla transcribes waroot/src/runtime/map.wa (red-black tree + nodes slice) statement by statement; TLC checks that it refines "
      "FiniteMap.tla (lookup/comma-ok, len, range as a set of pairs) plus red-black and index invariants at bounded keys/values/operations. "
      "Every transition of the emitted bound, and TLC-simulated histories of 60-120 operations over 7 keys, are compiled into Wa programs for "
      "nine key kinds (int, i64, u8, string, f64, bool, struct, pointer, interface{} of mixed dynamic types) and executed with the real `wa run`; "
      "the observations must equal the contract's. The spec's prediction of the range order is compared too but only reported as drift.",
      "Trusted: TLC, the program renderer (operations interpreted from a byte string by a small Wa loop, so map operations use variable keys), "
      "`wa run` as executor. Not decided: NaN keys, mutation during range, maps of maps.",
      "DESIGN.md section 4 C13")
