-------------------------------- MODULE WaGen --------------------------------
(* C16: the space of program skeletons and their typing.  A type is a sequence *)
(* of constructors ending in a base type (<<"slice","array","int">> is         *)
(* [][2]int); a skeleton puts a value of one type into one context.  The spec  *)
(* decides which skeletons are well typed (comparability of map keys and of    *)
(* == operands) and what a well-typed one prints: the observation of the zero  *)
(* value, or of the initialiser in the contexts that store one.                *)
(* Role G: every well-typed skeleton must compile without an internal error to *)
(* a module that validates (C16) and print the specified observation (C01).    *)
EXTENDS Integers, Sequences, FiniteSets, TLC, Json
CONSTANTS Emit, Depth
Bases == {"int", "string", "bool", "f64", "u8", "i64", "struct", "iface", "func"}
Ctors == {"ptr", "slice", "array", "mapval", "mapkey"}   \* mapval: map[string]T, mapkey: map[T]int
AllTypes == UNION {{cs \o <<b>> : cs \in [1..n -> Ctors], b \in Bases} : n \in 0..Depth}

RECURSIVE Comparable(_)
Comparable(t) == IF Len(t) = 1 THEN t[1] # "func"
                 ELSE CASE t[1] = "ptr" -> TRUE
                        [] t[1] = "array" -> Comparable(Tail(t))
                        [] OTHER -> FALSE
RECURSIVE WellFormed(_)
WellFormed(t) == IF Len(t) = 1 THEN TRUE
                 ELSE /\ WellFormed(Tail(t))
                      /\ (t[1] = "mapkey" => Comparable(Tail(t)))

BaseZero == [int |-> "0", string |-> "0", bool |-> "false", f64 |-> "true", u8 |-> "0", i64 |-> "0", struct |-> "0", iface |-> "true", func |-> "true"]
BaseInit == [int |-> "7", string |-> "2", bool |-> "true", f64 |-> "false", u8 |-> "200", i64 |-> "1099511627776", struct |-> "1", iface |-> "false", func |-> "false"]
\* what the observation of a value prints: nil-ness of references, length of containers, element 1 of arrays
RECURSIVE Obs(_, _)
Obs(t, init) == IF Len(t) = 1 THEN (IF init THEN BaseInit[t[1]] ELSE BaseZero[t[1]])
                ELSE CASE t[1] = "ptr" -> (IF init THEN "false" ELSE "true")
                       [] t[1] \in {"slice", "mapval", "mapkey"} -> (IF init THEN "1" ELSE "0")
                       [] t[1] = "array" -> Obs(Tail(t), init)

ZeroContexts == {"local-zero", "global-zero", "param", "result", "field", "slice-elem", "array-elem", "map-value", "closure-capture", "iface-box",
                 "ptr-deref", "multi-result", "method-receiver-field", "defer-arg", "range", "nested-closure"}
InitContexts == {"local-init", "global-init", "append-elem", "iface-map-value", "struct-literal-field", "assign-through-ptr"}
\* calls whose results are discarded: the program only has to compile and reach its last statement
DiscardContexts == {"defer-result", "defer-method-result", "defer-closure-result", "discard-result", "empty-loop", "empty-loop-call"}
Contexts == ZeroContexts \cup InitContexts \cup DiscardContexts \cup {"eq-self"}

WellTyped(t, c) == WellFormed(t) /\ (c = "eq-self" => Comparable(t))
Want(t, c) == IF c = "eq-self" THEN "true" ELSE IF c \in DiscardContexts THEN "ok" ELSE Obs(t, c \in InitContexts)

\* ill-typed skeletons are kept in the two contexts where the error is the type's or the comparison's
Skeletons == {s \in [type : AllTypes, ctx : Contexts] : WellTyped(s.type, s.ctx) \/ s.ctx \in {"local-zero", "eq-self"}}

VARIABLES sk, done
Init == sk \in Skeletons /\ done = FALSE
Next == /\ ~done /\ done' = TRUE /\ UNCHANGED sk
        /\ (Emit => PrintT(<<"T", ToJson([type |-> sk.type, ctx |-> sk.ctx,
                                           expect |-> IF WellTyped(sk.type, sk.ctx) THEN "compiles" ELSE "rejected",
                                           want |-> IF WellTyped(sk.type, sk.ctx) THEN Want(sk.type, sk.ctx) ELSE ""])>>))
\* sanity of the typing model itself
ModelOK == /\ Comparable(<<"array", "ptr", "slice", "int">>) /\ ~Comparable(<<"array", "slice", "int">>)
           /\ ~WellFormed(<<"slice", "mapkey", "func">>) /\ WellFormed(<<"mapkey", "array", "struct">>)
           /\ Obs(<<"array", "array", "i64">>, TRUE) = "1099511627776"
=============================================================================
