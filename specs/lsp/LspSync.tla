------------------------------ MODULE LspSync ------------------------------
(* C21: language-server document synchronisation.                             *)
(* Code points: "a" (1 UTF-8 byte, 1 UTF-16 unit)  "e" (2,1)  "z" (3,1)       *)
(* "g" (4 bytes, 2 units: astral plane)  "r" = CR  "n" = LF.                  *)
(* Client side = the LSP definition of a position (line = line terminators    *)
(* before it, character = UTF-16 units since the line start).  Server side =  *)
(* internal/lsp/protocol/mapper.go transcribed (line table on LF, the unit-   *)
(* counting loop of PositionOffset with its surrogate rule, splice).          *)
(* Contract: after every valid notification the server's text equals the      *)
(* client's; an invalid range is answered with an error and changes nothing.  *)
EXTENDS Integers, Sequences, FiniteSets, TLC, Json
CONSTANTS MaxDoc, MaxIns, MaxOps, CP, Emit, Two

Units(c) == IF c = "g" THEN 2 ELSE 1

\* CR only immediately before LF (lone CR is outside the property's domain)
WellFormed(d) == \A i \in 1..Len(d) : d[i] = "r" => (i < Len(d) /\ d[i + 1] = "n")
Texts(n) == UNION { { t \in [1..k -> CP] : WellFormed(t) } : k \in 0..n }

VARIABLES cdoc, sdoc, lastErr, expectErr, nops
vars == <<cdoc, sdoc, lastErr, expectErr, nops>>

\* ---------------- client side: LSP positions ----------------
\* boundary index i in 0..Len(d): the position before d[i+1]
ValidBoundary(d, i) == ~(i >= 1 /\ i < Len(d) /\ d[i] = "r")       \* never between CR and LF
RECURSIVE LineOf(_, _)
LineOf(d, i) == IF i = 0 THEN 0 ELSE LineOf(d, i - 1) + (IF d[i] = "n" THEN 1 ELSE 0)
RECURSIVE CharOf(_, _)
CharOf(d, i) == IF i = 0 \/ d[i] = "n" THEN 0 ELSE CharOf(d, i - 1) + Units(d[i])
Pos(d, i) == [line |-> LineOf(d, i), char |-> CharOf(d, i)]
Splice(d, i, j, t) == SubSeq(d, 1, i) \o t \o SubSeq(d, j + 1, Len(d))

\* ---------------- server side: mapper.go on the stored text ----------------
\* lineStart[k] (0-based k) as a code-point boundary index
LineStarts(d) == <<0>> \o SelectSeq([i \in 1..Len(d) |-> IF d[i] = "n" THEN i ELSE -1], LAMBDA x : x # -1)
\* PositionOffset: boundary index or -1 (error)
RECURSIVE Walk(_, _, _, _)
Walk(d, off, col16, want) ==
  IF col16 >= want THEN off
  ELSE IF off >= Len(d) THEN -1                      \* column is beyond end of file
  ELSE LET c == d[off + 1] IN
       IF c = "n" THEN -1                            \* column is beyond end of line
       ELSE IF Units(c) = 2
            THEN IF col16 + 1 = want THEN off        \* middle of a surrogate pair: stops before the rune
                 ELSE Walk(d, off + 1, col16 + 2, want)
            ELSE Walk(d, off + 1, col16 + 1, want)
PositionOffset(d, p) ==
  LET ls == LineStarts(d) IN
  IF p.line > Len(ls) THEN -1
  ELSE IF p.line = Len(ls) THEN (IF p.char = 0 THEN Len(d) ELSE -1)
  ELSE Walk(d, ls[p.line + 1], 0, p.char)

ServerApply(d, rng, t) ==
  LET s == PositionOffset(d, rng.start)  e == PositionOffset(d, rng.end) IN
  IF s = -1 \/ e = -1 \/ e < s THEN [ok |-> FALSE, doc |-> d]
  ELSE [ok |-> TRUE, doc |-> Splice(d, s, e, t)]

\* applyIncrementalChanges: changes applied one after the other; the first error aborts
\* the notification and the stored text keeps its old value
RECURSIVE ServerApplyAll(_, _)
ServerApplyAll(d, chs) ==
  IF chs = << >> THEN [ok |-> TRUE, doc |-> d]
  ELSE LET r == ServerApply(d, Head(chs).rng, Head(chs).t) IN
       IF ~r.ok THEN [ok |-> FALSE, doc |-> d] ELSE ServerApplyAll(r.doc, Tail(chs))

\* ---------------- actions ----------------
Init == cdoc \in Texts(MaxDoc) /\ sdoc = cdoc /\ lastErr = FALSE /\ expectErr = FALSE /\ nops = 0   \* DidOpen(text)

Change(d, i, j, t) == [rng |-> [start |-> Pos(d, i), end |-> Pos(d, j)], t |-> t]

Notify(kind, chs, want, xerr) ==
  LET r == ServerApplyAll(sdoc, chs) IN
  /\ sdoc' = IF r.ok THEN r.doc ELSE sdoc
  /\ lastErr' = ~r.ok
  /\ expectErr' = xerr
  /\ cdoc' = want
  /\ (Emit => PrintT(<<"T", ToJson([doc |-> cdoc, kind |-> kind, changes |-> chs, want |-> want, err |-> xerr])>>))
  /\ nops' = nops + 1

\* one incremental change, every client-valid range, every inserted text
ChangeIncr(i, j, t) ==
  /\ nops < MaxOps
  /\ ValidBoundary(cdoc, i) /\ ValidBoundary(cdoc, j)
  /\ LET nd == Splice(cdoc, i, j, t) IN
     /\ WellFormed(nd) /\ Len(nd) <= MaxDoc + MaxIns
     /\ Notify("incr", <<Change(cdoc, i, j, t)>>, nd, FALSE)

\* two changes in one notification: the second range refers to the text after the first
ChangeIncr2(i, j, t, i2, j2, t2) ==
  /\ Two /\ nops < MaxOps
  /\ ValidBoundary(cdoc, i) /\ ValidBoundary(cdoc, j)
  /\ LET d1 == Splice(cdoc, i, j, t) IN
     /\ WellFormed(d1)
     /\ i2 <= Len(d1) /\ j2 <= Len(d1) /\ i2 <= j2
     /\ ValidBoundary(d1, i2) /\ ValidBoundary(d1, j2)
     /\ LET d2 == Splice(d1, i2, j2, t2) IN
        /\ WellFormed(d2) /\ Len(d2) <= MaxDoc + MaxIns
        /\ Notify("incr", <<Change(cdoc, i, j, t), Change(d1, i2, j2, t2)>>, d2, FALSE)

\* full-document change (no range)
ChangeFull(t) ==
  /\ nops < MaxOps
  /\ sdoc' = t /\ cdoc' = t /\ lastErr' = FALSE /\ expectErr' = FALSE
  /\ (Emit => PrintT(<<"T", ToJson([doc |-> cdoc, kind |-> "full", changes |-> << >>, want |-> t, err |-> FALSE])>>))
  /\ nops' = nops + 1

\* invalid ranges: line beyond the last line + 1, character far beyond the end of the
\* line, end before start.  The client keeps its text; the server must answer with an error.
LastLine(d) == LineOf(d, Len(d))
RECURSIVE LineLen(_, _, _)
LineLen(d, i, line) == IF i > Len(d) THEN 0
                       ELSE IF LineOf(d, i - 1) > line THEN 0
                       ELSE (IF LineOf(d, i - 1) = line /\ d[i] # "n" THEN Units(d[i]) ELSE 0) + LineLen(d, i + 1, line)
ChangeInvalid(kind, i, t) ==
  /\ nops < MaxOps
  /\ ValidBoundary(cdoc, i)
  /\ LET p == Pos(cdoc, i)
         bad == CASE kind = "line" -> [start |-> p, end |-> [line |-> LastLine(cdoc) + 2, char |-> 0]]
                  [] kind = "char" -> [start |-> p, end |-> [line |-> p.line, char |-> LineLen(cdoc, 1, p.line) + 3]]
                  [] kind = "order" -> [start |-> Pos(cdoc, Len(cdoc)), end |-> p]
     IN /\ (kind = "order" => i < Len(cdoc) /\ Pos(cdoc, Len(cdoc)) # p)
        /\ Notify("invalid", <<[rng |-> bad, t |-> t]>>, cdoc, TRUE)

Next == \/ \E i \in 0..Len(cdoc) : \E j \in i..Len(cdoc) : \E t \in Texts(MaxIns) : ChangeIncr(i, j, t)
        \/ \E i \in 0..Len(cdoc) : \E j \in i..Len(cdoc) : \E t \in Texts(1) :
             \E i2 \in 0..(Len(cdoc) + 1) : \E j2 \in i2..(Len(cdoc) + 1) : \E t2 \in Texts(1) : ChangeIncr2(i, j, t, i2, j2, t2)
        \/ \E t \in Texts(MaxIns) : ChangeFull(t)
        \/ \E kind \in {"line", "char", "order"} : \E i \in 0..Len(cdoc) : \E t \in Texts(1) : ChangeInvalid(kind, i, t)

\* the property
InSync == sdoc = cdoc
ErrorsExact == lastErr = expectErr
View == <<cdoc, sdoc, lastErr, expectErr>>
=============================================================================
