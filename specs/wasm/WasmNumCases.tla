---------------------------- MODULE WasmNumCases ----------------------------
(* Vector mode over WasmNum: every (type, operator, operands) of the chosen   *)
(* operand set; TLC evaluates the reference and emits the specified outcome.  *)
EXTENDS WasmNum, Json
CONSTANTS Full, Emit, Widths
VARIABLES case, done
Vals(W) == IF Full THEN Boundary(W) ELSE Small(W)
Cases == UNION { { <<"bin", W, op, a, b>> : op \in BinOps \cup RelOps, a \in Vals(W), b \in Vals(W) }
                 \cup { <<"un", W, op, a, a>> : op \in UnOps(W), a \in Boundary(W) } : W \in Widths }
         \cup { <<"conv", 64, "i32.wrap_i64", a, a>> : a \in Boundary(64) }
         \cup { <<"conv", 32, op, a, a>> : op \in {"i64.extend_i32_s", "i64.extend_i32_u"}, a \in Boundary(32) }
Init == case \in Cases /\ done = FALSE
Result(c) == CASE c[1] = "bin" -> (IF c[3] \in BinOps THEN Bin(c[3], c[4], c[5]) ELSE Rel(c[3], c[4], c[5]))
               [] c[1] = "un" -> Un(c[3], c[4])
               [] c[1] = "conv" -> Conv(c[3], c[4])
Step == /\ ~done /\ done' = TRUE /\ UNCHANGED case
        /\ LET r == Result(case) IN
           Emit => PrintT(<<"T", ToJson([kind |-> case[1], w |-> case[2], op |-> case[3], a |-> case[4], b |-> case[5],
                                         trap |-> IF IsTrap(r) THEN r[2] ELSE "", r |-> IF IsTrap(r) THEN << >> ELSE r])>>)
Next == Step
\* algebraic laws of the reference itself, on every case
Laws == done =>
  (case[1] = "bin" /\ case[5] # Zero(case[2]) =>
     LET a == case[4] b == case[5] IN
     /\ Add(Mul(DivU(a, b), b), RemU(a, b)) = a
     /\ (~(a = MinS(case[2]) /\ b = AllOnes(case[2])) => Add(Mul(DivS(a, b), b), RemS(a, b)) = a)
     /\ Rotr(Rotl(a, b[1] % case[2]), b[1] % case[2]) = a
     /\ Add(a, Neg(a)) = Zero(case[2]))
=============================================================================
