CONSTANTS
  N = 3
  Emit = TRUE
  ExportSets <- Ex3
  ElemSets <- El3
  StartSet <- St3
  ImportSet <- Im
INIT Init
NEXT Next
VIEW View
INVARIANTS MarkIsReach
