CONSTANTS
  Emit = TRUE
  Group = "ctl"
INIT Init
NEXT Next
