---------------------------- MODULE WasmNumCases ----------------------------
(* Vector mode over WasmNum: every (type, operator, operands) of the chosen   *)
(* operand set; TLC evaluates the reference and emits the specified outcome.  *)
EXTENDS WasmNum, Json
CONSTANTS Full, Emit, Widths, MemAddrs
VARIABLES case, done

\* ---- memory: store then load at the same effective address (little endian, truncation,
\* sign / zero extension), and bounds of single loads near the end of a one-page memory ----
StoreOps == {<<"i32.store", 32, 4>>, <<"i32.store8", 32, 1>>, <<"i32.store16", 32, 2>>,
             <<"i64.store", 64, 8>>, <<"i64.store8", 64, 1>>, <<"i64.store16", 64, 2>>, <<"i64.store32", 64, 4>>}
LoadOps == {<<"i32.load", 32, 4, "u">>, <<"i32.load8_s", 32, 1, "s">>, <<"i32.load8_u", 32, 1, "u">>,
            <<"i32.load16_s", 32, 2, "s">>, <<"i32.load16_u", 32, 2, "u">>,
            <<"i64.load", 64, 8, "u">>, <<"i64.load8_s", 64, 1, "s">>, <<"i64.load8_u", 64, 1, "u">>,
            <<"i64.load16_s", 64, 2, "s">>, <<"i64.load16_u", 64, 2, "u">>, <<"i64.load32_s", 64, 4, "s">>, <<"i64.load32_u", 64, 4, "u">>}
MemVals(W) == { Zero(W), FromInt(-1, W), MinS(W), MaxS(W), FromInt(128, W), FromInt(-129, W), FromInt(32768, W), FromInt(-32769, W),
                FromInt(305419896, W), Add(Shl(One(W), W - 1), FromInt(2147483647, W)) }
\* the 16 bytes at the effective address were zero; the store overwrites the first n of them
StoreLoad(st, ld, v) ==
  LET region == [i \in 1..16 |-> IF i <= st[3] THEN v[i] ELSE 0]
      raw == SubSeq(region, 1, ld[3])
  IN IF ld[4] = "s" THEN SExt(raw, ld[2]) ELSE ZExt(raw, ld[2])
PageBytes == 65536
MemCases == { <<"mem", st, ld, v, addr, off>> : st \in StoreOps, ld \in LoadOps, v \in UNION {MemVals(32), MemVals(64)},
                                               addr \in MemAddrs, off \in {0, 4} }
BoundCases == { <<"ldb", ld, ld, Zero(32), addr, off>> : ld \in LoadOps, addr \in {65535, 65536, 65532, 65528, 65529, 65533, 1073741824}, off \in {0, 1} }
\* immediates at the edges of the signed LEB128 groups
LebEdges(W) == UNION { { FromInt(63, W), FromInt(64, W), FromInt(-64, W), FromInt(-65, W), FromInt(8191, W), FromInt(8192, W),
                         FromInt(-8192, W), FromInt(-8193, W), FromInt(1048575, W), FromInt(1048576, W), FromInt(-1048577, W),
                         FromInt(134217727, W), FromInt(134217728, W), FromInt(-134217729, W) } }
\* index-space cases: a module with k entries in front of the one that is used; what the probe
\* function returns is fixed by the rendering (harness) and stated here:
\*   blocktype: block (result i32 i32) 7 9 end add            -> 16
\*   call:      the function behind k padding functions       -> 3000 + k
\*   local:     local number k (named), set to 1000 + k        -> 1000 + k
\*   global:    the global behind k padding globals            -> 2000 + k
IdxKs == (58..70) \cup (122..134) \cup {0, 1, 2, 200}
IdxVal(fam, k) == CASE fam = "blocktype" -> 16 [] fam = "call" -> 3000 + k [] fam = "local" -> 1000 + k [] fam = "global" -> 2000 + k
Vals(W) == IF Full THEN Boundary(W) ELSE Small(W)
Cases == UNION { { <<"bin", W, op, a, b>> : op \in BinOps \cup RelOps, a \in Vals(W), b \in Vals(W) }
                 \cup { <<"un", W, op, a, a>> : op \in UnOps(W), a \in Boundary(W) } : W \in Widths }
         \cup { <<"conv", 64, "i32.wrap_i64", a, a>> : a \in Boundary(64) }
         \cup { <<"conv", 32, op, a, a>> : op \in {"i64.extend_i32_s", "i64.extend_i32_u"}, a \in Boundary(32) }
         \cup { c \in MemCases : Width(c[4]) = c[2][2] }
         \cup BoundCases
         \cup UNION { { <<"const", W, "const", v, v>> : v \in Boundary(W) \cup LebEdges(W) } : W \in Widths }
         \cup { <<"idx", 32, fam, FromInt(k, 32), FromInt(k, 32)>> : fam \in {"blocktype", "call", "local", "global"}, k \in IdxKs }
Init == case \in Cases /\ done = FALSE
Result(c) == CASE c[1] = "const" -> c[4]
               [] c[1] = "idx" -> FromInt(IdxVal(c[3], ToNat(c[4])), 32)
               [] c[1] = "bin" -> (IF c[3] \in BinOps THEN Bin(c[3], c[4], c[5]) ELSE Rel(c[3], c[4], c[5]))
               [] c[1] = "un" -> Un(c[3], c[4])
               [] c[1] = "conv" -> Conv(c[3], c[4])
Step == /\ ~done /\ done' = TRUE /\ UNCHANGED case
        /\ IF case[1] \in {"mem", "ldb"}
           THEN LET oob == case[5] + case[6] + (IF case[1] = "mem" THEN 16 ELSE case[3][3]) > PageBytes
                    r == IF oob THEN Trap("out of bounds memory access")
                         ELSE IF case[1] = "mem" THEN StoreLoad(case[2], case[3], case[4]) ELSE Zero(case[3][2])
                IN Emit => PrintT(<<"T", ToJson([kind |-> case[1], w |-> case[3][2], op |-> case[2][1], op2 |-> case[3][1], a |-> case[4],
                                                 b |-> case[4], addr |-> case[5], off |-> case[6],
                                                 trap |-> IF IsTrap(r) THEN r[2] ELSE "", r |-> IF IsTrap(r) THEN << >> ELSE r])>>)
           ELSE LET r == Result(case) IN
                Emit => PrintT(<<"T", ToJson([kind |-> case[1], w |-> case[2], op |-> case[3], op2 |-> "", a |-> case[4], b |-> case[5], addr |-> 0, off |-> 0,
                                              trap |-> IF IsTrap(r) THEN r[2] ELSE "", r |-> IF IsTrap(r) THEN << >> ELSE r])>>)
Next == Step
\* algebraic laws of the reference itself, on every case
Laws == done =>
  (case[1] = "bin" /\ case[3] \in BinOps /\ case[5] # Zero(case[2]) =>
     LET a == case[4] b == case[5] IN
     /\ Add(Mul(DivU(a, b), b), RemU(a, b)) = a
     /\ (~(a = MinS(case[2]) /\ b = AllOnes(case[2])) => Add(Mul(DivS(a, b), b), RemS(a, b)) = a)
     /\ Rotr(Rotl(a, b[1] % case[2]), b[1] % case[2]) = a
     /\ Add(a, Neg(a)) = Zero(case[2]))
=============================================================================
