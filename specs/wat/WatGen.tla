------------------------------- MODULE WatGen -------------------------------
(* C05: the module space for the printer round trip.  A module is a choice    *)
(* per section kind; TLC enumerates the product (role G: the specified        *)
(* outcome is an identity - print(parse(m)) assembles to the same binary as   *)
(* m, and printing is idempotent).  The harness renders each record as WAT.   *)
EXTENDS Integers, Sequences, FiniteSets, TLC, Json
CONSTANTS Emit

Memory == {"none", "1", "1 1", "1 2", "0 3", "2 65536"}
Table == {"none", "2", "2 2", "1 4"}
Globals == {"none", "const-i32", "mut-i64+const-i32"}
Data == {"none", "one", "two"}                       \* only with a memory
Imports == {"none", "func-named", "func-anon", "func+global"}
Exports == {"inline", "standalone", "memory+global", "inline+alias"}   \* inline+alias: a function exported under its inline name and under a second, standalone one
Start == {FALSE, TRUE}
Elem == {"none", "one"}                              \* only with a table
Body == {"arith", "control", "locals"}

VARIABLES m, done
Init == /\ m \in [mem : Memory, table : Table, globals : Globals, data : Data, imports : Imports,
                  exports : Exports, start : Start, elem : Elem, body : Body]
        /\ (m.data # "none" => m.mem \notin {"none", "0 3"})
        /\ (m.elem # "none" => m.table # "none")
        /\ (m.exports = "memory+global" => m.mem # "none" /\ m.globals # "none")
        /\ done = FALSE
Step == /\ ~done /\ done' = TRUE /\ UNCHANGED m
        /\ (Emit => PrintT(<<"T", ToJson(m)>>))
Next == Step
=============================================================================
