"""C06 -- watstrip: WatStrip.tla (call graphs with placements of call sites, exports,
table entries, start; reachability fixed point; the marking pass transcribed) with every
graph rendered as a WAT module, stripped by the real watstrip, and the retained set,
validity and behaviour compared with the specification."""
import json
import os

import common
from common import MachineryError

LEVEL = "model_checking"


def cfg(n, ex, el, st, im):
    return """CONSTANTS
  N = %d
  Emit = TRUE
  ExportSets <- %s
  ElemSets <- %s
  StartSet <- %s
  ImportSet <- %s
INIT Init
NEXT Next
VIEW View
INVARIANTS MarkIsReach
""" % (n, ex, el, st, im)


def run(chk):
    b = common.go_build("wat")
    thorough = chk.tier == "thorough"
    chk.assume("modules are the rendering of harness/wat/main.go: functions f1..fN with a fuel parameter, calls at top level / in a block / in an else arm / after a return, "
               "inline exports, one table with an elem segment reached through call_indirect, an optional start function writing a global")
    chk.assume("exports of imported functions and standalone (export ...) fields are outside this check (they belong to the printer property C05)")
    confs = [("n=3 all call relations", 3, "Ex3", "El3", "St3", "Im", 4)]
    if thorough:
        confs = [("n=3 all call relations", 3, "Ex3", "El3", "St3", "Im", 1), ("n=4 all call relations", 4, "Ex2", "El3", "St3", "Im", 8)]
    d = common.subdir("c06")
    for name, n, ex, el, st, im, every in confs:
        path = os.path.join(d, "g.txt")
        with open(path, "w") as fh:
            res = common.run_tlc("wat", "WatStripMC", "c.cfg", files={"c.cfg": cfg(n, ex, el, st, im)}, collect_prefix='<<"T"', timeout=3000,
                                 line_cb=lambda l: fh.write(l + "\n"))
        chk.tlc(res, name)
        rc, so, se, to = common.run_child([b, "strip", path, str(every)], timeout=3000)
        first = open(path).readline().rstrip("\n")
        os.unlink(path)
        if rc != 0:
            raise MachineryError("wat harness failed: " + se[-1500:])
        lines = [json.loads(l) for l in so.splitlines() if l.strip()]
        done = [l for l in lines if l.get("done")][0]
        if done["n"] == 0 or done["executed"] == 0:
            raise MachineryError("nothing replayed")
        if done["specbad"]:
            raise MachineryError("the engine's results for the ORIGINAL modules differ from WatStrip.tla's Val: renderer and spec disagree (%s)" % lines[0])
        chk.add("traces_validated_against_impl", done["n"])
        chk.add("modules_executed_before_and_after", done["executed"])
        if done["drift"]:
            chk.notes.append("model drift: %d graphs where the retained set equals Reach but not the transcribed marking pass" % done["drift"])
        p = common.parse_printt(first, "T")
        if p:
            chk.sample(json.loads(p[0]))
        fails = [l for l in lines if "fail" in l]
        for l in fails:
            c = l["case"]
            chk.report("C06:%s:%s" % (l["fail"], "start" if c["start"] else ("elem" if c["elems"] else "export")),
                       "%s: %s; graph calls=%s exports=%s elems=%s start=%s imported=%s" % (l["fail"], l["detail"], c["calls"], c["exports"], c["elems"], c["start"], c["imported"]), l)
        if res.violated and not fails:
            raise MachineryError("WatStrip.tla: the transcribed marking pass differs from the fixed point (%s) but the real watstrip agrees with the contract" % res.violated)
    chk.cov["exhaustive"] = True
    chk.cov["explanation"] = ("every call relation on N functions x the listed root configurations: retained function set = reachability fixed point, the stripped module "
                              "assembles, and (for every k-th module) exports, table entries and the start effect return the same values before and after on the embedded engine")


def replay(chk, path):
    rec = json.load(open(path))["record"]
    b = common.go_build("wat")
    d = common.subdir("c06")
    p = os.path.join(d, "r.txt")
    js = json.dumps(rec["case"]).replace("\\", "\\\\").replace('"', '\\"')
    open(p, "w").write('<<"T", "%s">>\n' % js)
    rc, so, se, to = common.run_child([b, "strip", p, "1"], timeout=60)
    for l in so.splitlines():
        l = json.loads(l)
        if "fail" in l:
            chk.report("C06:replayed:" + l["fail"], l["detail"], l)
