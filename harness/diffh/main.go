// Harness for C22: calls the real diff package on pairs of texts and logs, per pair,
// the edits, what the package's own Apply returns and the hunks of the unified rendering.
// TLC (specs/diff/Diff.tla) judges every record.
//
//	diffh gen  -maxlen N -alpha ascii|utf8|invalid      exhaustive pairs over a small alphabet
//	diffh rand -seed S -n N -len L -alpha K             long random / mutated pairs
package main

import (
	"bufio"
	"encoding/json"
	"flag"
	"fmt"
	"math/rand"
	"os"
	"strings"

	"wa-lang.org/wa/internal/lsp/diff"
)

type edit struct {
	S   int   `json:"s"`
	E   int   `json:"e"`
	New []int `json:"new"`
}
type hline struct {
	K string `json:"k"`
	C []int  `json:"c"`
}
type hunk struct {
	From  int     `json:"from"`
	To    int     `json:"to"`
	Lines []hline `json:"lines"`
}
type record struct {
	Fn         string    `json:"fn"`
	Ctx        int       `json:"ctx"`
	B          []int     `json:"b"`
	A          []int     `json:"a"`
	Edits      []edit    `json:"edits"`
	Applied    []int     `json:"applied"`
	ApplyErr   string    `json:"applyErr"`
	Hunks      []hunk    `json:"hunks"`
	TLines     [][]hline `json:"tlines"` // the hunk lines a reader parses out of the rendered text (ToUnified)
	TextErr    string    `json:"textErr"`
	UnifiedErr string    `json:"unifiedErr"`
	Panic      string    `json:"panic,omitempty"`
}

func ints(s string) []int {
	out := make([]int, len(s))
	for i := 0; i < len(s); i++ {
		out[i] = int(s[i])
	}
	return out
}

func observe(fn string, before, after string, ctx int) (rec record) {
	rec = record{Fn: fn, Ctx: ctx, B: ints(before), A: ints(after), Edits: []edit{}, Applied: []int{}, Hunks: []hunk{}, TLines: [][]hline{}}
	defer func() {
		if e := recover(); e != nil {
			rec.Panic = fmt.Sprint(e)
		}
	}()
	var es []diff.Edit
	if fn == "Strings" {
		es = diff.Strings(before, after)
	} else {
		es = diff.Bytes([]byte(before), []byte(after))
	}
	for _, e := range es {
		rec.Edits = append(rec.Edits, edit{e.Start, e.End, ints(e.New)})
	}
	got, err := diff.Apply(before, es)
	if err != nil {
		rec.ApplyErr = err.Error()
	} else {
		rec.Applied = ints(got)
	}
	hs, err := diff.VerifHunks(before, es, ctx)
	if err != nil {
		rec.UnifiedErr = err.Error()
	}
	for _, h := range hs {
		vh := hunk{From: h.From, To: h.To, Lines: []hline{}}
		for _, l := range h.Lines {
			vh.Lines = append(vh.Lines, hline{l.Kind, ints(l.Content)})
		}
		rec.Hunks = append(rec.Hunks, vh)
	}
	if err == nil {
		txt, terr := diff.ToUnified("a", "b", before, es, ctx)
		if terr != nil {
			rec.TextErr = terr.Error()
		} else {
			rec.TLines, rec.TextErr = parseUnified(txt)
		}
	}
	return rec
}

var alphabets = map[string][]string{
	"ascii":   {"a", "b", "\n"},
	"utf8":    {"a", "\n", "é", "中", "\U0001F600"},
	"invalid": {"a", "\n", "é", "\xff", "\xa9"},
}

func allTexts(alpha []string, maxlen int) []string {
	out := []string{""}
	level := []string{""}
	for k := 0; k < maxlen; k++ {
		var next []string
		for _, p := range level {
			for _, s := range alpha {
				next = append(next, p+s)
			}
		}
		out = append(out, next...)
		level = next
	}
	return out
}

func main() {
	if len(os.Args) < 2 {
		os.Exit(2)
	}
	fs := flag.NewFlagSet(os.Args[1], flag.ExitOnError)
	maxlen := fs.Int("maxlen", 3, "")
	alpha := fs.String("alpha", "ascii", "")
	seed := fs.Int64("seed", 1, "")
	n := fs.Int("n", 100, "")
	length := fs.Int("len", 300, "")
	shard := fs.Int("shard", 0, "")
	shards := fs.Int("shards", 1, "")
	fs.Parse(os.Args[2:])
	out := bufio.NewWriterSize(os.Stdout, 1<<20)
	defer out.Flush()
	enc := json.NewEncoder(out)
	switch os.Args[1] {
	case "gen":
		texts := allTexts(alphabets[*alpha], *maxlen)
		k := 0
		for _, b := range texts {
			for _, a := range texts {
				k++
				if k%*shards != *shard {
					continue
				}
				enc.Encode(observe("Strings", b, a, k%3))
				enc.Encode(observe("Bytes", b, a, (k+1)%3))
			}
		}
	case "rand":
		rng := rand.New(rand.NewSource(*seed))
		al := alphabets[*alpha]
		mk := func(l int) string {
			s := ""
			for i := 0; i < l; i++ {
				s += al[rng.Intn(len(al))]
			}
			return s
		}
		for i := 0; i < *n; i++ {
			b := mk(*length/2 + rng.Intn(*length))
			var a string
			switch i % 3 {
			case 0: // unrelated text: large edit distance
				a = mk(*length/2 + rng.Intn(*length))
			case 1: // many scattered mutations
				bs := []byte(b)
				for j := 0; j < len(bs); j += 1 + rng.Intn(4) {
					bs[j] = al[rng.Intn(len(al))][0]
				}
				a = string(bs)
			default: // a few block edits
				a = b
				for j := 0; j < 1+rng.Intn(4) && len(a) > 2; j++ {
					p := rng.Intn(len(a))
					q := p + rng.Intn(len(a)-p)
					a = a[:p] + mk(rng.Intn(20)) + a[q:]
				}
			}
			fn := "Strings"
			if i%2 == 1 {
				fn = "Bytes"
			}
			enc.Encode(observe(fn, b, a, i%4))
		}
	default:
		os.Exit(2)
	}
}

// parseUnified reads a rendered unified diff the way a patch reader does: lines end at LF (an unterminated last
// line is still a line), the first character is the kind, "\\ No newline at end of file" takes the LF off the
// line before it.
func parseUnified(txt string) ([][]hline, string) {
	out := [][]hline{}
	if txt == "" {
		return out, ""
	}
	parts := strings.Split(txt, "\n")
	if parts[len(parts)-1] == "" {
		parts = parts[:len(parts)-1]
	}
	if len(parts) < 2 || !strings.HasPrefix(parts[0], "--- ") || !strings.HasPrefix(parts[1], "+++ ") {
		return out, "no header"
	}
	for _, ln := range parts[2:] {
		switch {
		case strings.HasPrefix(ln, "@@"):
			out = append(out, []hline{})
		case ln == "\\ No newline at end of file":
			if len(out) == 0 || len(out[len(out)-1]) == 0 {
				return out, "marker without a line"
			}
			h := out[len(out)-1]
			c := h[len(h)-1].C
			h[len(h)-1].C = c[:len(c)-1]
		case len(out) > 0 && ln != "" && (ln[0] == ' ' || ln[0] == '-' || ln[0] == '+'):
			out[len(out)-1] = append(out[len(out)-1], hline{string(ln[0]), ints(ln[1:] + "\n")})
		default:
			return out, "line is neither a hunk header nor a hunk line"
		}
	}
	return out, ""
}
