CONSTANTS
  Emit = TRUE
  Group = "mem"
INIT Init
NEXT Next
