CONSTANTS
  Contents <- C3
  MaxFiles = 2
  MaxOps = 5
  Emit = TRUE
INIT Init
NEXT Next
VIEW View
INVARIANTS RangesOk
