"""C09 -- the Chinese (.wz) and English (.wa) syntaxes mean the same thing: every kernel
case of WaInt.tla is rendered in both surface syntaxes (types, func/return, println and
main from independent tables written from token/const_wz.go); both renderings must
compile and print the TLC-specified value, hence the same output."""
import json

import common
import kernel
from common import MachineryError

LEVEL = "exploration"


def norm(s):
    """the Chinese runtime prints booleans as 真 / 假"""
    s = s.strip()
    return {"真": "true", "假": "false"}.get(s, s)


def run(chk):
    wa = common.build_wa()
    thorough = chk.tier == "thorough"
    chk.assume("shared subset = the integer kernel of WaInt.tla (functions, typed parameters, return, calls, println, every integer type name and operator); "
               "control-flow keywords are covered by the C29 .wz renderings only")
    types = kernel.ALL_TYPES + ["byte", "rune", "uintptr"] if thorough else ["u16", "int", "uintptr", "byte", "rune"]
    cs = [c for c in kernel.cases_from_tlc(chk, types, "WaInt cases %s" % types) if c["rt"] != "panic"]
    # cases that stop the program (known C01 findings) would hide the rest of a batch: leave them to C01
    def stops(c):
        a, b = kernel.val(c["a"], c["signed"]), kernel.val(c["b"], c["signed"])
        return c["kind"] == "arith" and c["op"] in ("/", "%") and c["signed"] and c["w"] >= 32 and a == -(1 << (c["w"] - 1)) and b == -1
    cs = [c for c in cs if not stops(c)]
    signed = kernel.SIGNED
    batches = list(common.chunks(cs, 1000))

    def job(ib):
        i, b = ib
        r1 = kernel.run_program(wa, kernel.program(b, False), ".wa", i, "c09a")
        r2 = kernel.run_program(wa, kernel.program(b, True), ".wz", i, "c09z")
        return b, r1, r2
    n = 0
    for b, (rc1, so1, se1, to1), (rc2, so2, se2, to2) in common.parallel(job, list(enumerate(batches))):
        l1, l2 = so1.splitlines(), so2.splitlines()
        if len(l2) < len(b) and len(l1) >= len(b):
            chk.report("C09:wz-fails", "the .wz rendering does not run to completion while the .wa rendering does: %s" % (so2 + se2)[-300:],
                       {"wz_program_head": kernel.program(b[:3], True), "output": (so2 + se2)[-600:]})
            continue
        for c, g1, g2 in zip(b, l1, l2):
            n += 1
            if norm(g1) != norm(g2):
                chk.report("C09:differs:%s:%s" % (c["t"], kernel.OPNAME.get(c["op"], c["op"])),
                           "%s prints %s in .wa and %s in .wz" % (kernel.call(c), g1.strip(), g2.strip()), {"case": c, "wa": g1, "wz": g2})
    # the same operations on typed constants, in both syntaxes (representable ones)
    acc = [c for c in cs if c["k"] in ("value", "bool")]
    cbatches = list(common.chunks(acc, 800))

    def cjob(ib):
        i, b = ib
        ta = "func main {\n" + "".join("\tprintln(%s)\n" % kernel.const_expr(c, False) for c in b) + "}\n"
        tz = "函数·主控:\n" + "".join("\t输出(%s)\n" % kernel.const_expr(c, True) for c in b) + "完毕\n"
        return b, kernel.run_program(wa, ta, ".wa", i, "c09ca"), kernel.run_program(wa, tz, ".wz", i, "c09cz")
    for b, (rc1, so1, se1, to1), (rc2, so2, se2, to2) in common.parallel(cjob, list(enumerate(cbatches))):
        l1, l2 = so1.splitlines(), so2.splitlines()
        if rc1 == 0 and len(l1) >= len(b) and (rc2 != 0 or len(l2) < len(b)):
            import re
            m = re.search(r"k\.wz:(\d+):\d+: (.*)", so2 + se2)
            c = b[int(m.group(1)) - 2] if m and 2 <= int(m.group(1)) <= len(b) + 1 else b[0]
            chk.report("C09:wz-rejects-what-wa-accepts:%s:%s" % (c["t"], kernel.OPNAME.get(c["op"], c["op"])),
                       "%s compiles in .wa but its .wz twin %s does not: %s" % (kernel.const_expr(c, False), kernel.const_expr(c, True), (so2 + se2)[-200:]),
                       {"case": c, "output": (so2 + se2)[-600:]})
            continue
        for c, g1, g2 in zip(b, l1, l2):
            n += 1
            if norm(g1) != norm(g2):
                chk.report("C09:const-differs:%s:%s" % (c["t"], kernel.OPNAME.get(c["op"], c["op"])),
                           "%s prints %s in .wa and %s in .wz" % (kernel.const_expr(c, False), g1.strip(), g2.strip()), {"case": c, "wa": g1, "wz": g2})
    chk.add("evaluations", n)
    chk.cov["distinct_nontrivial"] = n
    chk.cov["rule"] = "one evaluation = one (type, operator, operands) case rendered and run in both syntaxes; distinct by construction (TLC enumerates them); all are non-trivial (each reaches code generation and execution)"
    chk.cov["states"] = chk.cov.get("states", 0)
    chk.sample({"wa": kernel.fn_def(cs[0], False), "wz": kernel.fn_def(cs[0], True)})
    if n < len(cs) * 0.9:
        raise MachineryError("only %d of %d cases compared" % (n, len(cs)))


def replay(chk, path):
    run(chk)
