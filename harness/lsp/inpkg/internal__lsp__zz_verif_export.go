// Read-only accessor used by the verification harness (overlay only, never in /repo).
package lsp

// VerifFileText returns the server's stored copy of a document.
func VerifFileText(p *LSPServer, path string) (string, bool) {
	s, ok := p.fileMap[path]
	return s, ok
}
