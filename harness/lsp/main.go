// Harness for C21: replays TLC transitions of LspSync on a real LSPServer and records
// random client sessions for trace validation.
//
//	lsp replay <file with raw TLC lines>   -> one JSON summary line, mismatches as JSON lines
//	lsp record -seed S -n N -maxdoc D      -> ndjson trace of a random editing session
package main

import (
	"bufio"
	"context"
	"encoding/json"
	"flag"
	"fmt"
	"math/rand"
	"os"
	"strings"

	"wa-lang.org/wa/internal/lsp"
	"wa-lang.org/wa/internal/lsp/protocol"
)

var sym = map[string]string{"a": "a", "e": "é", "z": "中", "g": "\U0001F600", "r": "\r", "n": "\n"}

func text(cps []string) string {
	var sb strings.Builder
	for _, c := range cps {
		sb.WriteString(sym[c])
	}
	return sb.String()
}

type Pos struct {
	Line uint32 `json:"line"`
	Char uint32 `json:"char"`
}
type Change struct {
	Rng struct {
		Start Pos `json:"start"`
		End   Pos `json:"end"`
	} `json:"rng"`
	T []string `json:"t"`
}
type Trans struct {
	Doc     []string `json:"doc"`
	Kind    string   `json:"kind"`
	Changes []Change `json:"changes"`
	Want    []string `json:"want"`
	Err     bool     `json:"err"`
}

const uri = protocol.DocumentURI("file:///verif/doc.wa")

func open(srv *lsp.LSPServer, s string) {
	srv.DidOpen(context.Background(), &protocol.DidOpenTextDocumentParams{
		TextDocument: protocol.TextDocumentItem{URI: uri, LanguageID: "wa", Version: 1, Text: s}})
}

func change(srv *lsp.LSPServer, t *Trans) (err error) {
	defer func() {
		if e := recover(); e != nil {
			err = fmt.Errorf("PANIC: %v", e)
		}
	}()
	var evs []protocol.TextDocumentContentChangeEvent
	if t.Kind == "full" {
		evs = append(evs, protocol.TextDocumentContentChangeEvent{Text: text(t.Want)})
	}
	for _, c := range t.Changes {
		r := protocol.Range{Start: protocol.Position{Line: c.Rng.Start.Line, Character: c.Rng.Start.Char},
			End: protocol.Position{Line: c.Rng.End.Line, Character: c.Rng.End.Char}}
		evs = append(evs, protocol.TextDocumentContentChangeEvent{Range: &r, Text: text(c.T)})
	}
	p := &protocol.DidChangeTextDocumentParams{ContentChanges: evs}
	p.TextDocument.URI = uri
	p.TextDocument.Version = 2
	return srv.DidChange(context.Background(), p)
}

func stored(srv *lsp.LSPServer) string {
	s, _ := lsp.VerifFileText(srv, uri.Path())
	return s
}

func unescape(line string) (string, bool) {
	const pre = `<<"T", "`
	if !strings.HasPrefix(line, pre) || !strings.HasSuffix(line, `">>`) {
		return "", false
	}
	s := line[len(pre) : len(line)-3]
	s = strings.ReplaceAll(s, `\"`, `"`)
	s = strings.ReplaceAll(s, `\\`, `\`)
	return s, true
}

func replay(path string) {
	f, err := os.Open(path)
	must(err)
	defer f.Close()
	out := bufio.NewWriter(os.Stdout)
	defer out.Flush()
	enc := json.NewEncoder(out)
	srv := lsp.NewLSPServer(nil)
	sc := bufio.NewScanner(f)
	sc.Buffer(make([]byte, 1<<20), 1<<24)
	n, bad := 0, 0
	kinds := map[string]int{}
	for sc.Scan() {
		js, ok := unescape(sc.Text())
		if !ok {
			continue
		}
		var t Trans
		must(json.Unmarshal([]byte(js), &t))
		n++
		kinds[t.Kind]++
		before := text(t.Doc)
		open(srv, before)
		err := change(srv, &t)
		got := stored(srv)
		want := text(t.Want)
		fail := ""
		switch {
		case err != nil && strings.HasPrefix(err.Error(), "PANIC"):
			fail = "server panics: " + err.Error()
		case t.Err && err == nil:
			fail = "invalid range accepted"
		case t.Err && got != before:
			fail = "invalid range changed the stored text"
		case !t.Err && err != nil:
			fail = "valid change rejected: " + err.Error()
		case !t.Err && got != want:
			fail = "server text differs from the client's"
		}
		if fail != "" {
			bad++
			if bad <= 50 {
				enc.Encode(map[string]interface{}{"fail": fail, "trans": t, "server": got, "client": want})
			}
		}
	}
	enc.Encode(map[string]interface{}{"done": true, "n": n, "bad": bad, "kinds": kinds})
}

// ---- a random client (independent Go implementation of LSP positions) ----

var alphabet = []string{"a", "e", "z", "g", "n", "rn"}

func units(c string) int {
	if c == "g" {
		return 2
	}
	return 1
}

func posOf(d []string, i int) Pos {
	var p Pos
	for k := 0; k < i; k++ {
		if d[k] == "n" {
			p.Line++
			p.Char = 0
		} else {
			p.Char += uint32(units(d[k]))
		}
	}
	return p
}

func validBoundary(d []string, i int) bool { return !(i >= 1 && i < len(d) && d[i-1] == "r") }

func randText(rng *rand.Rand, n int) []string {
	t := []string{}
	for len(t) < n {
		a := alphabet[rng.Intn(len(alphabet))]
		if a == "rn" {
			t = append(t, "r", "n")
		} else {
			t = append(t, a)
		}
	}
	return t
}

func record(seed int64, n, maxdoc int) {
	rng := rand.New(rand.NewSource(seed))
	out := bufio.NewWriter(os.Stdout)
	defer out.Flush()
	enc := json.NewEncoder(out)
	srv := lsp.NewLSPServer(nil)
	doc := randText(rng, rng.Intn(maxdoc/2+1))
	open(srv, text(doc))
	enc.Encode(map[string]interface{}{"ev": "open", "doc": doc})
	for k := 0; k < n; k++ {
		nch := 1 + rng.Intn(3)
		var t Trans
		t.Kind = "incr"
		cur := append([]string{}, doc...)
		if rng.Intn(12) == 0 {
			t.Kind = "full"
			cur = randText(rng, rng.Intn(maxdoc))
		} else {
			for c := 0; c < nch; c++ {
				var i, j int
				for {
					i = rng.Intn(len(cur) + 1)
					j = i + rng.Intn(len(cur)-i+1)
					if rng.Intn(3) == 0 {
						j = i
					}
					if validBoundary(cur, i) && validBoundary(cur, j) {
						break
					}
				}
				ins := randText(rng, rng.Intn(4))
				if len(cur)-(j-i)+len(ins) > maxdoc {
					ins = []string{}
				}
				var ch Change
				ch.Rng.Start, ch.Rng.End = posOf(cur, i), posOf(cur, j)
				ch.T = ins
				if ch.T == nil {
					ch.T = []string{}
				}
				t.Changes = append(t.Changes, ch)
				nd := append([]string{}, cur[:i]...)
				nd = append(nd, ins...)
				nd = append(nd, cur[j:]...)
				cur = nd
			}
		}
		t.Want = cur
		err := change(srv, &t)
		ev := map[string]interface{}{"ev": t.Kind, "changes": t.Changes, "server": stored(srv), "server_cps": cps(stored(srv))}
		if t.Changes == nil {
			ev["changes"] = []Change{}
		}
		if t.Kind == "full" {
			ev["text"] = cur
		}
		if err != nil {
			ev["error"] = err.Error()
		}
		enc.Encode(ev)
		doc = cur
	}
}

// cps maps the server's text back to the symbol alphabet (anything else becomes "?")
func cps(s string) []string {
	out := []string{}
	for _, r := range s {
		switch r {
		case 'a':
			out = append(out, "a")
		case 0xe9:
			out = append(out, "e")
		case 0x4e2d:
			out = append(out, "z")
		case 0x1F600:
			out = append(out, "g")
		case '\r':
			out = append(out, "r")
		case '\n':
			out = append(out, "n")
		default:
			out = append(out, "?")
		}
	}
	return out
}

func must(err error) {
	if err != nil {
		fmt.Fprintln(os.Stderr, "harness error:", err)
		os.Exit(2)
	}
}

func main() {
	if len(os.Args) < 2 {
		os.Exit(2)
	}
	switch os.Args[1] {
	case "replay":
		replay(os.Args[2])
	case "record":
		fs := flag.NewFlagSet("record", flag.ExitOnError)
		seed := fs.Int64("seed", 1, "")
		n := fs.Int("n", 200, "")
		maxdoc := fs.Int("maxdoc", 30, "")
		fs.Parse(os.Args[2:])
		record(*seed, *n, *maxdoc)
	default:
		os.Exit(2)
	}
}
