"""C08 -- front ends never crash or hang: TLC enumerates token strings over the alphabets
of the four surface languages (WaFront.tla) and the dispatch table (extension x content);
the harness feeds every input to every front-end entry point in-process with panics
recovered, a watchdog for non-termination and detection of process exits."""
import json
import re
import subprocess

import common
from common import MachineryError

LEVEL = "exploration"
unconfirmed = []

SPECIAL = {"UNTERMSTR": b'"s', "UNTERMCHAR": b"'", "LCOM": b"//c\n", "HCOM": b"#c\n", "ZCOM": "注: c\n".encode(), "WATCOM": b";;c\n", "NL": b"\n", "ILL01": b"\x01",
           "ILLFF": b"\xff", "DIRECTIVE": b"#wa:build x\n"}
NAMES = {"wa": ["p.wa"], "wz": ["p.wz"], "wat": ["p.wat"], "asm": ["p.x64.wa.s", "p.loong64.wz.s"]}
ENTRIES = ["api.FormatCode", "api.GetCodeSyntax", "parser.ParseFile", "api.BuildFile", "wat/parser", "native/parser"]
CONTENT = {"empty": b"", "wa-keyword-first": b"// c\nfunc main {\n}\n", "wz-keyword-first": "# c\n函数·主控:\n完毕\n".encode(), "identifier-first": b"x := 1\n",
           "wat-only": b"$x (module)", "illegal-first": b"\x01 func", "comment-only": b"// only\n"}
LANGNAME = {"wa": "wa-lang/wa", "wz": "wa-lang/wz", "wat": "wa-lang/wat", "nasm": "wa-lang/nasm", "unknown": "wa-lang/unknown"}


def tok_bytes(t):
    return SPECIAL[t] if t in SPECIAL else t.encode()


def inputs_of(rec):
    """the source texts of one token string: spaced, tight, and repeated 12 times (the parsers give up after 10 errors)"""
    bs = [tok_bytes(t) for t in rec["toks"]]
    spaced = b" ".join(bs)
    out = [("spaced", spaced), ("x12", b"\n".join([spaced] * 12))]
    if len(bs) > 1:
        out.append(("tight", b"".join(bs)))
    # inside a well-formed frame, so that statement/expression parsing, type checking and module-field parsing are reached
    if rec["lang"] == "wa":
        out.append(("in-func", b"func main {\n\t" + spaced + b"\n}\n"))
        out.append(("in-global", b"global g = " + spaced + b"\n\nfunc main {\n}\n"))
        out.append(("in-import-line", b"import (" + b"; ".join(bs) + b")"))
        out.append(("in-import-group", b"import (\n\t" + b"\n\t".join(bs) + b"\n)\n\nfunc main {\n}\n"))
    elif rec["lang"] == "wz":
        out.append(("in-func", "函数·主控:\n\t".encode() + spaced + "\n完毕\n".encode()))
    elif rec["lang"] == "wat":
        out.append(("in-module", b"(module " + spaced + b")"))
        out.append(("in-func", b"(module (func $f " + spaced + b"))"))
    elif rec["lang"] == "asm":
        out.append(("in-text", b".intel_syntax noprefix\n.section .text\nf:\n\t" + spaced + b"\n"))
    return out


def norm(detail):
    return re.sub(r"\d+", "N", detail)[:80].replace(":", ";")


def run_crash(h, cases):
    """returns (results by id, anomalies); restarts the harness after a hang or a process exit"""
    results, anomalies = {}, []
    rest = list(cases)
    restarts = 0
    while rest:
        inp = "".join(json.dumps({"id": c["id"], "name": c["name"], "hex": c["src"].hex()}) + "\n" for c in rest)
        p = subprocess.run([h, "crash"], input=inp, capture_output=True, text=True, timeout=6000)
        last = None
        for l in p.stdout.splitlines():
            try:
                r = json.loads(l)
            except ValueError:
                continue    # output of the code under test on stdout
            results.setdefault(r["id"], []).append(r)
            last = r
        if p.returncode == 0:
            break
        # the process ended inside a case: the first one without a complete set of results
        idx = next((i for i, c in enumerate(rest) if len(results.get(c["id"], [])) < len(ENTRIES) or any(r["outcome"] == "hang" for r in results[c["id"]])), None)
        if idx is None:
            raise MachineryError("front crash exited %d after completing every case: %s" % (p.returncode, p.stderr[-300:]))
        c = rest[idx]
        if not (last and last["outcome"] == "hang" and last["id"] == c["id"]):
            done = [r["entry"] for r in results.get(c["id"], [])]
            entry = next((e for e in ENTRIES if e not in done), "?")
            anomalies.append((c, entry, "process-exit", "the process ended with status %d: %s" % (p.returncode, p.stderr.strip()[-300:])))
        rest = rest[idx + 1:]
        restarts += 1
        if restarts >= 6 and rest:
            # every hang costs the watchdog's 10 s: enough has been seen, the remainder of this share is not explored
            anomalies.append((None, "", "unexplored", len(rest)))
            break
    return results, anomalies


def confirm_hang(h, c, entry):
    """a reported hang counts only if the same call, alone in a fresh process, does not return within 90 s either"""
    inp = json.dumps({"id": 0, "name": c["name"], "hex": c["src"].hex()}) + "\n"
    try:
        p = subprocess.run([h, "crash", entry], input=inp, capture_output=True, text=True, timeout=90)
    except subprocess.TimeoutExpired:
        return True
    for l in p.stdout.splitlines():
        try:
            r = json.loads(l)
        except ValueError:
            continue
        if r.get("entry") == entry:
            return r["outcome"] == "hang"
    return p.returncode != 0


def run(chk):
    unconfirmed.clear()
    h = common.go_build("front")
    thorough = chk.tier == "thorough"
    chk.assume("inputs: every token string of length <= 2 over the four alphabets of WaFront.tla%s, each spaced, tight, repeated 12 times and inside a well-formed frame (function body, global initialiser, import group on one line and on several lines, module, function of a module, text section), under the file name of its language "
               "(assembly: x64 .wa.s and loong64 .wz.s); arbitrary byte strings beyond these alphabets are not enumerated; a hang is a call that has used 10 s of CPU time (60 s for BuildFile, which compiles the runtime library when the text parses) or 120 s of wall time without returning"
               % (" and of length 3 over their cores" if thorough else ""))
    res = common.run_tlc("front", "WaFront", "front3.cfg" if thorough else "front2.cfg", collect_prefix='<<"T"', timeout=3000)
    if res.violated:
        raise MachineryError("WaFront violates " + res.violated)
    chk.tlc(res, "WaFront (token strings and dispatch table)")
    recs = [json.loads(common.parse_printt(l, "T")[0]) for l in res.lines]
    toks = sorted((r for r in recs if r["part"] == "tokens"), key=lambda r: (r["lang"], r["toks"]))
    disp = sorted((r for r in recs if r["part"] == "dispatch"), key=lambda r: (r["ext"], r["content"]))
    # ---- part 2: dispatch table ----
    dcases = [{"id": i, "name": "p" + d["ext"], "hex": CONTENT[d["content"]].hex()} for i, d in enumerate(disp)]
    p = subprocess.run([h, "syntax"], input="".join(json.dumps(c) + "\n" for c in dcases), capture_output=True, text=True, timeout=600)
    if p.returncode != 0:
        raise MachineryError("front syntax failed: " + p.stderr[-300:])
    for l in p.stdout.splitlines():
        r = json.loads(l)
        d = disp[r["id"]]
        chk.add("evaluations", 1)
        where = "%s:%s" % (d["ext"] or "none", d["content"])
        if r["lang"] == "panic" or r["fmt"] == "panic":
            chk.report("C08:panic:dispatch:%s" % where, "file name p%s with %s content: %s panics: %s" % (d["ext"], d["content"], "GetCodeSyntax" if r["lang"] == "panic" else "FormatCode", r["detail"][:200]),
                       {"dispatch": d, "result": r})
            continue
        if r["lang"] != LANGNAME[d["lang"]]:
            chk.report("C08:dispatch-language:%s" % where, "file name p%s with %s content is detected as %s; the dispatch table gives %s" % (d["ext"], d["content"], r["lang"], LANGNAME[d["lang"]]),
                       {"dispatch": d, "result": r})
        elif r["fmt"] not in d["fmt"]:
            chk.report("C08:dispatch-format:%s" % where, "formatting p%s with %s content (language %s) answers %r; admissible: %s" % (d["ext"], d["content"], d["lang"], r["fmt"], d["fmt"]),
                       {"dispatch": d, "result": r})
    # ---- part 1: token strings ----
    cases = []
    for t in toks:
        for variant, src in inputs_of(t):
            for name in NAMES[t["lang"]]:
                cases.append({"id": len(cases), "name": name, "src": src, "lang": t["lang"], "toks": t["toks"], "variant": variant})
    parts = [cases[i::16] for i in range(16)]
    calls = 0
    slowest = 0
    outcomes = {}
    for results, anomalies in common.parallel(lambda part: run_crash(h, part), parts):
        for c, entry, kind, what in anomalies:
            if kind == "unexplored":
                chk.notes.append("%d source texts of one share were not explored after 6 hangs/process exits in it" % what)
                continue
            chk.report("C08:%s:%s:%s" % (kind, entry, c["lang"]), "%s on %r (%s): %s" % (entry, c["src"][:80], c["name"], what), {"name": c["name"], "hex": c["src"].hex(), "toks": c["toks"], "variant": c["variant"]})
        for cid, rs in results.items():
            c = cases[cid]
            for r in rs:
                calls += 1
                outcomes[r["outcome"]] = outcomes.get(r["outcome"], 0) + 1
                if r["outcome"] == "hang" and not confirm_hang(h, c, r["entry"]):
                    # the watchdog fired but the call returns when it is run again on its own: the machine was loaded
                    unconfirmed.append((c["name"], r["entry"]))
                    continue
                if r["outcome"] in ("panic", "hang"):
                    chk.report("C08:%s:%s:%s:%s" % (r["outcome"], r["entry"], c["lang"], norm(r["detail"])),
                               "%s on %r (%s, %s of %s) %s%s" % (r["entry"], c["src"][:80], c["name"], c["variant"], c["toks"], "panics: " if r["outcome"] == "panic" else "does not return (10 s of CPU time / 120 s of wall time)", r["detail"][:200]),
                               {"name": c["name"], "hex": c["src"].hex(), "toks": c["toks"], "variant": c["variant"], "result": r})
                slowest = max(slowest, r["us"])
    chk.add("evaluations", calls)
    chk.cov["token_strings"] = len(toks)
    chk.cov["source_texts"] = len(cases)
    chk.cov["entry_point_calls"] = calls
    chk.cov["outcomes"] = outcomes
    chk.cov["slowest_call_us"] = slowest
    chk.cov["watchdog_firings_not_reproduced"] = len(unconfirmed)
    if unconfirmed:
        chk.notes.append("%d watchdog firings were not reproduced when the call was run again on its own (machine load): %s" % (len(unconfirmed), unconfirmed[:5]))
    chk.cov["dispatch_rows"] = len(disp)
    chk.cov["distinct_nontrivial"] = len(cases) + len(disp)
    chk.cov["rule"] = ("one evaluation = one entry point (FormatCode, GetCodeSyntax, ParseFile, BuildFile, WAT parser, assembly parser) called on one generated source text with "
                       "panics recovered and a 10 s watchdog; texts are distinct token strings enumerated by TLC in up to five layouts; every call reaches the scanner of its front end")
    chk.sample({"toks": toks[len(toks) // 2], "text": inputs_of(toks[len(toks) // 2])[0][1].decode("utf-8", "replace")})
    chk.sample({"dispatch": disp[len(disp) // 2]})


def replay(chk, path):
    run(chk)
