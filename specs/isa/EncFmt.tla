-------------------------------- MODULE EncFmt --------------------------------
(* C17: the format level of the RISC-V (RV64I+M) and LoongArch64 integer        *)
(* instruction encodings, written from the ISA manuals: for every mnemonic the  *)
(* fixed bits (opcode/funct fields) and for every format where each register    *)
(* number and each immediate bit goes, which immediates are representable, and  *)
(* how the field is read back.  Role F: TLC evaluates the encoding of operand   *)
(* tuples at the field boundaries; the harness encodes the same tuples with the *)
(* repository's encoders, compares the words, and decodes them with the         *)
(* repository's decoders.                                                       *)
EXTENDS Integers, Sequences, FiniteSets, TLC, Json
CONSTANTS Emit, Arches

Bit(v, k) == (v \div (2 ^ k)) % 2                 \* v >= 0
SBit(v, k) == Bit(v + 2 ^ 29, k)                  \* two's complement bit k < 29 of v, |v| < 2^29
F(lo, w, val, sh) == [lo |-> lo, w |-> w, val |-> val, sh |-> sh]   \* bits val[sh .. sh+w-1] at word[lo .. lo+w-1]
R5(lo, r) == F(lo, 5, r, 0)

\* ------------------------------------------------------------------ RISC-V
RvFields(fmt, a) ==
  CASE fmt = "R"   -> {R5(7, a.rd), R5(15, a.rs1), R5(20, a.rs2)}
    [] fmt = "I"   -> {R5(7, a.rd), R5(15, a.rs1), F(20, 12, a.imm, 0)}
    [] fmt = "IS6" -> {R5(7, a.rd), R5(15, a.rs1), F(20, 6, a.imm, 0)}
    [] fmt = "IS5" -> {R5(7, a.rd), R5(15, a.rs1), F(20, 5, a.imm, 0)}
    [] fmt = "S"   -> {R5(15, a.rs1), R5(20, a.rs2), F(7, 5, a.imm, 0), F(25, 7, a.imm, 5)}
    [] fmt = "B"   -> {R5(15, a.rs1), R5(20, a.rs2), F(7, 1, a.imm, 11), F(8, 4, a.imm, 1), F(25, 6, a.imm, 5), F(31, 1, a.imm, 12)}
    [] fmt = "U"   -> {R5(7, a.rd), F(12, 20, a.imm, 0)}
    [] fmt = "J"   -> {R5(7, a.rd), F(12, 8, a.imm, 12), F(20, 1, a.imm, 11), F(21, 10, a.imm, 1), F(31, 1, a.imm, 20)}
\* immediates an instruction of the format can carry (the field read back gives the operand)
RvRepresentable(fmt, imm) ==
  CASE fmt = "R"   -> imm = 0
    [] fmt \in {"I", "S"} -> imm \in -2048..2047
    [] fmt = "IS6" -> imm \in 0..63
    [] fmt = "IS5" -> imm \in 0..31
    [] fmt = "B"   -> imm \in -4096..4094 /\ imm % 2 = 0
    [] fmt = "U"   -> imm \in -(2 ^ 19)..(2 ^ 20 - 1)          \* a 20-bit field, written signed or unsigned
    [] fmt = "J"   -> imm \in -(2 ^ 20)..(2 ^ 20 - 2) /\ imm % 2 = 0
RvUses(fmt) == CASE fmt = "R" -> {"rd", "rs1", "rs2"} [] fmt \in {"I", "IS6", "IS5"} -> {"rd", "rs1"} [] fmt \in {"S", "B"} -> {"rs1", "rs2"} [] OTHER -> {"rd"}
Rv(op, f3, f7) == op + f3 * (2 ^ 12) + f7 * (2 ^ 25)
RvTable ==
 [lui |-> <<"U", \b0110111>>, auipc |-> <<"U", \b0010111>>, jal |-> <<"J", \b1101111>>, jalr |-> <<"I", Rv(\b1100111, 0, 0)>>,
  beq |-> <<"B", Rv(\b1100011, 0, 0)>>, bne |-> <<"B", Rv(\b1100011, 1, 0)>>, blt |-> <<"B", Rv(\b1100011, 4, 0)>>, bge |-> <<"B", Rv(\b1100011, 5, 0)>>,
  bltu |-> <<"B", Rv(\b1100011, 6, 0)>>, bgeu |-> <<"B", Rv(\b1100011, 7, 0)>>,
  lb |-> <<"I", Rv(\b0000011, 0, 0)>>, lh |-> <<"I", Rv(\b0000011, 1, 0)>>, lw |-> <<"I", Rv(\b0000011, 2, 0)>>, ld |-> <<"I", Rv(\b0000011, 3, 0)>>,
  lbu |-> <<"I", Rv(\b0000011, 4, 0)>>, lhu |-> <<"I", Rv(\b0000011, 5, 0)>>, lwu |-> <<"I", Rv(\b0000011, 6, 0)>>,
  sb |-> <<"S", Rv(\b0100011, 0, 0)>>, sh |-> <<"S", Rv(\b0100011, 1, 0)>>, sw |-> <<"S", Rv(\b0100011, 2, 0)>>, sd |-> <<"S", Rv(\b0100011, 3, 0)>>,
  addi |-> <<"I", Rv(\b0010011, 0, 0)>>, slti |-> <<"I", Rv(\b0010011, 2, 0)>>, sltiu |-> <<"I", Rv(\b0010011, 3, 0)>>, xori |-> <<"I", Rv(\b0010011, 4, 0)>>,
  ori |-> <<"I", Rv(\b0010011, 6, 0)>>, andi |-> <<"I", Rv(\b0010011, 7, 0)>>,
  slli |-> <<"IS6", Rv(\b0010011, 1, 0)>>, srli |-> <<"IS6", Rv(\b0010011, 5, 0)>>, srai |-> <<"IS6", Rv(\b0010011, 5, \b0100000)>>,
  add |-> <<"R", Rv(\b0110011, 0, 0)>>, sub |-> <<"R", Rv(\b0110011, 0, \b0100000)>>, sll |-> <<"R", Rv(\b0110011, 1, 0)>>, slt |-> <<"R", Rv(\b0110011, 2, 0)>>,
  sltu |-> <<"R", Rv(\b0110011, 3, 0)>>, xor |-> <<"R", Rv(\b0110011, 4, 0)>>, srl |-> <<"R", Rv(\b0110011, 5, 0)>>, sra |-> <<"R", Rv(\b0110011, 5, \b0100000)>>,
  or |-> <<"R", Rv(\b0110011, 6, 0)>>, and |-> <<"R", Rv(\b0110011, 7, 0)>>,
  addiw |-> <<"I", Rv(\b0011011, 0, 0)>>, slliw |-> <<"IS5", Rv(\b0011011, 1, 0)>>, srliw |-> <<"IS5", Rv(\b0011011, 5, 0)>>, sraiw |-> <<"IS5", Rv(\b0011011, 5, \b0100000)>>,
  addw |-> <<"R", Rv(\b0111011, 0, 0)>>, subw |-> <<"R", Rv(\b0111011, 0, \b0100000)>>, sllw |-> <<"R", Rv(\b0111011, 1, 0)>>, srlw |-> <<"R", Rv(\b0111011, 5, 0)>>,
  sraw |-> <<"R", Rv(\b0111011, 5, \b0100000)>>,
  mul |-> <<"R", Rv(\b0110011, 0, 1)>>, mulh |-> <<"R", Rv(\b0110011, 1, 1)>>, mulhsu |-> <<"R", Rv(\b0110011, 2, 1)>>, mulhu |-> <<"R", Rv(\b0110011, 3, 1)>>,
  div |-> <<"R", Rv(\b0110011, 4, 1)>>, divu |-> <<"R", Rv(\b0110011, 5, 1)>>, rem |-> <<"R", Rv(\b0110011, 6, 1)>>, remu |-> <<"R", Rv(\b0110011, 7, 1)>>,
  mulw |-> <<"R", Rv(\b0111011, 0, 1)>>, divw |-> <<"R", Rv(\b0111011, 4, 1)>>, divuw |-> <<"R", Rv(\b0111011, 5, 1)>>, remw |-> <<"R", Rv(\b0111011, 6, 1)>>,
  remuw |-> <<"R", Rv(\b0111011, 7, 1)>>]

\* ------------------------------------------------------------------ LoongArch64
LaFields(fmt, a) ==
  CASE fmt = "3R"     -> {R5(0, a.rd), R5(5, a.rs1), R5(10, a.rs2)}
    [] fmt \in {"2RI12S", "2RI12U"} -> {R5(0, a.rd), R5(5, a.rs1), F(10, 12, a.imm, 0)}
    [] fmt = "2RI5"   -> {R5(0, a.rd), R5(5, a.rs1), F(10, 5, a.imm, 0)}
    [] fmt = "2RI6"   -> {R5(0, a.rd), R5(5, a.rs1), F(10, 6, a.imm, 0)}
    [] fmt = "1RI20"  -> {R5(0, a.rd), F(5, 20, a.imm, 0)}
    [] fmt \in {"BR16", "JIRL"} -> {R5(0, a.rd), R5(5, a.rs1), F(10, 16, a.imm, 2)}
    [] fmt = "BR21"   -> {R5(5, a.rs1), F(10, 16, a.imm, 2), F(0, 5, a.imm, 18)}
    [] fmt = "BR26"   -> {F(10, 16, a.imm, 2), F(0, 10, a.imm, 18)}
    [] fmt = "3RSA2"  -> {R5(0, a.rd), R5(5, a.rs1), R5(10, a.rs2), F(15, 2, a.imm, 0)}
    [] fmt = "3RSA3"  -> {R5(0, a.rd), R5(5, a.rs1), R5(10, a.rs2), F(15, 3, a.imm, 0)}
    [] fmt = "3F"     -> {R5(0, a.rd), R5(5, a.rs1), R5(10, a.rs2)}                    \* floating-point registers fd, fj, fk
    [] fmt = "CD2F"   -> {F(0, 3, a.rd, 0), R5(5, a.rs1), R5(10, a.rs2)}               \* condition flag cd, fj, fk
LaRepresentable(fmt, imm) ==
  CASE fmt \in {"3R", "3F", "CD2F"} -> imm = 0
    [] fmt = "2RI12S" -> imm \in -2048..4095           \* si12; the assembler also admits the unsigned spelling of the field
    [] fmt = "2RI12U" -> imm \in 0..4095
    [] fmt = "2RI5"   -> imm \in 0..31
    [] fmt = "2RI6"   -> imm \in 0..63
    [] fmt = "1RI20"  -> imm \in -(2 ^ 19)..(2 ^ 20 - 1)
    [] fmt \in {"BR16", "JIRL"} -> imm \in -(2 ^ 17)..(2 ^ 17 - 4) /\ imm % 4 = 0
    [] fmt = "BR21"   -> imm \in -(2 ^ 22)..(2 ^ 22 - 4) /\ imm % 4 = 0
    [] fmt = "BR26"   -> imm \in -(2 ^ 27)..(2 ^ 27 - 4) /\ imm % 4 = 0
    [] fmt = "3RSA2"  -> imm \in 0..3
    [] fmt = "3RSA3"  -> imm \in 0..7
LaUses(fmt) == CASE fmt \in {"3R", "3RSA2", "3RSA3", "3F", "CD2F"} -> {"rd", "rs1", "rs2"} [] fmt = "1RI20" -> {"rd"} [] fmt = "BR21" -> {"rs1"} [] fmt = "BR26" -> {} [] OTHER -> {"rd", "rs1"}
LaTable ==
 [add_w |-> <<"3R", \h00100000>>, add_d |-> <<"3R", \h00108000>>, sub_w |-> <<"3R", \h00110000>>, sub_d |-> <<"3R", \h00118000>>, slt |-> <<"3R", \h00120000>>,
  sltu |-> <<"3R", \h00128000>>, nor |-> <<"3R", \h00140000>>, and |-> <<"3R", \h00148000>>, or |-> <<"3R", \h00150000>>, xor |-> <<"3R", \h00158000>>,
  sll_w |-> <<"3R", \h00170000>>, srl_w |-> <<"3R", \h00178000>>, sra_w |-> <<"3R", \h00180000>>, sll_d |-> <<"3R", \h00188000>>, srl_d |-> <<"3R", \h00190000>>,
  sra_d |-> <<"3R", \h00198000>>, mul_w |-> <<"3R", \h001c0000>>, mulh_w |-> <<"3R", \h001c8000>>, mulh_wu |-> <<"3R", \h001d0000>>, mul_d |-> <<"3R", \h001d8000>>,
  mulh_d |-> <<"3R", \h001e0000>>, mulh_du |-> <<"3R", \h001e8000>>, div_w |-> <<"3R", \h00200000>>, mod_w |-> <<"3R", \h00208000>>, div_wu |-> <<"3R", \h00210000>>,
  mod_wu |-> <<"3R", \h00218000>>, div_d |-> <<"3R", \h00220000>>, mod_d |-> <<"3R", \h00228000>>, div_du |-> <<"3R", \h00230000>>, mod_du |-> <<"3R", \h00238000>>,
  alsl_w |-> <<"3RSA2", \h00040000>>, alsl_d |-> <<"3RSA2", \h002c0000>>, bytepick_w |-> <<"3RSA2", \h00080000>>, bytepick_d |-> <<"3RSA3", \h000c0000>>,
  slli_w |-> <<"2RI5", \h00408000>>, slli_d |-> <<"2RI6", \h00410000>>, srli_w |-> <<"2RI5", \h00448000>>, srli_d |-> <<"2RI6", \h00450000>>,
  srai_w |-> <<"2RI5", \h00488000>>, srai_d |-> <<"2RI6", \h00490000>>,
  slti |-> <<"2RI12S", \h02000000>>, sltui |-> <<"2RI12S", \h02400000>>, addi_w |-> <<"2RI12S", \h02800000>>, addi_d |-> <<"2RI12S", \h02c00000>>,
  lu52i_d |-> <<"2RI12S", \h03000000>>, andi |-> <<"2RI12U", \h03400000>>, ori |-> <<"2RI12U", \h03800000>>, xori |-> <<"2RI12U", \h03c00000>>,
  ld_b |-> <<"2RI12S", \h28000000>>, ld_h |-> <<"2RI12S", \h28400000>>, ld_w |-> <<"2RI12S", \h28800000>>, ld_d |-> <<"2RI12S", \h28c00000>>,
  st_b |-> <<"2RI12S", \h29000000>>, st_h |-> <<"2RI12S", \h29400000>>, st_w |-> <<"2RI12S", \h29800000>>, st_d |-> <<"2RI12S", \h29c00000>>,
  ld_bu |-> <<"2RI12S", \h2a000000>>, ld_hu |-> <<"2RI12S", \h2a400000>>, ld_wu |-> <<"2RI12S", \h2a800000>>,
  lu12i_w |-> <<"1RI20", \h14000000>>, lu32i_d |-> <<"1RI20", \h16000000>>, pcaddi |-> <<"1RI20", \h18000000>>, pcalau12i |-> <<"1RI20", \h1a000000>>,
  pcaddu12i |-> <<"1RI20", \h1c000000>>, pcaddu18i |-> <<"1RI20", \h1e000000>>,
  beqz |-> <<"BR21", \h40000000>>, bnez |-> <<"BR21", \h44000000>>, jirl |-> <<"JIRL", \h4c000000>>, b |-> <<"BR26", \h50000000>>, bl |-> <<"BR26", \h54000000>>,
  beq |-> <<"BR16", \h58000000>>, bne |-> <<"BR16", \h5c000000>>, blt |-> <<"BR16", \h60000000>>, bge |-> <<"BR16", \h64000000>>, bltu |-> <<"BR16", \h68000000>>,
  bgeu |-> <<"BR16", \h6c000000>>,
  fadd_s |-> <<"3F", \h01008000>>, fadd_d |-> <<"3F", \h01010000>>, fsub_s |-> <<"3F", \h01028000>>, fsub_d |-> <<"3F", \h01030000>>, fmul_s |-> <<"3F", \h01048000>>,
  fmul_d |-> <<"3F", \h01050000>>, fdiv_s |-> <<"3F", \h01068000>>, fdiv_d |-> <<"3F", \h01070000>>,
  fcmp_ceq_s |-> <<"CD2F", \h0c120000>>, fcmp_clt_s |-> <<"CD2F", \h0c110000>>, fcmp_cle_s |-> <<"CD2F", \h0c130000>>, fcmp_ceq_d |-> <<"CD2F", \h0c220000>>,
  fcmp_clt_d |-> <<"CD2F", \h0c210000>>, fcmp_cle_d |-> <<"CD2F", \h0c230000>>]
\* register class of each operand (integer unless listed)
RegClass(fmt) == CASE fmt = "3F" -> [rd |-> "f", rs1 |-> "f", rs2 |-> "f"] [] fmt = "CD2F" -> [rd |-> "fcc", rs1 |-> "f", rs2 |-> "f"] [] OTHER -> [rd |-> "i", rs1 |-> "i", rs2 |-> "i"]

\* ------------------------------------------------------------------ common
Table(arch) == IF arch = "riscv64" THEN RvTable ELSE LaTable
Fields(arch, fmt, a) == IF arch = "riscv64" THEN RvFields(fmt, a) ELSE LaFields(fmt, a)
Representable(arch, fmt, imm) == IF arch = "riscv64" THEN RvRepresentable(fmt, imm) ELSE LaRepresentable(fmt, imm)
Uses(arch, fmt) == IF arch = "riscv64" THEN RvUses(fmt) ELSE LaUses(fmt)
WordBit(fixed, fields, i) ==
  IF \E f \in fields : f.lo <= i /\ i < f.lo + f.w
  THEN LET f == CHOOSE f \in fields : f.lo <= i /\ i < f.lo + f.w IN SBit(f.val, i - f.lo + f.sh)
  ELSE IF i = 31 THEN 0 ELSE Bit(fixed, i)
RECURSIVE Sum(_, _, _, _)
Sum(fixed, fields, from, n) == IF n = 0 THEN 0 ELSE WordBit(fixed, fields, from) + 2 * Sum(fixed, fields, from + 1, n - 1)
Lo16(fixed, fields) == Sum(fixed, fields, 0, 16)
Hi16(fixed, fields) == Sum(fixed, fields, 16, 16)

\* register tuples that tell the fields apart, immediates at the limits of each field
RegTuples == {<<0, 0, 0>>, <<31, 31, 31>>, <<1, 15, 30>>, <<30, 1, 15>>, <<15, 30, 1>>, <<31, 0, 0>>, <<0, 31, 0>>, <<0, 0, 31>>, <<21, 10, 5>>}
Imms(arch, fmt) ==
  LET edges(lo, hi, step) == {lo, lo + step, hi - step, hi, lo - step, hi + step, 0, step, -step} IN
  CASE fmt \in {"R", "3R", "3F", "CD2F"} -> {0}
    [] fmt \in {"I", "S"} -> edges(-2048, 2047, 1) \cup {1365, -1366, 4095, 4096}
    [] fmt = "2RI12S" -> edges(-2048, 2047, 1) \cup {1365, -1366, 4095, 4096, 2048}
    [] fmt = "2RI12U" -> {0, 1, 4095, 4096, -1, 2048, 1365, 2730}
    [] fmt \in {"IS6", "2RI6"} -> {0, 1, 31, 32, 63, 64, -1, 42, 21}
    [] fmt \in {"IS5", "2RI5"} -> {0, 1, 31, 32, -1, 21, 10}
    [] fmt = "B" -> edges(-4096, 4094, 2) \cup {1, 2730, -2730, 1364, 4095}
    [] fmt \in {"U", "1RI20"} -> {0, 1, 2 ^ 19 - 1, 2 ^ 19, 2 ^ 20 - 1, 2 ^ 20, -1, -(2 ^ 19), -(2 ^ 19) - 1, -(2 ^ 20), 349525, 699050}
    [] fmt = "J" -> edges(-(2 ^ 20), 2 ^ 20 - 2, 2) \cup {1, 699050, -699050, 2048, 2046, 4096}
    [] fmt \in {"BR16", "JIRL"} -> edges(-(2 ^ 17), 2 ^ 17 - 4, 4) \cup {1, 2, 87380, -87380, 2 ^ 18}
    [] fmt = "BR21" -> edges(-(2 ^ 22), 2 ^ 22 - 4, 4) \cup {2, 2 ^ 18, 2 ^ 18 - 4, 2796200, -2796200}
    [] fmt = "BR26" -> edges(-(2 ^ 27), 2 ^ 27 - 4, 4) \cup {2, 2 ^ 18, 2 ^ 18 - 4, 89478484, -89478484}
    [] fmt = "3RSA2" -> {0, 1, 2, 3, 4, -1}
    [] fmt = "3RSA3" -> {0, 1, 3, 7, 8, -1}

VARIABLES arch, mn, regs, imm, done
Init == /\ arch \in Arches /\ mn \in DOMAIN Table(arch) /\ regs \in RegTuples /\ imm \in Imms(arch, Table(arch)[mn][1]) /\ done = FALSE
Next == /\ ~done /\ done' = TRUE /\ UNCHANGED <<arch, mn, regs, imm>>
        /\ LET fmt == Table(arch)[mn][1]
               fixed == Table(arch)[mn][2]
               u == Uses(arch, fmt)
               a == [rd |-> IF "rd" \in u THEN (IF fmt = "CD2F" THEN regs[1] % 8 ELSE regs[1]) ELSE 0, rs1 |-> IF "rs1" \in u THEN regs[2] ELSE 0, rs2 |-> IF "rs2" \in u THEN regs[3] ELSE 0, imm |-> imm]
               ok == Representable(arch, fmt, imm)
           IN Emit => PrintT(<<"T", ToJson([arch |-> arch, mn |-> mn, fmt |-> fmt, uses |-> u, cls |-> RegClass(fmt), rd |-> a.rd, rs1 |-> a.rs1, rs2 |-> a.rs2, imm |-> imm, representable |-> ok,
                                             hi |-> IF ok THEN Hi16(fixed, Fields(arch, fmt, a)) ELSE 0, lo |-> IF ok THEN Lo16(fixed, Fields(arch, fmt, a)) ELSE 0])>>)
\* the transcription agrees with encodings printed in the manuals
Known == /\ Hi16(RvTable.addi[2], RvFields("I", [rd |-> 1, rs1 |-> 2, rs2 |-> 0, imm |-> -1])) = 65521 /\ Lo16(RvTable.addi[2], RvFields("I", [rd |-> 1, rs1 |-> 2, rs2 |-> 0, imm |-> -1])) = 147
         \* addi x1, x2, -1 = 0xfff10093
         /\ Hi16(RvTable.jal[2], RvFields("J", [rd |-> 1, rs1 |-> 0, rs2 |-> 0, imm |-> 2048])) = 16 /\ Lo16(RvTable.jal[2], RvFields("J", [rd |-> 1, rs1 |-> 0, rs2 |-> 0, imm |-> 2048])) = 239
         \* jal x1, 2048 = 0x001000ef
         /\ Hi16(LaTable.addi_d[2], LaFields("2RI12S", [rd |-> 4, rs1 |-> 5, rs2 |-> 0, imm |-> -16])) = 767 /\ Lo16(LaTable.addi_d[2], LaFields("2RI12S", [rd |-> 4, rs1 |-> 5, rs2 |-> 0, imm |-> -16])) = 49316
         \* addi.d $a0, $a1, -16 = 0x02ffc0a4
=============================================================================
