// Harness for C02: translates a WAT module to x86-64 assembly with the repository's wat2x64
// (the same call `wa native build` makes); assembling, linking and running is done by the driver.
//
//	native wat2x64 in.wat out.s
package main

import (
	"fmt"
	"os"

	"wa-lang.org/wa/internal/native/abi"
	"wa-lang.org/wa/internal/native/wat2x64"
)

func main() {
	if len(os.Args) != 4 || os.Args[1] != "wat2x64" {
		fmt.Fprintln(os.Stderr, "usage: native wat2x64 in.wat out.s")
		os.Exit(2)
	}
	src, err := os.ReadFile(os.Args[2])
	if err != nil {
		fmt.Fprintln(os.Stderr, err)
		os.Exit(2)
	}
	defer func() {
		if p := recover(); p != nil {
			fmt.Println("WAT2X64-PANIC:", p)
			os.Exit(1)
		}
	}()
	_, code, err := wat2x64.Wat2X64(os.Args[2], src, abi.X64Unix, "")
	if err != nil {
		fmt.Println("WAT2X64-ERROR:", err)
		os.Exit(1)
	}
	if err := os.WriteFile(os.Args[3], code, 0666); err != nil {
		fmt.Fprintln(os.Stderr, err)
		os.Exit(2)
	}
}
