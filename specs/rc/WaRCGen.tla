------------------------------- MODULE WaRCGen -------------------------------
(* C11 / C12: the program space.  A loop body is a sequence of one or two       *)
(* statement templates, each of which allocates only data that is unreachable  *)
(* at the end of the iteration and builds no reference cycle (the domain of    *)
(* C12).  TLC enumerates the bodies; the harness renders each as               *)
(*     for i := 0; i < N; i++ { body; checkpoint(i + 1) }                       *)
EXTENDS Integers, Sequences, FiniteSets, TLC, Json
CONSTANTS Templates, MaxLen, Emit
VARIABLES body, done
Init == body \in UNION { [1..k -> Templates] : k \in 1..MaxLen } /\ done = FALSE
Next == /\ ~done /\ done' = TRUE /\ UNCHANGED body
        /\ (Emit => PrintT(<<"T", ToJson([body |-> body])>>))
=============================================================================
