------------------------------ MODULE DapFrame ------------------------------
(* C26: debug-adapter content-length framing (internal/3rdparty/go-dap/io.go) *)
(* A case = a sequence of message bodies and a set of cut positions of the    *)
(* byte stream.  Writer = "Content-Length: n CR LF CR LF" + body.  Reader =    *)
(* readContentLengthHeader / ReadBaseMessage transcribed: scan to CR, require *)
(* LF CR LF, match the header, read exactly n bytes.  The chunking is         *)
(* invisible to a correct reader (short reads are absorbed by buffering); it  *)
(* is part of the case so that the real reader is driven through every split, *)
(* including splits inside the delimiter and inside the body.                 *)
EXTENDS Integers, Sequences, FiniteSets, TLC, Json
CONSTANTS BodyAlphabet, MaxBody, MaxMsgs, MaxCuts, Emit

CR == 13  LF == 10
Header == <<67, 111, 110, 116, 101, 110, 116, 45, 76, 101, 110, 103, 116, 104, 58, 32>>    \* "Content-Length: "
Digits(n) == IF n < 10 THEN <<48 + n>> ELSE <<48 + (n \div 10), 48 + (n % 10)>>
Frame(body) == Header \o Digits(Len(body)) \o <<CR, LF, CR, LF>> \o body
RECURSIVE Wire(_)
Wire(ms) == IF ms = << >> THEN << >> ELSE Frame(Head(ms)) \o Wire(Tail(ms))

\* ---- reader ----
RECURSIVE ScanCR(_, _)
ScanCR(w, i) == IF i > Len(w) THEN 0 ELSE IF w[i] = CR THEN i ELSE ScanCR(w, i + 1)
IsDigit(b) == b >= 48 /\ b <= 57
RECURSIVE Num(_, _, _)
Num(w, i, j) == IF i > j THEN 0 ELSE Num(w, i, j - 1) * 10 + (w[j] - 48)
\* one message starting at position pos: [ok, body, next] or an error
ReadOne(w, pos) ==
  LET cr == ScanCR(w, pos) IN
  IF cr = 0 THEN [ok |-> FALSE, err |-> "EOF"]
  ELSE IF cr + 3 > Len(w) THEN [ok |-> FALSE, err |-> "EOF"]
  ELSE IF <<w[cr + 1], w[cr + 2], w[cr + 3]>> # <<LF, CR, LF>> THEN [ok |-> FALSE, err |-> "delimiter"]
  ELSE LET h == SubSeq(w, pos, cr - 1)
           okHeader == /\ Len(h) > Len(Header) /\ SubSeq(h, 1, Len(Header)) = Header
                       /\ \A k \in (Len(Header) + 1)..Len(h) : IsDigit(h[k])
       IN IF ~okHeader THEN [ok |-> FALSE, err |-> "header"]
          ELSE LET n == Num(h, Len(Header) + 1, Len(h))
                   start == cr + 4
               IN IF start + n - 1 > Len(w) THEN [ok |-> FALSE, err |-> "EOF"]
                  ELSE [ok |-> TRUE, body |-> SubSeq(w, start, start + n - 1), next |-> start + n]
RECURSIVE ReadAll(_, _, _)
ReadAll(w, pos, fuel) ==
  IF pos > Len(w) \/ fuel = 0 THEN << >>
  ELSE LET r == ReadOne(w, pos) IN IF r.ok THEN <<r.body>> \o ReadAll(w, r.next, fuel - 1) ELSE <<<<"ERROR">>>>

Bodies == UNION { [1..k -> BodyAlphabet] : k \in 0..MaxBody }
MsgSeqs == UNION { [1..k -> Bodies] : k \in 1..MaxMsgs }
CutSets(n) == {{}} \cup (IF MaxCuts >= 1 THEN { {i} : i \in 1..(n - 1) } ELSE {})
              \cup (IF MaxCuts >= 2 THEN { {i, j} : i \in 1..(n - 1), j \in 1..(n - 1) } ELSE {})

VARIABLES sent, cuts, decoded, done
vars == <<sent, cuts, decoded, done>>
Init == /\ sent \in MsgSeqs /\ cuts \in CutSets(Len(Wire(sent)))
        /\ decoded = << >> /\ done = FALSE
Step == /\ ~done /\ done' = TRUE /\ UNCHANGED <<sent, cuts>>
        /\ decoded' = ReadAll(Wire(sent), 1, MaxMsgs + 1)
        /\ (Emit => PrintT(<<"T", ToJson([sent |-> sent, cuts |-> cuts, wire |-> Wire(sent)])>>))
Next == Step
DecodedIsSent == done => decoded = sent
=============================================================================
