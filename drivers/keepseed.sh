#!/bin/sh
# keepseed.sh <worktree> <seed id> <property> <caught-by text>
# copies a confirmed seeded change from a sub-agent's scratch worktree into /verif/seeded/<id>/
set -e
WT=$1; ID=$2; PID=$3; CAUGHT=$4
D=/verif/seeded/$ID
mkdir -p $D
cp -r $WT/_seed/* $D/
python3 - "$D" "$PID" "$CAUGHT" <<'PY'
import json,sys,os
d,pid,caught=sys.argv[1:4]
notes=open(os.path.join(d,'NOTES.md')).read() if os.path.exists(os.path.join(d,'NOTES.md')) else ''
meta={"property":pid,"needs_to_manifest":"see NOTES.md","confirmed":"applied in a scratch worktree: go build ./... ok; go test -vet=off -count=1 ./... passes; run.sh fails with the change and passes with it stashed","checks_run":caught}
json.dump(meta,open(os.path.join(d,'meta.json'),'w'),indent=1)
PY
