CONSTANTS
  MaxDoc = 0
  MaxIns = 0
  MaxOps = 0
  CP = {"a", "e", "z", "g", "r", "n"}
  Emit = FALSE
  Two = FALSE
INIT TInit
NEXT TNext
VIEW TView
CONSTRAINT HighWater
POSTCONDITION Accepted
INVARIANTS InSync
