CONSTANTS
  Vars <- V3
  MaxOps = 4
  Emit = TRUE
  Shapes <- Sh2
INIT Init
NEXT Next
VIEW View
INVARIANTS WindowsOk
