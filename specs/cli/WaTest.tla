------------------------------- MODULE WaTest -------------------------------
(* C30: `wa test` verdicts.  A package is a sequence of test and example      *)
(* functions; each declares what it expects (nothing, an output, an empty     *)
(* output, a panic message) and does something (returns after printing,       *)
(* panics, traps, exits - possibly after printing).  The runner is a state    *)
(* machine that takes the selected functions one by one; the contract says    *)
(* when a function passes and what the command reports at the end.            *)
EXTENDS Integers, Sequences, FiniteSets, TLC, Json
CONSTANTS MaxFuncs, Emit, WithPatterns

Kinds == {"Test", "Example"}
Declares == {[d |-> "none"], [d |-> "out", o |-> "A"], [d |-> "outEmpty"], [d |-> "panic", m |-> "boom"]}
Does == {[a |-> "ret", p |-> ""], [a |-> "ret", p |-> "A"], [a |-> "ret", p |-> "B"],
         [a |-> "panic", p |-> "", m |-> "boom"], [a |-> "panic", p |-> "", m |-> "other"],
         [a |-> "panic", p |-> "A", m |-> "boom"],
         [a |-> "trap", p |-> ""], [a |-> "trap", p |-> "A"],
         [a |-> "exit", p |-> "", n |-> 3]}
\* domain restriction (named): a function that declares a panic does not print before panicking
\* (the runner compares the whole output with the declared message; the statement does not
\* say whether earlier output matters)
InDomain(d, a) == ~(d.d = "panic" /\ a.a = "panic" /\ a.p # "")
Funcs == { [kind |-> k, declares |-> d, does |-> a] : k \in Kinds, d \in { x \in Declares : TRUE }, a \in { y \in Does : TRUE } } \ 
         { [kind |-> k, declares |-> d, does |-> a] : k \in Kinds, d \in { x \in Declares : x.d = "panic" }, a \in { y \in Does : y.a = "panic" /\ y.p # "" } }
Patterns == IF WithPatterns THEN {"", "Test*", "*1", "Example*"} ELSE {""}

\* the contract: when does one function pass
Pass(f) ==
  CASE f.declares.d = "none"     -> f.does.a = "ret"
    [] f.declares.d = "out"      -> f.does.a = "ret" /\ f.does.p = f.declares.o
    [] f.declares.d = "outEmpty" -> f.does.a = "ret" /\ f.does.p = ""
    [] f.declares.d = "panic"    -> f.does.a = "panic" /\ f.does.m = f.declares.m     \* message has the declared prefix

\* names: <Kind><index>; a glob pattern of the forms used here
Name(f, i) == [kind |-> f.kind, idx |-> i]
Matches(pat, f, i) == CASE pat = "" -> TRUE
                        [] pat = "Test*" -> f.kind = "Test"
                        [] pat = "Example*" -> f.kind = "Example"
                        [] pat = "*1" -> i = 1

VARIABLES pkg, pattern, i, allPass, verdict
vars == <<pkg, pattern, i, allPass, verdict>>

Init == /\ pkg \in UNION { [1..k -> Funcs] : k \in 1..MaxFuncs }
        /\ pattern \in Patterns
        /\ i = 1 /\ allPass = TRUE /\ verdict = "running"
\* the runner takes the functions in order (the order does not affect the verdict)
RunOne == /\ verdict = "running" /\ i <= Len(pkg)
          /\ allPass' = (allPass /\ (Matches(pattern, pkg[i], i) => Pass(pkg[i])))
          /\ i' = i + 1 /\ UNCHANGED <<pkg, pattern, verdict>>
Finish == /\ verdict = "running" /\ i > Len(pkg)
          /\ verdict' = IF allPass THEN "ok" ELSE "FAIL"
          /\ (Emit => PrintT(<<"T", ToJson([pkg |-> pkg, pattern |-> pattern, verdict |-> verdict'])>>))
          /\ UNCHANGED <<pkg, pattern, i, allPass>>
Next == RunOne \/ Finish

\* the property: ok (and status 0) exactly when every selected function passes
VerdictExact == verdict # "running" =>
                  (verdict = "ok" <=> \A k \in 1..Len(pkg) : Matches(pattern, pkg[k], k) => Pass(pkg[k]))
View == <<pkg, pattern, i, allPass, verdict>>
=============================================================================
