"""C26 -- DAP content-length framing: DapFrame.tla (writer, chunked channel, reader
transcribed; TLC invariant decoded = sent over every case) with every case replayed on
the real WriteBaseMessage/ReadBaseMessage through the TLC-chosen chunking; every
registered message kind x three fill patterns written and read back through chunked
streams (identity check of the codec)."""
import json
import os

import common
from common import MachineryError

LEVEL = "model_checking"


def cfg(alpha, maxbody, maxmsgs, maxcuts):
    return """CONSTANTS
  BodyAlphabet = {%s}
  MaxBody = %d
  MaxMsgs = %d
  MaxCuts = %d
  Emit = TRUE
INIT Init
NEXT Next
INVARIANTS DecodedIsSent
""" % (",".join(map(str, alpha)), maxbody, maxmsgs, maxcuts)


def run(chk):
    b = common.go_build("net")
    thorough = chk.tier == "thorough"
    chk.assume("framing level: bodies are arbitrary bytes over {x, CR, LF, C}; the transport delivers non-empty chunks cut at the TLC-chosen positions")
    chk.assume("typed level: field values are the deterministic fill patterns of the harness (zero value / all scalars / nested pointers, slices, maps, raw JSON); equality is Go deep equality or identical JSON")
    confs = [("2 msgs, body<=2, 1 cut", [120, 13, 10], 2, 2, 1), ("1 msg, body<=3, 2 cuts", [120, 13, 10, 67], 3, 1, 2)]
    if thorough:
        confs += [("2 msgs, body<=2, 2 cuts", [120, 13, 10], 2, 2, 2), ("3 msgs, body<=1, 1 cut", [120, 13], 1, 3, 1)]
    d = common.subdir("c26")

    def one(c):
        name = c[0]
        path = os.path.join(d, "c%d.txt" % confs.index(c))
        with open(path, "w") as fh:
            res = common.run_tlc("net", "DapFrame", "c.cfg", files={"c.cfg": cfg(*c[1:])}, collect_prefix='<<"T"', timeout=3000,
                                 line_cb=lambda l: fh.write(l + "\n"), workers=8)
        if res.violated:
            raise MachineryError("DapFrame.tla violates " + res.violated)
        rc, so, se, to = common.run_child([b, "dap", path], timeout=1800)
        first = open(path).readline().rstrip("\n")
        os.unlink(path)
        if rc != 0:
            raise MachineryError("net harness failed: " + se[-1500:])
        return name, res, [json.loads(l) for l in so.splitlines() if l.strip()], first
    for name, res, lines, first in common.parallel(one, confs, workers=2):
        chk.tlc(res, name)
        done = [l for l in lines if l.get("done")][0]
        if done["n"] == 0 or done["typed"] == 0:
            raise MachineryError("nothing replayed for " + name)
        chk.add("traces_validated_against_impl", done["n"])
        chk.add("typed_messages_round_tripped", done["typed"])
        chk.cov["registered_message_kinds"] = done["kinds"]
        p = common.parse_printt(first, "T")
        if p:
            chk.sample(json.loads(p[0]))
        for l in lines:
            if "fail" in l:
                if l["layer"] == "framing":
                    chk.report("C26:framing:%s" % l["fail"].split(":")[0].replace(" ", "-")[:40],
                               "%s: bodies %s cut at %s" % (l["fail"], l["case"]["sent"], l["case"]["cuts"]), l)
                else:
                    chk.report("C26:codec:%s:p%d" % (l["kind"], l["pattern"]), "%s (%s): want %s got %s err %s" % (
                        l["fail"], l["kind"], l["want"][:200], l["got"][:200], l["error"]), l)
    chk.cov["exhaustive"] = True
    chk.cov["explanation"] = ("framing: every case (body sequence x cut set) of the bounded configurations checked by TLC on the transcribed reader and executed on the real "
                              "reader through the same chunking; codec: all registered request/response/event kinds x 3 fill patterns x 40 chunkings, identity by replay")


def replay(chk, path):
    rec = json.load(open(path))["record"]
    if "case" not in rec:
        return
    b = common.go_build("net")
    d = common.subdir("c26")
    p = os.path.join(d, "r.txt")
    js = json.dumps(rec["case"]).replace("\\", "\\\\").replace('"', '\\"')
    open(p, "w").write('<<"T", "%s">>\n' % js)
    rc, so, se, to = common.run_child([b, "dap", p], timeout=60)
    for l in so.splitlines():
        l = json.loads(l)
        if "fail" in l and l["layer"] == "framing":
            chk.report("C26:framing:replayed", l["fail"], l)
