CONSTANTS
  Emit = TRUE
  MaxPerturbed = 1
  Constructs <- CZ
  ExtraBreakFills <- WzExtra
  StrictBounds = TRUE
INIT Init
NEXT Next
INVARIANT ModelOK
