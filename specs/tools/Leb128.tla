------------------------------- MODULE Leb128 -------------------------------
(* C19: LEB128 as the WebAssembly binary format defines it.                   *)
(* Integers are bit sequences (LSB first) so that 33- and 64-bit values fit   *)
(* TLC's 32-bit arithmetic.  Enc: minimal-length encoding by 7-bit groups.    *)
(* Dec: byte-at-a-time decoder returning value and byte count, or one of      *)
(* TooLong (more than ceil(W/7) bytes), BadBits (unused bits of the last      *)
(* allowed byte inconsistent), EOF.                                           *)
EXTENDS Integers, Sequences, FiniteSets, TLC, Json
CONSTANTS Mode,      \* "enc" | "dec" | "dec64"
          W, Signed, DecMaxLen, Emit

\* ---- bit vectors ----
Bits(n, f(_)) == [i \in 1..n |-> f(i - 1)]           \* f: bit index (from 0) -> 0/1
BitAt(b, k, fill) == IF k < Len(b) THEN b[k + 1] ELSE fill
SignOf(b) == b[Len(b)]
\* little-endian bytes of b sign/zero-extended to 64 bits (how values cross to the harness)
ToBytes(b, fill) == [j \in 1..8 |->
   BitAt(b, 8 * (j - 1), fill) + 2 * BitAt(b, 8 * (j - 1) + 1, fill) + 4 * BitAt(b, 8 * (j - 1) + 2, fill) + 8 * BitAt(b, 8 * (j - 1) + 3, fill)
   + 16 * BitAt(b, 8 * (j - 1) + 4, fill) + 32 * BitAt(b, 8 * (j - 1) + 5, fill) + 64 * BitAt(b, 8 * (j - 1) + 6, fill) + 128 * BitAt(b, 8 * (j - 1) + 7, fill)]

\* ---- encoder ----
Fill(b) == IF Signed THEN SignOf(b) ELSE 0
GroupVal(b, g) == LET f == Fill(b) IN
   BitAt(b, 7 * g, f) + 2 * BitAt(b, 7 * g + 1, f) + 4 * BitAt(b, 7 * g + 2, f) + 8 * BitAt(b, 7 * g + 3, f)
   + 16 * BitAt(b, 7 * g + 4, f) + 32 * BitAt(b, 7 * g + 5, f) + 64 * BitAt(b, 7 * g + 6, f)
MaxGroups == (W + 6) \div 7
\* n groups suffice: every bit from 7n on (unsigned) / from 7n-1 on (signed) equals the fill
Suffices(b, n) == LET f == Fill(b) IN
   \A k \in (IF Signed THEN 7 * n - 1 ELSE 7 * n)..(Len(b) - 1) : b[k + 1] = f
NGroups(b) == CHOOSE n \in 1..MaxGroups : Suffices(b, n) /\ \A m \in 1..(n - 1) : ~Suffices(b, m)
Enc(b) == LET n == NGroups(b) IN [g \in 1..n |-> GroupVal(b, g - 1) + (IF g < n THEN 128 ELSE 0)]

\* ---- decoder ----
\* bits of the groups read so far, then extended to W bits
RECURSIVE GroupBits(_, _)
GroupBits(bytes, n) == IF n = 0 THEN << >>
   ELSE GroupBits(bytes, n - 1) \o [i \in 1..7 |-> ((bytes[n] % 128) \div (2 ^ (i - 1))) % 2]
Dec(bytes) ==
  LET RECURSIVE Scan(_)
      Scan(i) ==
        IF i > Len(bytes) THEN [err |-> "EOF"]
        ELSE IF i > MaxGroups THEN [err |-> "TooLong"]
        ELSE IF bytes[i] >= 128 THEN (IF i = MaxGroups THEN [err |-> "TooLong"] ELSE Scan(i + 1))
        ELSE LET raw == GroupBits(bytes, i)
                 sign == IF Signed THEN raw[Len(raw)] ELSE 0
                 used == IF Len(raw) >= W THEN SubSeq(raw, 1, W) ELSE raw \o [k \in 1..(W - Len(raw)) |-> sign]
                 \* bits of the last group that do not fit in W must repeat the sign / be zero
                 okBits == \A k \in (W + 1)..Len(raw) : raw[k] = (IF Signed THEN used[W] ELSE 0)
             IN IF okBits THEN [err |-> "", v |-> used, n |-> i] ELSE [err |-> "BadBits"]
  IN Scan(1)

\* ---- case spaces ----
Ones(k) == Bits(W, LAMBDA i : IF i < k THEN 1 ELSE 0)                 \* 2^k - 1
Single(k) == Bits(W, LAMBDA i : IF i = k THEN 1 ELSE 0)               \* 2^k
Inv(b) == [i \in 1..Len(b) |-> 1 - b[i]]
Alt(p) == Bits(W, LAMBDA i : (i + p) % 2)
Values == UNION { { Ones(k), Inv(Ones(k)), Single(k % W), Inv(Single(k % W)),
                    [Ones(k) EXCEPT ![1] = 0], [Single(k % W) EXCEPT ![1] = 1],
                    [Inv(Single(k % W)) EXCEPT ![1] = 0] } : k \in 0..W } \cup {Alt(0), Alt(1)}

ByteAlphabet == {0, 1, 63, 64, 127, 128, 129, 191, 192, 255}
LastAlphabet == ByteAlphabet \cup {8, 15, 16, 32, 48, 56, 96, 112, 120, 126, 2, 62}
DecInputs == UNION { [1..k -> ByteAlphabet] : k \in 0..(DecMaxLen - 1) }
             \cup { Append(p, l) : p \in UNION { [1..k -> {128, 255, 129}] : k \in (DecMaxLen - 1)..(DecMaxLen - 1) }, l \in LastAlphabet }
Prefixes64 == UNION { { [i \in 1..k |-> 128], [i \in 1..k |-> 255], [i \in 1..k |-> IF i % 2 = 0 THEN 128 ELSE 255],
                        [i \in 1..k |-> IF i = 1 THEN 129 ELSE 128] } : k \in 7..10 }
Dec64Inputs == { p \o <<x>> \o <<y>> : p \in Prefixes64, x \in ByteAlphabet, y \in LastAlphabet }
               \cup { p \o <<y>> : p \in Prefixes64, y \in LastAlphabet }

VARIABLES input, out, done
vars == <<input, out, done>>
Init == /\ input \in (CASE Mode = "enc" -> Values [] Mode = "dec" -> DecInputs [] Mode = "dec64" -> Dec64Inputs)
        /\ out = << >> /\ done = FALSE
Result(r) == IF r.err = "" THEN [err |-> "", v |-> ToBytes(r.v, IF Signed THEN SignOf(r.v) ELSE 0), n |-> r.n] ELSE [err |-> r.err]
Step == /\ ~done /\ done' = TRUE /\ UNCHANGED input
        /\ IF Mode = "enc"
           THEN /\ out' = Enc(input)
                /\ (Emit => PrintT(<<"T", ToJson([mode |-> "enc", w |-> W, signed |-> Signed,
                                                  v |-> ToBytes(input, Fill(input)), bytes |-> out'])>>))
           ELSE /\ out' = Result(Dec(input))
                /\ (Emit => PrintT(<<"T", ToJson([mode |-> "dec", w |-> W, signed |-> Signed, bytes |-> input, res |-> out'])>>))
Next == Step

\* laws of the reference itself
RoundTrip == (done /\ Mode = "enc") =>
               LET d == Dec(out) IN d.err = "" /\ d.v = input /\ d.n = Len(out) /\ Len(out) <= MaxGroups
Minimal == (done /\ Mode = "enc" /\ Len(out) > 1) =>
               \* dropping the last group (and clearing the continuation bit) changes the value
               LET s == [SubSeq(out, 1, Len(out) - 1) EXCEPT ![Len(out) - 1] = @ - 128]
                   d == Dec(s) IN d.err # "" \/ d.v # input
=============================================================================
