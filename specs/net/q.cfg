CONSTANTS
  Alphabet = {192, 219, 220, 221, 65, 10}
  MaxLen = 2
  MaxPkts = 2
  Frames = {999}
  ZeroReads = TRUE
  IdlePolls = 2
  MaxCuts = 1
  FixState = FALSE
  Emit = FALSE
INIT Init
NEXT Next
INVARIANTS DeliveredIsSent
