CONSTANTS
  Emit = TRUE
  Depth = 1
INIT Init
NEXT Next
INVARIANT ModelOK
