CONSTANTS
  Emit = TRUE
  Depth = 2
INIT Init
NEXT Next
INVARIANT ModelOK
