CONSTANTS
  Emit = TRUE
  Full = FALSE
INIT Init
NEXT Next
INVARIANT Known
