"""C15 -- constant folding: WaInt.tla's exact (128-bit) semantics evaluated by TLC: a typed
constant operation must print the exact value when it is representable in its type and be
rejected at compile time exactly when it is not (or divides by zero); the same cases run
with variables are C01's, so folded and run-time values are tied to one specification."""
import json
import os
import random

import common
import kernel
from common import MachineryError

LEVEL = "model_checking"


def run(chk):
    wa = common.build_wa()
    thorough = chk.tier == "thorough"
    rng = random.Random(common.seed())
    chk.assume("typed integer constant expressions T(a) op T(b), shifts by untyped constant counts, unary - ^, constant conversions T2(T1(a)); untyped-constant arithmetic "
               "beyond 128 bits and floating-point constants are not decided")
    types = kernel.ALL_TYPES if thorough else ["i32", "u8", "i64"]
    cs = kernel.cases_from_tlc(chk, types, "WaInt cases %s" % types)
    signed = kernel.SIGNED
    accept = [c for c in cs if c["k"] in ("value", "bool")]
    reject = [c for c in cs if c["k"] == "reject"]

    def want_of(c):
        if c["k"] == "bool":
            return "true" if c["kr"] == [1] else "false"
        t2 = c["op"] if c["kind"] == "conv" else c["t"]
        return str(kernel.val(c["kr"], signed[t2]))
    # accepted constants: many per program
    batches = list(common.chunks(accept, 800))

    def job(ib):
        i, b = ib
        text = "func main {\n" + "".join("\tprintln(%s)\n" % kernel.const_expr(c, False) for c in b) + "}\n"
        return kernel.run_program(wa, text, ".wa", i, "c15a")
    for b, (rc, so, se, to) in zip(batches, common.parallel(job, list(enumerate(batches)))):
        lines = so.splitlines()
        if rc != 0 and len(lines) < len(b):
            # a compile error names the offending line: the compiler rejects a representable constant
            import re
            m = re.search(r"k\.wa:(\d+):\d+: (.*)", so + se)
            if m and 2 <= int(m.group(1)) <= len(b) + 1:
                c = b[int(m.group(1)) - 2]
                chk.report("C15:rejects-representable:%s:%s" % (c["t"], kernel.OPNAME.get(c["op"], c["op"])),
                           "the compiler rejects %s (%s); its exact value %s is representable" % (kernel.const_expr(c, False), m.group(2)[:120], want_of(c)),
                           {"case": c, "message": m.group(2)})
            else:
                raise MachineryError("constant program failed without a usable position: %s" % (so + se)[-400:])
            continue
        for c, got in zip(b, lines):
            chk.add("traces_validated_against_impl", 1)
            if got.strip() != want_of(c):
                chk.report("C15:folded-value:%s:%s" % (c["t"], kernel.OPNAME.get(c["op"], c["op"])),
                           "%s folds to %s; exact arithmetic gives %s" % (kernel.const_expr(c, False), got.strip(), want_of(c)), {"case": c, "got": got.strip(), "want": want_of(c)})

    # rejected constants: one compile each
    def rjob(ic):
        i, c = ic
        text = "func main {\n\tprintln(%s)\n}\n" % kernel.const_expr(c, False)
        return c, kernel.run_program(wa, text, ".wa", i, "c15r")
    for c, (rc, so, se, to) in common.parallel(rjob, list(enumerate(reject))):
        chk.add("traces_validated_against_impl", 1)
        out = (so + se).strip()
        if rc == 0:
            chk.report("C15:accepts-unrepresentable:%s:%s" % (c["t"], kernel.OPNAME.get(c["op"], c["op"])),
                       "%s compiles and prints %s; its exact value is not representable in %s (or it divides by zero)" % (kernel.const_expr(c, False), out[:60], c["t"] if c["kind"] != "conv" else c["op"]),
                       {"case": c, "output": out[:300]})
        elif "k.wa:" not in out:
            chk.report("C15:internal-error:%s:%s" % (c["t"], kernel.OPNAME.get(c["op"], c["op"])),
                       "%s is not rejected with a positioned compile error: %s" % (kernel.const_expr(c, False), out[:200]), {"case": c, "output": out[:500]})
    chk.cov["accepted_constants"] = len(accept)
    chk.cov["rejected_constants_compiled_individually"] = len(reject)
    chk.sample({"expr": kernel.const_expr(accept[0], False), "want": want_of(accept[0])})
    if reject:
        chk.sample({"expr": kernel.const_expr(reject[0], False), "want": "compile error"})
    chk.cov["exhaustive"] = thorough
    chk.cov["explanation"] = "every representable case printed from constant expressions in compiled programs; unrepresentable ones compiled one by one expecting a positioned compile error"


def replay(chk, path):
    run(chk)
