----------------------------- MODULE WaIntCases -----------------------------
(* Vector mode over WaInt: (type, operator, operands) -> what the run-time      *)
(* evaluation prints, and what the constant form does (value or rejection).     *)
EXTENDS WaInt, Json
CONSTANTS Emit, TypeNames
VARIABLES case, done
Ts == { t \in Types : t[1] \in TypeNames }
Cases == UNION { { <<"arith", t, op, a, b>> : op \in ArithOps, a \in Bound(t[2]), b \in Bound(t[2]) }
                 \cup { <<"cmp", t, op, a, b>> : op \in CmpOps, a \in Bound(t[2]), b \in {Zero(t[2]), FromInt(-1, t[2]), MinS(t[2]), MaxS(t[2]), FromInt(7, t[2])} }
                 \cup { <<"shift", t, op, a, FromInt(c, 32)>> : op \in ShiftOps, a \in Bound(t[2]), c \in Counts }
                 \cup { <<"unary", t, op, a, a>> : op \in UnaryOps, a \in Bound(t[2]) } : t \in Ts }
         \cup UNION { { <<"conv", t1, t2[1], a, a>> : a \in Bound(t1[2]) } : t1 \in Ts, t2 \in Ts }
Init == case \in Cases /\ done = FALSE
TypeOf(name) == CHOOSE t \in Types : t[1] = name
Out(c) ==
  LET t == c[2] IN
  CASE c[1] = "arith" ->
         IF c[3] \in {"/", "%"} /\ c[5] = Zero(t[2])
         THEN [rt |-> "panic", r |-> << >>, k |-> "reject", kr |-> << >>]            \* outside C01's domain; a constant divisor 0 is rejected
         ELSE LET e == ExactArith(t, c[3], c[4], c[5]) IN
              [rt |-> "value", r |-> Arith(t, c[3], c[4], c[5]),
               k |-> IF e[1] /\ Representable(t, e[2]) THEN "value" ELSE "reject", kr |-> Trunc(e[2], t[2])]
    [] c[1] = "cmp" -> [rt |-> "bool", r |-> IF Cmp(t, c[3], c[4], c[5]) THEN <<1>> ELSE <<0>>, k |-> "bool", kr |-> IF Cmp(t, c[3], c[4], c[5]) THEN <<1>> ELSE <<0>>]
    [] c[1] = "shift" -> LET cnt == ToNat(SubSeq(c[5], 1, 2))  e == ExactShift(t, c[3], c[4], cnt) IN
              [rt |-> "value", r |-> Shift(t, c[3], c[4], cnt),
               k |-> IF e[1] /\ Representable(t, e[2]) THEN "value" ELSE "reject", kr |-> Trunc(e[2], t[2])]
    [] c[1] = "unary" -> LET e == ExactUnary(t, c[3], c[4]) IN
              [rt |-> "value", r |-> Unary(t, c[3], c[4]),
               k |-> IF Representable(t, e[2]) THEN "value" ELSE "reject", kr |-> Trunc(e[2], t[2])]
    [] c[1] = "conv" -> LET t2 == TypeOf(c[3])  x == Ext(t, c[4]) IN
              [rt |-> "value", r |-> Convert(t, t2, c[4]),
               k |-> IF Representable(t2, x) THEN "value" ELSE "reject", kr |-> Trunc(x, t2[2])]
Step == /\ ~done /\ done' = TRUE /\ UNCHANGED case
        /\ LET o == Out(case) IN
           Emit => PrintT(<<"T", ToJson([kind |-> case[1], t |-> case[2][1], w |-> case[2][2], signed |-> case[2][3], op |-> case[3],
                                         a |-> case[4], b |-> case[5], rt |-> o.rt, r |-> o.r, k |-> o.k, kr |-> o.kr])>>)
Next == Step
=============================================================================
