#!/usr/bin/env python3
"""Generate /verif/MANIFEST.json from the table below and validate it against the schema.

Run after adding or removing a check:  python3 drivers/manifest.py
"""
import json
import os
import sys

VERIF = os.path.dirname(os.path.dirname(os.path.abspath(__file__)))

sys.path.insert(0, os.path.dirname(os.path.abspath(__file__)))
import manifest_table  # noqa: E402

CHECKS = manifest_table.CHECKS
NOT_APPLICABLE = manifest_table.NOT_APPLICABLE


def build():
    ids = [json.loads(l)["id"] for l in open(os.path.join(VERIF, "properties.jsonl"))]
    checks = []
    for pid in ids:
        if pid in CHECKS:
            cat, tech, text, note, ref = CHECKS[pid]
            checks.append({
                "property_id": pid,
                "quick_cmd": "./check %s --tier quick" % pid,
                "thorough_cmd": "./check %s --tier thorough" % pid,
                "evidence_file": "/verif/evidence/%s.json" % pid,
                "replay_cmd_template": "./check %s --replay {path}" % pid,
                "engine": "tlc+replay",
                "level_claimed": {"category": cat, "text": text, "design_ref": ref},
                "level_note": note,
                "technique": tech,
            })
    na = [{"property_id": p, "reason": NOT_APPLICABLE.get(p, "check not built yet (see DESIGN.md section 7); not claimed")}
          for p in ids if p not in CHECKS]
    man = {
        "version": 1,
        "setup_cmd": "python3 drivers/setup.py",
        "hooks": {
            "guard": "verif",
            "enable": "go build -tags verif -overlay <generated overlay.json> ./internal/zz_verif/<cmd>  (run in /repo; the overlay maps harness sources from /verif/harness into the module, nothing under /repo is written)",
            "baseline_off_cmd": "cd /repo && GOFLAGS=-mod=mod GOPROXY=off GOSUMDB=off go test -vet=off -count=1 -timeout 25m ./...",
            "source_commits": manifest_table.HOOK_COMMITS,
            "add_only": True,
        },
        "engines": [
            {"name": "tlc+replay", "path": "/verif/check",
             "serves_properties": [c["property_id"] for c in checks],
             "kind_free_text": "explicit TLA+ specifications (specs/) checked with TLC; bound to the Go/Wa/WAT code by replaying TLC-generated behaviours into the real code and by validating traces recorded from the real code with TLC (drivers/, harness/)"},
        ],
        "checks": checks,
        "not_applicable": na,
        "notes": "See DESIGN.md. Verdicts (exit 1) only come from observations of the real code that TLC rejects against a contract-level specification; machinery failures are exit 2. known_findings.json lists genuine defects (open = reported as KNOWN-FINDING, fixed = repaired by a fix: commit in /repo).",
    }
    return man


def main():
    man = build()
    out = os.path.join(VERIF, "MANIFEST.json")
    with open(out, "w") as fh:
        json.dump(man, fh, indent=1, ensure_ascii=False)
        fh.write("\n")
    try:
        import jsonschema
        schema = json.load(open("/root/.vp/MANIFEST.schema.json"))
        jsonschema.validate(man, schema)
        print("MANIFEST.json valid: %d checks, %d not_applicable" % (len(man["checks"]), len(man["not_applicable"])))
    except ImportError:
        print("MANIFEST.json written (jsonschema not available in this python; run with python3-vt to validate)")


if __name__ == "__main__":
    main()
