"""C07 -- formatting is idempotent and meaning-preserving: TLC enumerates the legal layouts
(WaLayout.tla: gap fills under the automatic-semicolon and token-merging rules) of a menu of
constructs; each is formatted by the real formatter twice, both texts parsed and the trees,
comments and compiled modules compared.  The repository's own .wa/.wz sources are a second
input set."""
import json
import os
import subprocess

import common
from common import MachineryError

LEVEL = "exploration"

FILL = {"none": "", "none0": "", "sp": " ", "sp2": "  ", "tab": "\t", "nl": "\n", "blank": "\n\n", "bc": "/*c%d*/", "bcsp": " /*c%d*/ ", "lc": " //c%d\n",
        "bcnl": " /*c%d*/\n", "semi": "; ", "seminl": ";\n", "eof": "",
        "hc": " #c%d\n", "zc": " 注: c%d\n"}


def text_of(pieces):
    out = []
    for k, p in enumerate(pieces):
        if k % 2 == 0:
            t = FILL[p]
            out.append(t % k if "%d" in t else t)
        else:
            out.append(p)
    return "".join(out)


def classify(r):
    """the first way in which a formatting result breaks the property, or None"""
    if r["panic"]:
        return "panic", r["panic"][:200]
    if r["err1"]:
        return "format-error", r["err1"][:200]
    if r["err2"]:
        return "reformat-error", r["err2"][:200]
    if r["parse_out"]:
        return "output-unparsable", r["parse_out"][:200]
    if not r["ast_equal"]:
        return "ast-changed", r["ast_diff"][:200]
    if r["com_src"] != r["com_out"]:
        lost = [c for c in r["com_src"] if c not in r["com_out"]]
        return "comment-lost", "comments %s are not in the output %s" % (lost[:3], r["com_out"][:6])
    if not r["fixpoint"]:
        return "not-idempotent", "formatting the output again changes it"
    if r.get("wat_norm_equal") is False:
        return "wat-differs", "the formatted program compiles to a different module (%s / %s)" % (r["wat_err_src"][:80], r["wat_err_out"][:80])
    return None


def run_cases(h, cases, nparts=16):
    """cases: list of dicts (id, name, src, compile) -> {id: result}"""
    parts = [cases[i::nparts] for i in range(nparts)]

    def job(part):
        if not part:
            return []
        inp = "".join(json.dumps(c) + "\n" for c in part)
        p = subprocess.run([h, "fmt"], input=inp, capture_output=True, text=True, timeout=3000)
        if p.returncode != 0:
            raise MachineryError("front fmt failed: " + p.stderr[-400:])
        return [json.loads(l) for l in p.stdout.splitlines()]
    out = {}
    for rs in common.parallel(job, parts):
        for r in rs:
            out[r["id"]] = r
    return out


def corpus():
    files = []
    for root, ds, fs in os.walk(os.path.join(common.REPO, "waroot")):
        ds.sort()
        for f in sorted(fs):
            if f.endswith(".wa") or f.endswith(".wz"):
                files.append(os.path.join(root, f))
    return files


def layouts(chk, h, lang, cfgname):
    """every legal layout TLC enumerates for one language, through the real formatter"""
    res = common.run_tlc("fmt", "WaLayoutMC", cfgname, collect_prefix='<<"T"', timeout=3000)
    if res.violated:
        raise MachineryError("WaLayout violates " + res.violated)
    chk.tlc(res, "WaLayout %s (legal gap fills)" % lang)
    lays = [json.loads(common.parse_printt(l, "T")[0]) for l in res.lines]
    for l in lays:
        l["gaps"] = {str(x["g"]): x["f"] for x in l["gaps"]}
    lays.sort(key=lambda x: (x["c"], json.dumps(x["gaps"], sort_keys=True)))
    cases = []
    for i, l in enumerate(lays):
        g = l["gaps"]
        fills = sorted(g.values())
        # compile the plain construct, a third of the one-gap comment layouts, and a slice of the rest (each pair costs two compiler runs)
        comp = (not fills) or (len(fills) == 1 and ((fills[0] in ("bc", "lc", "bcnl", "bcsp", "semi", "hc", "zc") and i % 3 == 0) or i % 7 == 0)) or (len(fills) == 2 and i % 97 == 0)
        cases.append({"id": i, "name": "p." + lang, "src": text_of(l["pieces"]), "compile": comp})
    results = run_cases(h, cases)
    bad_src = []
    ncomp = nexact = 0
    for c, l in zip(cases, lays):
        r = results.get(c["id"])
        if r is None:
            raise MachineryError("no result for case %d" % c["id"])
        chk.add("evaluations", 1)
        if r["parse_src"]:
            bad_src.append((l["c"], l["gaps"], r["parse_src"]))
            continue
        if r.get("wat_equal") is not None:
            ncomp += 1
            nexact += 1 if r["wat_equal"] else 0
            if r["wat_err_src"]:
                bad_src.append((l["c"], l["gaps"], "does not compile: " + r["wat_err_src"]))
                continue
        v = classify(r)
        if v:
            g = l["gaps"]
            # the key names each perturbed gap by its fill and the token on its left
            where = "+".join(sorted("%s@%s" % (f, l["pieces"][2 * int(k) - 1] if int(k) > 0 else "BOF") for k, f in g.items())) or "plain"
            chk.report("C07:%s:%s:%s:%s" % (v[0], lang, l["c"], where),
                       "%s construct %s with layout %s: %s" % (lang, l["c"], json.dumps(g, sort_keys=True), v[1]),
                       {"source": c["src"], "formatted": r["out1"], "result": {k: r[k] for k in r if k != "out1"}})
    if bad_src:
        raise MachineryError("%d %s layouts the model calls legal do not parse/compile, e.g. %s" % (len(bad_src), lang, bad_src[:3]))
    chk.cov["layouts_" + lang] = len(lays)
    chk.cov["compiled_pairs_" + lang] = ncomp
    chk.cov["compiled_pairs_byte_identical_" + lang] = nexact
    chk.sample({"layout": lays[len(lays) // 2], "source": cases[len(lays) // 2]["src"]})
    return len(lays)


def run(chk):
    h = common.go_build("front")
    thorough = chk.tier == "thorough"
    chk.assume("layouts: the constructs of WaLayoutMC.tla (.wa) with %s perturbed; fills are white space, line breaks, block and line comments, semicolons; "
               "the compiled modules are compared after masking data segments and i32 constants (the compiler embeds source positions of possible run-time panics); "
               "both languages, plus the repository's own .wa/.wz sources" % ("one or two gaps" if thorough else "one gap"))
    nlay = layouts(chk, h, "wa", "layout2.cfg" if thorough else "layout1.cfg")
    nlay += layouts(chk, h, "wz", "wzlayout2.cfg" if thorough else "wzlayout1.cfg")
    # the repository's own sources
    files = corpus()
    cc = []
    for i, f in enumerate(files):
        try:
            src = open(f, encoding="utf-8").read()
        except UnicodeDecodeError:
            continue
        cc.append({"id": i, "name": os.path.basename(f), "src": src, "compile": False})
    rs = run_cases(h, cc)
    unparsed = 0
    for c in cc:
        r = rs[c["id"]]
        chk.add("evaluations", 1)
        rel = os.path.relpath(files[c["id"]], common.REPO)
        if r["parse_src"]:
            unparsed += 1
            continue
        v = classify(r)
        if v:
            chk.report("C07:%s:%s:corpus:%s" % (v[0], "wz" if rel.endswith(".wz") else "wa", rel), "%s: %s" % (rel, v[1]), {"file": rel, "result": {k: r[k] for k in r if k != "out1"}})
    chk.cov["corpus_files"] = len(cc)
    chk.cov["corpus_files_not_parsing"] = unparsed
    chk.cov["distinct_nontrivial"] = nlay + len(cc) - unparsed
    chk.cov["rule"] = ("one evaluation = one source text formatted twice by api.FormatCode, input and output parsed by the real parser, the position-free AST dumps, the comment "
                       "multisets and (for the marked cases) the compiled WAT compared; texts are distinct layouts enumerated by TLC plus the repository's own sources")


def replay(chk, path):
    run(chk)
