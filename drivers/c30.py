"""C30 -- `wa test` verdicts: WaTest.tla (per-function pass contract + runner machine);
TLC enumerates packages, every one is generated as a Wa module and run with the real
`wa test`; verdict line and exit status are compared."""
import json
import os
import random

import common
from common import MachineryError

LEVEL = "model_checking"


def cfg(maxfuncs, patterns):
    return """CONSTANTS
  MaxFuncs = %d
  Emit = TRUE
  WithPatterns = %s
INIT Init
NEXT Next
INVARIANTS VerdictExact
""" % (maxfuncs, "TRUE" if patterns else "FALSE")


def render_func(f, i):
    name = "%s%d" % (f["kind"], i)
    d, a = f["declares"], f["does"]
    body = ""
    if a["p"]:
        body += '\tprintln("%s")\n' % a["p"]
    if a["a"] == "panic":
        body += '\tpanic("%s")\n' % a["m"]
    elif a["a"] == "trap":
        body += "\tz := zero()\n\tprintln(1 / z)\n"
    elif a["a"] == "exit":
        body += "\tjs.ProcExit(%d)\n" % a["n"]
    if d["d"] == "out":
        body += "\t// Output:\n\t// %s\n" % d["o"]
    elif d["d"] == "outEmpty":
        body += "\t// Output:\n"
    elif d["d"] == "panic":
        body += "\t// Output(panic):\n\t// %s\n" % d["m"]
    return "func %s {\n%s}\n" % (name, body)


def render_pkg(pkg):
    src = 'import "syscall/js"\n\nfunc zero() => int {\n\treturn 0\n}\n\nfunc keep() {\n\tjs.ProcExit(77)\n}\n\n'
    return src + "\n".join(render_func(f, i + 1) for i, f in enumerate(pkg))


def fkey(f):
    d, a = f["declares"], f["does"]
    return "%s/%s/%s%s" % (f["kind"], d["d"], a["a"], "+print" if a["p"] else "")


def run_case(wa, case, idx):
    d = common.subdir("c30/%d" % idx)
    os.makedirs(os.path.join(d, "src"), exist_ok=True)
    open(os.path.join(d, "wa.mod"), "w").write('name = "pkg"\npkgpath = "pkg"\ntarget = "js"\n')
    open(os.path.join(d, "src", "main.wa"), "w").write("func main {\n}\n")
    open(os.path.join(d, "src", "t_test.wa"), "w").write(render_pkg(case["pkg"]))
    args = [wa, "test"] + (["-run", case["pattern"]] if case["pattern"] else []) + ["."]
    rc, so, se, to = common.run_child(args, timeout=60, cwd=d)
    return case, rc, so, se, to


def judge(chk, case, rc, so, se, to):
    rec = {"case": case, "rc": rc, "stdout": so[-600:], "stderr": se[-300:], "test_file": render_pkg(case["pkg"])}
    shape = "+".join(fkey(f) for f in case["pkg"]) + (":run=" + case["pattern"] if case["pattern"] else "")
    if to:
        chk.report("C30:hang:" + shape, "wa test does not terminate", rec)
        return
    lines = so.splitlines()
    has_ok = any(l.startswith("ok ") for l in lines)
    has_fail = any(l.startswith("FAIL") for l in lines)
    if case["verdict"] == "ok":
        if rc != 0 or not has_ok or has_fail:
            chk.report("C30:false-fail:" + shape, "every selected function passes but wa test reports rc=%s %r" % (rc, lines[-2:]), rec)
    else:
        if rc == 0 or has_ok:
            chk.report("C30:false-pass:" + shape, "a selected function fails but wa test reports rc=%s %r" % (rc, lines[-2:]), rec)
        elif not has_fail:
            chk.report("C30:no-FAIL-line:" + shape, "a selected function fails, wa test exits %s without printing FAIL: %r" % (rc, lines[-2:]), rec)


def run(chk):
    wa = common.build_wa()
    thorough = chk.tier == "thorough"
    rng = random.Random(common.seed())
    chk.assume("functions take no arguments; expected output is one line; the exit function is syscall/js.ProcExit; trap = integer division by zero")
    res1 = common.run_tlc("cli", "WaTest", "t.cfg", files={"t.cfg": cfg(1, False)}, collect_prefix='<<"T"', timeout=600)
    res2 = common.run_tlc("cli", "WaTest", "t.cfg", files={"t.cfg": cfg(2, True)}, collect_prefix='<<"T"', timeout=1800)
    for r, n in ((res1, "1-function packages"), (res2, "2-function packages x run patterns")):
        if r.violated:
            raise MachineryError("WaTest.tla violates its own invariant " + r.violated)
        chk.tlc(r, n)
    c1 = [json.loads(common.parse_printt(l, "T")[0]) for l in res1.lines]
    c2 = [json.loads(common.parse_printt(l, "T")[0]) for l in res2.lines]
    c2 = [c for c in c2 if len(c["pkg"]) == 2]
    if not thorough:
        c2 = rng.sample(c2, min(len(c2), 180))
    elif len(c2) > 8000:
        c2 = rng.sample(c2, 8000)
    cases = c1 + c2
    chk.cov["packages_run"] = {"one_function": len(c1), "two_functions": len(c2)}
    results = common.parallel(lambda ic: run_case(wa, ic[1], ic[0]), list(enumerate(cases)))
    for case, rc, so, se, to in results:
        chk.add("traces_validated_against_impl", 1)
        judge(chk, case, rc, so, se, to)
    chk.sample(c1[0])
    chk.sample(c2[0])
    chk.cov["exhaustive"] = thorough and len(c2) < 8000
    chk.cov["explanation"] = ("every 1-function package (2 kinds x 4 declarations x 9 behaviours) and %s 2-function packages with -run patterns, generated as "
                              "modules and run with `wa test`; verdict line and exit status compared with WaTest.tla" % ("all" if thorough else "a seeded sample of"))


def replay(chk, path):
    rec = json.load(open(path))["record"]
    wa = common.build_wa()
    judge(chk, *run_case(wa, rec["case"], 0))
