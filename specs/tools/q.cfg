CONSTANTS
  MaxLen = 5
  Emit = FALSE
  NotParen = FALSE
INIT Init
NEXT Next
INVARIANTS Closed
