------------------------------- MODULE WaMap -------------------------------
(* C13, implementation level: a statement-level transcription of             *)
(* waroot/src/runtime/map.wa (red-black tree + dense `nodes` slice used by   *)
(* len and range).  The contract FiniteMap is carried along (absm) and the   *)
(* refinement is checked as invariants.  With Emit every transition is       *)
(* printed as a JSON history that the harness renders as a Wa program.       *)
EXTENDS FiniteMap, Json
CONSTANTS Keys, Vals, MaxOps,
          FixDelete,   \* TRUE: delete() copies the successor's key/value into z and removes y
          Emit

RED == 0   BLACK == 1
NIL == 0                      \* node id of the sentinel; nodes[1] (index 0 in the code)
NULL == -1                    \* Go nil pointer (NIL.Left / NIL.Right)

VARIABLES nd, nodes, root, nextId,   \* implementation state
          last, nops, hist
vars == <<nd, nodes, root, nextId, absm, last, nops, hist>>

M == [nd |-> nd, nodes |-> nodes, root |-> root, nextId |-> nextId]

\* ---- accessors (0-based slice index i is nodes[i+1]) ----
At(m, i)  == m.nodes[i + 1]
Lf(m, x)  == m.nd[x].left
Rt(m, x)  == m.nd[x].right
Col(m, x) == m.nd[x].color
Key(m, x) == m.nd[x].key
Par(m, x) == At(m, m.nd[x].par)                         \* mapNode.Parent
SetPar(m, x, p) == [m EXCEPT !.nd[x].par = m.nd[p].idx] \* mapNode.SetParent
SetL(m, x, v) == [m EXCEPT !.nd[x].left = v]
SetR(m, x, v) == [m EXCEPT !.nd[x].right = v]
SetC(m, x, c) == [m EXCEPT !.nd[x].color = c]

\* ---- search ----
RECURSIVE SearchFrom(_, _, _, _)
SearchFrom(m, p, k, fuel) ==
  IF p = NIL \/ fuel = 0 THEN NIL
  ELSE IF Key(m, p) < k THEN SearchFrom(m, Rt(m, p), k, fuel - 1)
  ELSE IF Key(m, p) > k THEN SearchFrom(m, Lf(m, p), k, fuel - 1)
  ELSE p
Search(m, k) == SearchFrom(m, m.root, k, Len(m.nodes) + 1)

\* ---- rotations ----
LeftRotate(m, x) ==
  IF Rt(m, x) = NIL THEN m
  ELSE LET y  == Rt(m, x)
           m1 == SetR(m, x, Lf(m, y))
           m2 == IF Lf(m1, y) # NIL THEN SetPar(m1, Lf(m1, y), x) ELSE m1
           m3 == SetPar(m2, y, Par(m2, x))
           px == Par(m3, x)
           m4 == IF px = NIL THEN [m3 EXCEPT !.root = y]
                 ELSE IF x = Lf(m3, px) THEN SetL(m3, px, y)
                 ELSE SetR(m3, px, y)
           m5 == SetL(m4, y, x)
       IN SetPar(m5, x, y)

RightRotate(m, x) ==
  IF Lf(m, x) = NIL THEN m
  ELSE LET y  == Lf(m, x)
           m1 == SetL(m, x, Rt(m, y))
           m2 == IF Rt(m1, y) # NIL THEN SetPar(m1, Rt(m1, y), x) ELSE m1
           m3 == SetPar(m2, y, Par(m2, x))
           px == Par(m3, x)
           m4 == IF px = NIL THEN [m3 EXCEPT !.root = y]
                 ELSE IF x = Lf(m3, px) THEN SetL(m3, px, y)
                 ELSE SetR(m3, px, y)
           m5 == SetR(m4, y, x)
       IN SetPar(m5, x, y)

\* ---- insertFixup ----
RECURSIVE InsertFixup(_, _, _)
InsertFixup(m, z, fuel) ==
  IF fuel = 0 \/ Col(m, Par(m, z)) # RED THEN SetC(m, m.root, BLACK)
  ELSE
  LET p == Par(m, z)  pp == Par(m, p) IN
  IF p = Lf(m, pp) THEN
     LET y == Rt(m, pp) IN
     IF Col(m, y) = RED
     THEN InsertFixup(SetC(SetC(SetC(m, p, BLACK), y, BLACK), pp, RED), pp, fuel - 1)
     ELSE LET z1 == IF z = Rt(m, p) THEN p ELSE z
              m1 == IF z = Rt(m, p) THEN LeftRotate(m, p) ELSE m
              m2 == SetC(m1, Par(m1, z1), BLACK)
              m3 == SetC(m2, Par(m2, Par(m2, z1)), RED)
              m4 == RightRotate(m3, Par(m3, Par(m3, z1)))
          IN InsertFixup(m4, z1, fuel - 1)
  ELSE
     LET y == Lf(m, pp) IN
     IF Col(m, y) = RED
     THEN InsertFixup(SetC(SetC(SetC(m, p, BLACK), y, BLACK), pp, RED), pp, fuel - 1)
     ELSE LET z1 == IF z = Lf(m, p) THEN p ELSE z
              m1 == IF z = Lf(m, p) THEN RightRotate(m, p) ELSE m
              m2 == SetC(m1, Par(m1, z1), BLACK)
              m3 == SetC(m2, Par(m2, Par(m2, z1)), RED)
              m4 == LeftRotate(m3, Par(m3, Par(m3, z1)))
          IN InsertFixup(m4, z1, fuel - 1)

\* ---- insert ----
RECURSIVE Descend(_, _, _, _, _)
Descend(m, z, x, y, fuel) ==      \* returns the leaf parent y (or -2 when key exists)
  IF x = NIL \/ fuel = 0 THEN y
  ELSE IF Key(m, z) < Key(m, x) THEN Descend(m, z, Lf(m, x), x, fuel - 1)
  ELSE IF Key(m, x) < Key(m, z) THEN Descend(m, z, Rt(m, x), x, fuel - 1)
  ELSE -2
Insert(m, z) ==
  LET y == Descend(m, z, m.root, NIL, Len(m.nodes) + 1) IN
  IF y = -2 THEN m
  ELSE LET m1 == SetPar(m, z, y)
           m2 == IF y = NIL THEN [m1 EXCEPT !.root = z]
                 ELSE IF Key(m1, z) < Key(m1, y) THEN SetL(m1, y, z)
                 ELSE SetR(m1, y, z)
       IN InsertFixup(m2, z, 2 * Len(m.nodes) + 2)

\* ---- mapImp.Update ----
Update(m, k, v) ==
  LET ret == Search(m, k) IN
  IF ret = NIL
  THEN LET id == m.nextId
           node == [key |-> k, val |-> v, left |-> NIL, right |-> NIL, par |-> 0,
                    idx |-> Len(m.nodes), color |-> RED]
           m1 == [m EXCEPT !.nd = (id :> node) @@ @, !.nodes = Append(@, id), !.nextId = @ + 1]
       IN Insert(m1, id)
  ELSE [m EXCEPT !.nd[ret].val = v]

\* ---- successor ----
RECURSIVE MinFrom(_, _, _)
MinFrom(m, x, fuel) == IF Lf(m, x) = NIL \/ fuel = 0 THEN x ELSE MinFrom(m, Lf(m, x), fuel - 1)
RECURSIVE Climb(_, _, _, _)
Climb(m, x, y, fuel) == IF y # NIL /\ x = Rt(m, y) /\ fuel > 0 THEN Climb(m, y, Par(m, y), fuel - 1) ELSE y
Successor(m, x) ==
  IF x = NIL THEN NIL
  ELSE IF Rt(m, x) # NIL THEN MinFrom(m, Rt(m, x), Len(m.nodes))
  ELSE Climb(m, x, Par(m, x), Len(m.nodes))

\* ---- deleteFixup ----
RECURSIVE DeleteFixup(_, _, _)
DeleteFixup(m, x, fuel) ==
  IF fuel = 0 \/ x = m.root \/ Col(m, x) # BLACK THEN SetC(m, x, BLACK)
  ELSE
  IF x = Lf(m, Par(m, x)) THEN
     LET w0 == Rt(m, Par(m, x))
         m1 == IF Col(m, w0) = RED
               THEN LeftRotate(SetC(SetC(m, w0, BLACK), Par(m, x), RED), Par(m, x))
               ELSE m
         w1 == IF Col(m, w0) = RED THEN Rt(m1, Par(m1, x)) ELSE w0
     IN IF Col(m1, Lf(m1, w1)) = BLACK /\ Col(m1, Rt(m1, w1)) = BLACK
        THEN DeleteFixup(SetC(m1, w1, RED), Par(m1, x), fuel - 1)
        ELSE LET m2 == IF Col(m1, Rt(m1, w1)) = BLACK
                       THEN RightRotate(SetC(SetC(m1, Lf(m1, w1), BLACK), w1, RED), w1)
                       ELSE m1
                 w2 == IF Col(m1, Rt(m1, w1)) = BLACK THEN Rt(m2, Par(m2, x)) ELSE w1
                 m3 == SetC(m2, w2, Col(m2, Par(m2, x)))
                 m4 == SetC(m3, Par(m3, x), BLACK)
                 m5 == SetC(m4, Rt(m4, w2), BLACK)
                 m6 == LeftRotate(m5, Par(m5, x))
             IN DeleteFixup(m6, m6.root, fuel - 1)
  ELSE
     LET w0 == Lf(m, Par(m, x))
         m1 == IF Col(m, w0) = RED
               THEN RightRotate(SetC(SetC(m, w0, BLACK), Par(m, x), RED), Par(m, x))
               ELSE m
         w1 == IF Col(m, w0) = RED THEN Lf(m1, Par(m1, x)) ELSE w0
     IN IF Col(m1, Lf(m1, w1)) = BLACK /\ Col(m1, Rt(m1, w1)) = BLACK
        THEN DeleteFixup(SetC(m1, w1, RED), Par(m1, x), fuel - 1)
        ELSE LET m2 == IF Col(m1, Lf(m1, w1)) = BLACK
                       THEN LeftRotate(SetC(SetC(m1, Rt(m1, w1), BLACK), w1, RED), w1)
                       ELSE m1
                 w2 == IF Col(m1, Lf(m1, w1)) = BLACK THEN Lf(m2, Par(m2, x)) ELSE w1
                 m3 == SetC(m2, w2, Col(m2, Par(m2, x)))
                 m4 == SetC(m3, Par(m3, x), BLACK)
                 m5 == SetC(m4, Lf(m4, w2), BLACK)
                 m6 == RightRotate(m5, Par(m5, x))
             IN DeleteFixup(m6, m6.root, fuel - 1)

\* ---- mapImp.delete : returns <<m, removedNode>> ----
TreeDelete(m, z) ==
  LET y  == IF Lf(m, z) = NIL \/ Rt(m, z) = NIL THEN z ELSE Successor(m, z)
      x  == IF Lf(m, y) # NIL THEN Lf(m, y) ELSE Rt(m, y)
      m1 == SetPar(m, x, Par(m, y))
      py == Par(m1, y)
      m2 == IF py = NIL THEN [m1 EXCEPT !.root = x]
            ELSE IF y = Lf(m1, py) THEN SetL(m1, py, x)
            ELSE SetR(m1, py, x)
      \* the code: `if y != z { z = y }` assigns a local only
      m3 == IF FixDelete /\ y # z
            THEN [m2 EXCEPT !.nd[z].key = m2.nd[y].key, !.nd[z].val = m2.nd[y].val]
            ELSE m2
      m4 == IF Col(m3, y) = BLACK THEN DeleteFixup(m3, x, 2 * Len(m.nodes) + 2) ELSE m3
  IN <<m4, IF FixDelete THEN y ELSE z>>

\* ---- mapImp.Delete ----
Delete(m, k) ==
  LET z == Search(m, k) IN
  IF z = NIL THEN m
  ELSE LET r   == TreeDelete(m, z)
           m1  == r[1]
           rm  == r[2]
           n   == Len(m1.nodes)                      \* len(this.nodes)
           m2  == IF m1.nd[rm].idx < n - 1
                  THEN LET lastN == At(m1, n - 1)
                           a == [m1 EXCEPT !.nd[lastN].idx = m1.nd[rm].idx,
                                           !.nodes[m1.nd[rm].idx + 1] = lastN]
                           b == IF Lf(a, lastN) # NIL THEN SetPar(a, Lf(a, lastN), lastN) ELSE a
                           c == IF Rt(b, lastN) # NIL THEN SetPar(b, Rt(b, lastN), lastN) ELSE b
                       IN c
                  ELSE m1
       IN [m2 EXCEPT !.nodes = SubSeq(@, 1, n - 1)]

Lookup(m, k) == LET r == Search(m, k) IN IF r = NIL THEN <<FALSE, 0>> ELSE <<TRUE, m.nd[r].val>>
LenOf(m) == Len(m.nodes) - 1
RangeOf(m) == [i \in 1..(Len(m.nodes) - 1) |-> <<m.nd[m.nodes[i + 1]].key, m.nd[m.nodes[i + 1]].val>>]

----------------------------------------------------------------------------
Init ==
  /\ nd = (NIL :> [key |-> 0, val |-> 0, left |-> NULL, right |-> NULL, par |-> 0, idx |-> 0, color |-> BLACK])
  /\ nodes = <<NIL>>
  /\ root = NIL
  /\ nextId = 1
  /\ FMInit
  /\ last = [op |-> "init"]
  /\ nops = 0
  /\ hist = << >>

Commit(m) == nd' = m.nd /\ nodes' = m.nodes /\ root' = m.root /\ nextId' = m.nextId

\* emitted per step: the operation, and after it the contract's observation plus the
\* implementation spec's prediction of the range *order* (drift information only)
Obs(m) == <<FMObservation(Keys)', RangeOf(m)>>
DoUpdate(k, v) == /\ nops < MaxOps
                  /\ LET m == Update(M, k, v) IN
                     /\ Commit(m)
                     /\ FMUpdate(k, v)
                     /\ hist' = IF Emit THEN Append(hist, <<"u", k, v>>) ELSE hist
                     /\ (Emit => PrintT(<<"T", ToJson(<<hist', Obs(m)>>)>>))
                  /\ last' = [op |-> "update", k |-> k, v |-> v]
                  /\ nops' = nops + 1
DoDelete(k) == /\ nops < MaxOps
               /\ LET m == Delete(M, k) IN
                  /\ Commit(m)
                  /\ FMDelete(k)
                  /\ hist' = IF Emit THEN Append(hist, <<"d", k, 0>>) ELSE hist
                  /\ (Emit => PrintT(<<"T", ToJson(<<hist', Obs(m)>>)>>))
               /\ last' = [op |-> "delete", k |-> k]
               /\ nops' = nops + 1
Next == (\E k \in Keys, v \in Vals : DoUpdate(k, v)) \/ (\E k \in Keys : DoDelete(k))

----------------------------------------------------------------------------
\* contract: lookups, len and range agree with the finite map
LookupOk == \A k \in Keys : Lookup(M, k) = FMLookup(k)
LenOk == LenOf(M) = FMLen
RangeOk == LET r == RangeOf(M) IN
           /\ { r[i] : i \in DOMAIN r } = FMRangeSet
           /\ Len(r) = FMLen

\* red-black shape
RECURSIVE BH(_, _)      \* black height, -1 if unbalanced / red-red / misordered parent index
BH(x, fuel) ==
  IF x = NIL THEN 1
  ELSE IF fuel = 0 THEN -1
  ELSE LET l == BH(nd[x].left, fuel - 1)  r == BH(nd[x].right, fuel - 1) IN
       IF l = -1 \/ r = -1 \/ l # r THEN -1
       ELSE IF nd[x].color = RED /\ (nd[nd[x].left].color = RED \/ nd[nd[x].right].color = RED) THEN -1
       ELSE IF nd[x].left # NIL /\ ~(nd[nd[x].left].key < nd[x].key) THEN -1
       ELSE IF nd[x].right # NIL /\ ~(nd[x].key < nd[nd[x].right].key) THEN -1
       ELSE l + (IF nd[x].color = BLACK THEN 1 ELSE 0)
RBOk == nd[root].color = BLACK /\ BH(root, Len(nodes) + 1) # -1
IdxOk == \A i \in 1..Len(nodes) : nd[nodes[i]].idx = i - 1

KeyOf(x) == IF x = NIL THEN 0 ELSE nd[x].key
Canon(x) == [k |-> nd[x].key, v |-> nd[x].val, l |-> KeyOf(nd[x].left), r |-> KeyOf(nd[x].right),
             c |-> nd[x].color, i |-> nd[x].idx, p |-> nd[x].par]
View == << { Canon(nodes[i]) : i \in 2..Len(nodes) }, KeyOf(root) >>
=============================================================================
