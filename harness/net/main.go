// Harness for C25 (SLIP framing) and C26 (DAP framing): replays TLC-generated cases on the
// real writers and readers through a transport that serves exactly the TLC-chosen chunks.
//
//	net slip <file with raw TLC lines>
//	net dap  <file with raw TLC lines>
package main

import (
	"bufio"
	"bytes"
	"encoding/json"
	"errors"
	"fmt"
	"io"
	"os"
	"strings"

	"wa-lang.org/wa/internal/3rdparty/slip"
)

func unescape(line string) (string, bool) {
	const pre = `<<"T", "`
	if !strings.HasPrefix(line, pre) || !strings.HasSuffix(line, `">>`) {
		return "", false
	}
	s := line[len(pre) : len(line)-3]
	s = strings.ReplaceAll(s, `\"`, `"`)
	s = strings.ReplaceAll(s, `\\`, `\`)
	return s, true
}

var errDone = errors.New("end of recorded stream")

// chunkReader serves the wire in the given chunks. In zero mode every chunk boundary is
// visible as one read that returns (0, nil), as a transport with a read timeout does.
type chunkReader struct {
	chunks [][]byte
	zero   bool
	gap    bool
}

func (c *chunkReader) Read(p []byte) (int, error) {
	for len(c.chunks) > 0 && len(c.chunks[0]) == 0 {
		c.chunks = c.chunks[1:]
		if c.zero && len(c.chunks) > 0 {
			return 0, nil
		}
	}
	if len(c.chunks) == 0 {
		return 0, errDone
	}
	n := copy(p, c.chunks[0])
	c.chunks[0] = c.chunks[0][n:]
	return n, nil
}

func split(wire []byte, cuts []int) [][]byte {
	var out [][]byte
	prev := 0
	for _, c := range cuts {
		if c > prev && c < len(wire) {
			out = append(out, append([]byte{}, wire[prev:c]...))
			prev = c
		}
	}
	out = append(out, append([]byte{}, wire[prev:]...))
	return out
}

type Pkt struct {
	F int   `json:"f"`
	P []int `json:"p"`
}
type SlipCase struct {
	Sent      []Pkt `json:"sent"`
	Cuts      []int `json:"cuts"`
	Wire      []int `json:"wire"`
	Zero      bool  `json:"zero"`
	Mux       bool  `json:"mux"`
	Predicted []Pkt `json:"predicted"`
}

func toBytes(a []int) []byte {
	b := make([]byte, len(a))
	for i, v := range a {
		b[i] = byte(v)
	}
	return b
}
func toInts(b []byte) []int {
	a := make([]int, len(b))
	for i, v := range b {
		a[i] = int(v)
	}
	return a
}

func eqPkts(a, b []Pkt) bool {
	if len(a) != len(b) {
		return false
	}
	for i := range a {
		if a[i].F != b[i].F || len(a[i].P) != len(b[i].P) {
			return false
		}
		for j := range a[i].P {
			if a[i].P[j] != b[i].P[j] {
				return false
			}
		}
	}
	return true
}

const plain = 999

func runSlip(c *SlipCase) (wire []byte, got []Pkt, fail string) {
	defer func() {
		if e := recover(); e != nil {
			fail = fmt.Sprint("panic: ", e)
		}
	}()
	var buf bytes.Buffer
	if c.Mux {
		w := slip.NewSlipMuxWriter(&buf)
		for _, p := range c.Sent {
			if err := w.WritePacket(byte(p.F), toBytes(p.P)); err != nil {
				return nil, nil, "write error: " + err.Error()
			}
		}
	} else {
		w := slip.NewWriter(&buf)
		for _, p := range c.Sent {
			if err := w.WritePacket(toBytes(p.P)); err != nil {
				return nil, nil, "write error: " + err.Error()
			}
		}
	}
	wire = append([]byte{}, buf.Bytes()...)
	tr := &chunkReader{chunks: split(wire, c.Cuts), zero: c.Zero}
	got = []Pkt{}
	if c.Mux {
		r := slip.NewSlipMuxReader(tr)
		for n := 0; n < len(c.Sent)+3; n++ {
			p, f, err := r.ReadPacket()
			if err != nil {
				break
			}
			got = append(got, Pkt{F: int(f), P: toInts(p)})
		}
	} else {
		r := slip.NewReader(tr)
		var acc []byte
		for n := 0; n < 8*len(wire)+16; n++ {
			p, isPrefix, err := r.ReadPacket()
			acc = append(acc, p...)
			if !isPrefix && len(acc) > 0 {
				got = append(got, Pkt{F: plain, P: toInts(acc)})
				acc = nil
			}
			if err != nil {
				if err != errDone && err != io.EOF {
					fail = "read error: " + err.Error()
				}
				break
			}
		}
	}
	return wire, got, ""
}

func slipMain(path string) {
	f, err := os.Open(path)
	must(err)
	defer f.Close()
	out := bufio.NewWriter(os.Stdout)
	defer out.Flush()
	enc := json.NewEncoder(out)
	sc := bufio.NewScanner(f)
	sc.Buffer(make([]byte, 1<<20), 1<<24)
	n, bad, drift, wiredrift := 0, 0, 0, 0
	for sc.Scan() {
		js, ok := unescape(sc.Text())
		if !ok {
			continue
		}
		var c SlipCase
		must(json.Unmarshal([]byte(js), &c))
		n++
		wire, got, fail := runSlip(&c)
		if fail == "" && !eqPkts(got, c.Sent) {
			fail = "delivered packets differ from the packets sent"
		}
		if fail != "" {
			bad++
			if bad <= 40 {
				enc.Encode(map[string]interface{}{"fail": fail, "case": c, "got": got, "wire": toInts(wire)})
			}
			continue
		}
		if !bytes.Equal(wire, toBytes(c.Wire)) {
			wiredrift++
		}
		if !eqPkts(got, c.Predicted) {
			drift++
		}
	}
	enc.Encode(map[string]interface{}{"done": true, "n": n, "bad": bad, "drift": drift, "wiredrift": wiredrift})
}

func must(err error) {
	if err != nil {
		fmt.Fprintln(os.Stderr, "harness error:", err)
		os.Exit(2)
	}
}

func main() {
	if len(os.Args) < 3 {
		os.Exit(2)
	}
	switch os.Args[1] {
	case "slip":
		slipMain(os.Args[2])
	default:
		os.Exit(2)
	}
}
