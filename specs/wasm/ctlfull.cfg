CONSTANTS
  Emit = TRUE
  Full = TRUE
INIT Init
NEXT Next
INVARIANT Known
