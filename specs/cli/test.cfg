CONSTANTS
  MaxFuncs = 1
  Emit = TRUE
  WithPatterns = FALSE
INIT Init
NEXT Next
INVARIANTS VerdictExact
