----------------------------- MODULE WaHeapObs -----------------------------
(* C10, verdict level: executions *recorded from the real allocator* are       *)
(* judged against the contract only.  The state is the projection the harness  *)
(* logged after each call (every header cell it could find, the globals); the  *)
(* only thing TLC computes itself is the live set.  A trace is accepted iff    *)
(* every logged step is consumed and every contract invariant holds in every   *)
(* observed state.  Several traces are concatenated with "reset" events.       *)
EXTENDS WaHeapContract, Json

VARIABLES l

TraceLog == ndJsonDeserialize("trace.ndjson")
N == Len(TraceLog)

ovars == <<hdr, freep, heapPtr, heapTop, pages, live, lastOp, l>>
Zero == [size |-> 0, next |-> 0]

InitState ==
  /\ hdr = (L24 :> Zero) @@ (L32 :> Zero) @@ (L48 :> Zero) @@ (L80 :> Zero) @@
           (L128 :> [size |-> 0, next |-> L128]) @@ (HeapBase + 40 :> Zero)
  /\ freep = L128
  /\ heapPtr = FirstBlock
  /\ heapTop = InitPages * Page
  /\ pages = InitPages
  /\ live = << >>
  /\ lastOp = [op |-> "init"]
ObsInit == InitState /\ l = 1

CellsOf(e) == [a \in { e.cells[i][1] : i \in DOMAIN e.cells } |->
                 LET i == CHOOSE j \in DOMAIN e.cells : e.cells[j][1] = a
                 IN [size |-> e.cells[i][2], next |-> e.cells[i][3]]]
SetOf(s) == { s[i] : i \in DOMAIN s }

Bind(e) == /\ hdr' = CellsOf(e)
           /\ freep' = e.freep /\ heapPtr' = e.heapPtr /\ heapTop' = e.heapTop /\ pages' = e.pages

OMalloc == /\ l <= N /\ TraceLog[l].op = "m"
           /\ LET e == TraceLog[l] IN
              /\ Bind(e)
              /\ live' = IF e.r # 0 THEN (e.r :> e.n) @@ live ELSE live
              /\ lastOp' = [op |-> "malloc", n |-> e.n, r |-> e.r, w |-> SetOf(e.corrupt), before |-> Before,
                            dup |-> (e.r # 0 /\ e.r \in DOMAIN live)]
           /\ l' = l + 1
OFree == /\ l <= N /\ TraceLog[l].op = "f"
         /\ LET e == TraceLog[l] IN
            /\ e.n \in DOMAIN live
            /\ Bind(e)
            /\ live' = [q \in DOMAIN live \ {e.n} |-> live[q]]
            /\ lastOp' = [op |-> "free", p |-> e.n, w |-> SetOf(e.corrupt)]
         /\ l' = l + 1
OReset == /\ l <= N /\ TraceLog[l].op = "reset"
          /\ hdr' = (L24 :> Zero) @@ (L32 :> Zero) @@ (L48 :> Zero) @@ (L80 :> Zero) @@
                    (L128 :> [size |-> 0, next |-> L128]) @@ (HeapBase + 40 :> Zero)
          /\ freep' = L128 /\ heapPtr' = FirstBlock /\ heapTop' = InitPages * Page
          /\ pages' = InitPages /\ live' = << >> /\ lastOp' = [op |-> "init"]
          /\ l' = l + 1
ObsNext == OMalloc \/ OFree \/ OReset

\* a block handed out twice while still live
NoDoubleHandout == lastOp.op = "malloc" => ~lastOp.dup
\* observed corruption of live data (canaries) is reported through lastOp.w
NoCorruption == lastOp.op \in {"malloc", "free"} => lastOp.w = {}

HighWater == TLCSet(1, IF l > TLCGet(1) THEN l ELSE TLCGet(1))
Accepted == IF TLCGet(1) = N + 1 THEN TRUE ELSE PrintT(<<"STUCK", TLCGet(1)>>) /\ FALSE
ASSUME TLCSet(1, 0)
OView == <<l>>
=============================================================================
