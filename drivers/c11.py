"""C11 -- memory management never frees or reuses live data: see rcprog.py."""
import common
import rcprog

LEVEL = "model_checking"


def run(chk):
    chk.assume("programs = the loop bodies of WaRCGen.tla (12 statement templates over structs, lists, slices, maps, strings, closures, interfaces, field/element/struct overwrites), "
               "acyclic data; 'can no longer reach it' is observed through: no retain/release/free on a freed block, allocations never overlap live blocks, and the output is "
               "unchanged when every freed payload is overwritten with 0xDB at the moment of release")
    rcprog.explore(chk, chk.tier == "thorough", "c11")
    chk.cov["exhaustive"] = chk.tier == "thorough"
    chk.cov["explanation"] = "one instrumented run (freed payloads poisoned) and one plain run per body; every logged event judged by TLC against WaRCTrace"


def replay(chk, path):
    run(chk)
