------------------------------- MODULE WasmNum -------------------------------
(* The integer operators of the WebAssembly specification (4.3.2 Integer      *)
(* Operations, 4.3.4 Conversions) on BV bit-vectors, for i32 and i64, with    *)
(* traps as values.  This is the reference the pipelines C31 (embedded        *)
(* engine), C03 (wat2c), C02 (native) and C04 (assembler) are compared with.  *)
EXTENDS BV, FiniteSets

Trap(why) == <<"trap", why>>
IsTrap(r) == Len(r) = 2 /\ r[1] = "trap"
Bool32(b) == IF b THEN One(32) ELSE Zero(32)
ShiftCount(b, W) == b[1] % W                    \* counts are taken modulo the width

BinOps == {"add", "sub", "mul", "div_s", "div_u", "rem_s", "rem_u", "and", "or", "xor",
           "shl", "shr_s", "shr_u", "rotl", "rotr"}
RelOps == {"eq", "ne", "lt_s", "lt_u", "gt_s", "gt_u", "le_s", "le_u", "ge_s", "ge_u"}
\* (the sign-extension operators extendN_s are defined below but are outside the subset Wa's WAT tools accept)
UnOps(W) == {"clz", "ctz", "popcnt", "eqz"}

Bin(op, a, b) ==
  LET W == Width(a) IN
  CASE op = "add" -> Add(a, b)
    [] op = "sub" -> Sub(a, b)
    [] op = "mul" -> Mul(a, b)
    [] op = "div_u" -> IF b = Zero(W) THEN Trap("integer divide by zero") ELSE DivU(a, b)
    [] op = "rem_u" -> IF b = Zero(W) THEN Trap("integer divide by zero") ELSE RemU(a, b)
    [] op = "div_s" -> IF b = Zero(W) THEN Trap("integer divide by zero")
                       ELSE IF a = MinS(W) /\ b = AllOnes(W) THEN Trap("integer overflow")
                       ELSE DivS(a, b)
    [] op = "rem_s" -> IF b = Zero(W) THEN Trap("integer divide by zero")
                       ELSE IF b = AllOnes(W) THEN Zero(W)              \* also for MIN % -1: no trap
                       ELSE RemS(a, b)
    [] op = "and" -> BAnd(a, b)
    [] op = "or"  -> BOr(a, b)
    [] op = "xor" -> BXor(a, b)
    [] op = "shl"   -> Shl(a, ShiftCount(b, W))
    [] op = "shr_s" -> ShrS(a, ShiftCount(b, W))
    [] op = "shr_u" -> ShrU(a, ShiftCount(b, W))
    [] op = "rotl"  -> Rotl(a, ShiftCount(b, W))
    [] op = "rotr"  -> Rotr(a, ShiftCount(b, W))

Rel(op, a, b) ==
  CASE op = "eq" -> Bool32(a = b)
    [] op = "ne" -> Bool32(a # b)
    [] op = "lt_s" -> Bool32(LtS(a, b))
    [] op = "lt_u" -> Bool32(LtU(a, b))
    [] op = "gt_s" -> Bool32(LtS(b, a))
    [] op = "gt_u" -> Bool32(LtU(b, a))
    [] op = "le_s" -> Bool32(LeS(a, b))
    [] op = "le_u" -> Bool32(LeU(a, b))
    [] op = "ge_s" -> Bool32(LeS(b, a))
    [] op = "ge_u" -> Bool32(LeU(b, a))

Un(op, a) ==
  LET W == Width(a) IN
  CASE op = "clz" -> FromInt(Clz(a), W)
    [] op = "ctz" -> FromInt(Ctz(a), W)
    [] op = "popcnt" -> FromInt(Popcnt(a), W)
    [] op = "eqz" -> Bool32(a = Zero(W))
    [] op = "extend8_s" -> SExtBits(a, 8)
    [] op = "extend16_s" -> SExtBits(a, 16)
    [] op = "extend32_s" -> SExtBits(a, 32)

\* conversions between the two widths
Conv(op, a) ==
  CASE op = "i32.wrap_i64" -> Trunc(a, 32)
    [] op = "i64.extend_i32_s" -> SExt(a, 64)
    [] op = "i64.extend_i32_u" -> ZExt(a, 64)

\* ---- boundary operand sets ----
Pow(W, k) == Shl(One(W), k)
Boundary(W) == { Zero(W), One(W), FromInt(2, W), FromInt(-1, W), FromInt(-2, W), MinS(W), MaxS(W),
                 Add(MinS(W), One(W)), Sub(MaxS(W), One(W)), FromInt(7, W), FromInt(-7, W), FromInt(255, W), FromInt(256, W),
                 FromInt(65535, W), FromInt(-32768, W), FromInt(32, W), FromInt(31, W), FromInt(33, W), FromInt(63, W),
                 FromInt(64, W), FromInt(65, W), FromInt(1431655765, W), FromInt(-1431655766, W),
                 Pow(W, W - 2), Sub(Pow(W, W \div 2), One(W)), Pow(W, W \div 2), Add(Pow(W, (W \div 2) + 1), FromInt(-1, W)) }
Small(W) == { Zero(W), One(W), FromInt(-1, W), MinS(W), MaxS(W), FromInt(7, W), FromInt(-7, W), FromInt(32, W), FromInt(33, W),
              FromInt(64, W), FromInt(1431655765, W), Sub(Pow(W, W \div 2), One(W)) }
=============================================================================
