CONSTANTS
  Emit = TRUE
  Arches = {"riscv64", "loong64"}
INIT Init
NEXT Next
INVARIANT Known
