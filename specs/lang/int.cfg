CONSTANTS
  Emit = TRUE
  TypeNames = {"i32", "u8", "i64"}
INIT Init
NEXT Next
