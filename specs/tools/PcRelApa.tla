------------------------------ MODULE PcRelApa ------------------------------
(* C18, the for-all part: the split formula of PcRel.tla over unbounded       *)
(* integers, for ALL 2^32 offsets (RISC-V) and all pcs / in-range targets     *)
(* (LoongArch), discharged by Apalache (SMT) as `Init => Inv` at length 0.    *)
(* The formulas are the integer reading of the BV operators used in           *)
(* PcRel.tla, which is what TLC evaluates and the Go code is compared with.   *)
EXTENDS Integers

VARIABLES
  \* @type: Int;
  delta,
  \* @type: Int;
  pc,
  \* @type: Int;
  target

Mod(x, m) == x % m                       \* Apalache: mathematical mod, result in 0..m-1
SExt12(f) == IF f >= 2048 THEN f - 4096 ELSE f
SExt32(x) == IF x >= 2147483648 THEN x - 4294967296 ELSE x
Floor4K(x) == x - Mod(x, 4096)

\* RISC-V: fields from a signed 32-bit delta
RvLoField == Mod(delta, 4096)
RvHiField == Mod((delta - SExt12(RvLoField)) \div 4096, 1048576)
RvCpuOffset == Mod(RvHiField * 4096 + SExt12(RvLoField), 4294967296)

\* LoongArch
LaLoField == Mod(target, 4096)
LaHi == (target - Floor4K(pc) - SExt12(LaLoField)) \div 4096
LaHiField == Mod(LaHi, 1048576)
LaCpu == Mod(Floor4K(pc + SExt32(LaHiField * 4096)) + SExt12(LaLoField), 18446744073709551616)

Init ==
  /\ delta \in -2147483648..2147483647
  /\ pc \in 0..18446744073709551615
  /\ target \in 0..18446744073709551615
Next == UNCHANGED <<delta, pc, target>>

RvInv == /\ RvCpuOffset = Mod(delta, 4294967296)
         /\ SExt12(RvLoField) >= -2048 /\ SExt12(RvLoField) <= 2047
\* in range: the page delta fits si20; pc and target in the same 2^64 window (no wrap)
LaInRange == LaHi >= -524288 /\ LaHi <= 524287 /\ pc + 2147483648 < 18446744073709551616 /\ pc >= 2147483648 + 4096
LaInv == LaInRange => LaCpu = target
Inv == RvInv /\ LaInv
\* a deliberately wrong variant: must be refuted (non-vacuity of the solver run)
BadInv == SExt12(RvLoField) <= 2046
=============================================================================
