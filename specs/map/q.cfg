CONSTANTS
  Keys = {1,2,3,4,5}
  Vals = {7}
  MaxOps = 8
  FixDelete = FALSE
  Emit = TRUE
INIT Init
NEXT Next
VIEW View
INVARIANTS LookupOk LenOk RangeOk RBOk IdxOk
