CONSTANTS
  Calls = {1, 2, 3}
  Uses = 2
  Locked = TRUE
  Emit = FALSE
  MaxSched = 0
SPECIFICATION Spec
INVARIANTS SameAsSequential NoForeignUse
PROPERTY AllFinish
