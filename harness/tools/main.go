// Harness for the small pure-function properties: C24 (build tags), C19 (LEB128),
// C18 (pc-relative splitting).  Each mode reads raw TLC output lines with the cases and
// the specified outcomes, runs the real functions, and prints mismatches as JSON lines.
package main

import (
	"bufio"
	"encoding/json"
	"fmt"
	"os"
	"strings"

	"wa-lang.org/wa/internal/loader/buildtag"
)

func unescape(line string) (string, bool) {
	const pre = `<<"T", "`
	if !strings.HasPrefix(line, pre) || !strings.HasSuffix(line, `">>`) {
		return "", false
	}
	s := line[len(pre) : len(line)-3]
	s = strings.ReplaceAll(s, `\"`, `"`)
	s = strings.ReplaceAll(s, `\\`, `\`)
	return s, true
}

func eachCase(path string, fn func(js []byte)) {
	f, err := os.Open(path)
	must(err)
	defer f.Close()
	sc := bufio.NewScanner(f)
	sc.Buffer(make([]byte, 1<<20), 1<<24)
	for sc.Scan() {
		if js, ok := unescape(sc.Text()); ok {
			fn([]byte(js))
		}
	}
}

// ---------------------------------------------------------------- C24

type tagCase struct {
	Toks    []string `json:"toks"`
	Ok      bool     `json:"ok"`
	TT      []int    `json:"tt"`
	Printed []string `json:"printed"`
}

var assignments = [][]string{{}, {"a"}, {"b"}, {"a", "b"}, {"c"}, {"a", "c"}, {"b", "c"}, {"a", "b", "c"}}

func truth(x buildtag.Expr) []int {
	tt := make([]int, 8)
	for i, on := range assignments {
		set := map[string]bool{}
		for _, t := range on {
			set[t] = true
		}
		if x.Eval(func(tag string) bool { return set[tag] }) {
			tt[i] = 1
		}
	}
	return tt
}

func eqInts(a, b []int) bool {
	if len(a) != len(b) {
		return false
	}
	for i := range a {
		if a[i] != b[i] {
			return false
		}
	}
	return true
}

func isTag(s string) bool { return s == "a" || s == "b" || s == "c" }

// two renderings of a token string: single spaces, and as compact as the lexer allows
func render(toks []string, compact bool) string {
	var sb strings.Builder
	for i, t := range toks {
		if i > 0 && (!compact || (isTag(t) && isTag(toks[i-1]))) {
			sb.WriteByte(' ')
		}
		sb.WriteString(t)
	}
	return sb.String()
}

// the spacing String() uses: binary operators spaced, nothing after ! and ( or before )
func renderGo(toks []string) string {
	var sb strings.Builder
	for i, t := range toks {
		if i > 0 && toks[i-1] != "!" && toks[i-1] != "(" && t != ")" {
			sb.WriteByte(' ')
		}
		sb.WriteString(t)
	}
	return sb.String()
}

func parseSafe(line string) (x buildtag.Expr, err error) {
	defer func() {
		if e := recover(); e != nil {
			err = fmt.Errorf("PANIC: %v", e)
		}
	}()
	return buildtag.Parse(line)
}

func buildtagMain(path string) {
	out := bufio.NewWriter(os.Stdout)
	defer out.Flush()
	enc := json.NewEncoder(out)
	n, bad, accepted, drift := 0, 0, 0, 0
	fail := func(kind string, c *tagCase, line string, detail string) {
		bad++
		if bad <= 40 {
			enc.Encode(map[string]interface{}{"fail": kind, "case": c, "line": line, "detail": detail})
		}
	}
	eachCase(path, func(js []byte) {
		var c tagCase
		must(json.Unmarshal(js, &c))
		n++
		for _, compact := range []bool{false, true} {
			line := "#wa:build " + render(c.Toks, compact)
			if len(c.Toks) == 0 {
				line = "#wa:build"
			}
			x, err := parseSafe(line)
			if err != nil && strings.HasPrefix(err.Error(), "PANIC") {
				fail("panic", &c, line, err.Error())
				continue
			}
			if (err == nil) != c.Ok {
				if c.Ok {
					fail("rejects-wellformed", &c, line, err.Error())
				} else {
					fail("accepts-malformed", &c, line, x.String())
				}
				continue
			}
			if !c.Ok {
				continue
			}
			accepted++
			if tt := truth(x); !eqInts(tt, c.TT) {
				fail("eval", &c, line, fmt.Sprint(tt))
				continue
			}
			printed := x.String()
			y, err := parseSafe("#wa:build " + printed)
			if err != nil {
				fail("reparse-rejected", &c, line, printed+": "+err.Error())
				continue
			}
			if tt := truth(y); !eqInts(tt, c.TT) {
				fail("reparse-differs", &c, line, printed)
				continue
			}
			if printed != renderGo(c.Printed) {
				drift++
			}
		}
	})
	enc.Encode(map[string]interface{}{"done": true, "n": n, "bad": bad, "accepted": accepted, "drift": drift})
}

func must(err error) {
	if err != nil {
		fmt.Fprintln(os.Stderr, "harness error:", err)
		os.Exit(2)
	}
}

func main() {
	if len(os.Args) < 3 {
		os.Exit(2)
	}
	switch os.Args[1] {
	case "buildtag":
		buildtagMain(os.Args[2])
	default:
		os.Exit(2)
	}
}
