------------------------------- MODULE WaStore -------------------------------
(* C01, slices: Go's slice semantics as a store machine.  A slice value is a   *)
(* window (array, offset, length, capacity) onto an array; append writes in    *)
(* place when the capacity allows (so other windows on the same array see it)  *)
(* and moves to a fresh array otherwise; re-slicing shares the array; element  *)
(* assignment writes through.  After a reallocation Go leaves the new capacity *)
(* to the implementation, so no further append or over-length re-slice is      *)
(* taken on that array (its capacity is unknown to the model).                 *)
EXTENDS Integers, Sequences, FiniteSets, TLC, Json
CONSTANTS Vars, MaxOps, Emit, Shapes       \* Shapes: the (len, cap) pairs make() is called with

NIL == [a |-> 0, off |-> 0, len |-> 0, cap |-> 0]
VARIABLES arr,      \* array id -> sequence of ints
          sl,       \* variable -> window (NIL: nil slice)
          unk,      \* arrays whose capacity is implementation-defined
          nextA, nextV, nops, hist
vars == <<arr, sl, unk, nextA, nextV, nops, hist>>

Init == /\ arr = << >> /\ sl = [v \in Vars |-> NIL] /\ unk = {} /\ nextA = 1 /\ nextV = 1
        /\ nops = 0 /\ hist = << >>

Elems(w) == IF w.a = 0 THEN << >> ELSE SubSeq(arr[w.a], w.off + 1, w.off + w.len)
Observe(A, S) == [v \in Vars |-> IF S[v].a = 0 THEN << >> ELSE SubSeq(A[S[v].a], S[v].off + 1, S[v].off + S[v].len)]

Record(op, A, S) == /\ hist' = IF Emit THEN Append(hist, op) ELSE hist
                    /\ (Emit => PrintT(<<"T", ToJson([ops |-> hist', want |-> Observe(A, S)])>>))
                    /\ nops' = nops + 1

Make(v, shape) ==
  /\ nops < MaxOps
  /\ LET A == (nextA :> [i \in 1..shape[2] |-> 0]) @@ arr
         S == [sl EXCEPT ![v] = [a |-> nextA, off |-> 0, len |-> shape[1], cap |-> shape[2]]]
     IN arr' = A /\ sl' = S /\ Record([op |-> "make", d |-> v, n |-> shape[1], c |-> shape[2]], A, S)
  /\ nextA' = nextA + 1 /\ UNCHANGED <<unk, nextV>>

AppendOp(d, s) ==
  /\ nops < MaxOps /\ sl[s].a \notin unk
  /\ LET w == sl[s] x == 100 + nextV IN
     IF w.a # 0 /\ w.len < w.cap
     THEN LET A == [arr EXCEPT ![w.a][w.off + w.len + 1] = x]
              S == [sl EXCEPT ![d] = [w EXCEPT !.len = @ + 1]]
          IN arr' = A /\ sl' = S /\ unk' = unk /\ nextA' = nextA
             /\ Record([op |-> "append", d |-> d, s |-> s, x |-> x], A, S)
     ELSE LET A == (nextA :> Append(Elems(w), x)) @@ arr
              S == [sl EXCEPT ![d] = [a |-> nextA, off |-> 0, len |-> w.len + 1, cap |-> w.len + 1]]
          IN arr' = A /\ sl' = S /\ unk' = unk \cup {nextA} /\ nextA' = nextA + 1
             /\ Record([op |-> "append", d |-> d, s |-> s, x |-> x], A, S)
  /\ nextV' = nextV + 1

SliceOp(d, s, i, j) ==
  /\ nops < MaxOps /\ sl[s].a # 0
  /\ i <= j /\ j <= (IF sl[s].a \in unk THEN sl[s].len ELSE sl[s].cap)
  /\ LET w == sl[s]
         S == [sl EXCEPT ![d] = [a |-> w.a, off |-> w.off + i, len |-> j - i, cap |-> w.cap - i]]
     IN sl' = S /\ Record([op |-> "slice", d |-> d, s |-> s, i |-> i, j |-> j], arr, S)
  /\ UNCHANGED <<arr, unk, nextA, nextV>>

SetOp(v, k) ==
  /\ nops < MaxOps /\ sl[v].a # 0 /\ k < sl[v].len
  /\ LET x == 100 + nextV
         A == [arr EXCEPT ![sl[v].a][sl[v].off + k + 1] = x]
     IN arr' = A /\ Record([op |-> "set", d |-> v, k |-> k, x |-> x], A, sl)
  /\ nextV' = nextV + 1 /\ UNCHANGED <<sl, unk, nextA>>

Next == \/ \E v \in Vars, sh \in Shapes : Make(v, sh)
        \/ \E d \in Vars, s \in Vars : AppendOp(d, s)
        \/ \E d \in Vars, s \in Vars : \E i \in 0..2, j \in 0..3 : SliceOp(d, s, i, j)
        \/ \E v \in Vars : \E k \in 0..2 : SetOp(v, k)

\* windows stay inside their arrays
WindowsOk == \A v \in Vars : sl[v].a = 0 \/ (sl[v].off + sl[v].len <= Len(arr[sl[v].a]) /\ sl[v].len <= sl[v].cap)
\* identities of arrays and values do not matter, only sharing and contents
View == <<[v \in Vars |-> [w |-> sl[v], e |-> Elems(sl[v]), u |-> sl[v].a \in unk]],
          { <<v1, v2>> \in Vars \X Vars : sl[v1].a # 0 /\ sl[v1].a = sl[v2].a }>>
=============================================================================
