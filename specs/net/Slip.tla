-------------------------------- MODULE Slip --------------------------------
(* C25: SLIP / SLIPMUX framing (internal/3rdparty/slip).                      *)
(* A case = a sequence of packets [frame, payload] and a set of cut positions *)
(* of the byte stream.  Writer = the stuffing function of slip.go (and the    *)
(* SLIPMUX wrapping of slipmux.go incl. the CoAP FCS16 of fcs.go).  Channel = *)
(* the wire cut into chunks; in ZeroReads mode a chunk boundary shows up as a *)
(* read that returns no data (a transport with a read timeout).  Reader = the *)
(* byte loop of Reader.ReadPacket transcribed, under SlipMuxReader's prefix   *)
(* accumulation.  Contract: the packets delivered are exactly the packets     *)
(* sent (same order, same frame types), for every case.                       *)
EXTENDS Integers, Sequences, FiniteSets, TLC, Json, Bitwise
CONSTANTS Alphabet,    \* payload bytes
          MaxLen, MaxPkts,
          Frames,      \* frame types to use; {PLAIN} = plain SLIP (no SLIPMUX layer); IPF = an IP frame (type = first payload byte)
          ZeroReads,   \* TRUE: chunk boundaries are visible as empty reads
          IdlePolls,   \* how many consecutive empty reads a chunk boundary shows (a poll loop on an idle transport), >= 1
          MaxCuts,
          FixState,    \* TRUE: model a Reader that keeps escape/partial-packet state across calls
          Emit

END == 192   ESC == 219   ESC_END == 220   ESC_ESC == 221
COAP == 169  DIAG == 10
GAP == -1                                   \* a read that returns no data
PLAIN == 999  IPF == 998
IsIp(f) == (f >= 69 /\ f <= 79) \/ (f >= 96 /\ f <= 111)

\* ---- fcs.go: PPP FCS16, bitwise form of the table-driven fold ----
RECURSIVE FcsBits(_, _, _)
FcsBits(fcs, b, n) ==
  IF n = 0 THEN fcs
  ELSE LET mix == ((fcs % 2) + (b % 2)) % 2 IN
       FcsBits(IF mix = 1 THEN shiftR(fcs, 1) ^^ 33800 ELSE shiftR(fcs, 1), shiftR(b, 1), n - 1)
RECURSIVE Fcs16(_, _)
Fcs16(fcs, data) == IF data = << >> THEN fcs ELSE Fcs16(FcsBits(fcs, Head(data), 8), Tail(data))
FcsTrailer(data) == LET f == Fcs16(65535, data) ^^ 65535 IN <<f % 256, f \div 256>>
FcsGood(data) == Fcs16(65535, data) = 61624                         \* FCS_GOOD = 0xf0b8

\* ---- writer ----
RECURSIVE StuffBytes(_)
StuffBytes(p) == IF p = << >> THEN << >>
                 ELSE (CASE Head(p) = END -> <<ESC, ESC_END>>
                         [] Head(p) = ESC -> <<ESC, ESC_ESC>>
                         [] OTHER -> <<Head(p)>>) \o StuffBytes(Tail(p))
Stuff(p) == <<END>> \o StuffBytes(p) \o <<END>>
MuxWrap(f, p) == LET q == IF IsIp(f) THEN p ELSE <<f>> \o p
                 IN IF f = COAP THEN q \o FcsTrailer(q) ELSE q
WireOf(pk) == IF pk.f = PLAIN THEN Stuff(pk.p) ELSE Stuff(MuxWrap(pk.f, pk.p))
RECURSIVE Wire(_)
Wire(pkts) == IF pkts = << >> THEN << >> ELSE WireOf(Head(pkts)) \o Wire(Tail(pkts))

\* the stream the reader sees: the wire with GAP markers at the cut positions
RECURSIVE WithGaps(_, _, _)
WithGaps(w, cuts, i) == IF i > Len(w) THEN << >>
                        ELSE <<w[i]>> \o (IF i \in cuts THEN [k \in 1..IdlePolls |-> GAP] ELSE << >>) \o WithGaps(w, cuts, i + 1)

\* ---- Reader.ReadPacket: returns [p, prefix, pos, st]; st = [esc, partial] is state kept
\* across calls (the code on the unfixed tree keeps none: FixState = FALSE ignores it) ----
Unesc(c) == IF c = ESC_END THEN END ELSE IF c = ESC_ESC THEN ESC ELSE c
RECURSIVE RdPkt(_, _, _, _)
RdPkt(s, pos, buf, st) ==
  IF pos > Len(s) THEN [p |-> buf, prefix |-> TRUE, pos |-> pos, st |-> [st EXCEPT !.partial = @ \/ Len(buf) > 0], eof |-> TRUE]
  ELSE LET c == s[pos] IN
  IF c = GAP THEN [p |-> buf, prefix |-> TRUE, pos |-> pos + 1, st |-> [st EXCEPT !.partial = @ \/ Len(buf) > 0], eof |-> FALSE]
  ELSE IF FixState /\ st.esc THEN RdPkt(s, pos + 1, Append(buf, Unesc(c)), [st EXCEPT !.esc = FALSE])
  ELSE IF c = END THEN
       IF Len(buf) > 0 \/ (FixState /\ st.partial)
       THEN [p |-> buf, prefix |-> FALSE, pos |-> pos + 1, st |-> [esc |-> FALSE, partial |-> FALSE], eof |-> FALSE]
       ELSE RdPkt(s, pos + 1, buf, st)
  ELSE IF c = ESC THEN
       IF pos + 1 > Len(s) THEN [p |-> buf, prefix |-> TRUE, pos |-> pos + 1, st |-> [esc |-> TRUE, partial |-> st.partial \/ Len(buf) > 0], eof |-> TRUE]
       ELSE IF s[pos + 1] = GAP
            THEN [p |-> buf, prefix |-> TRUE, pos |-> pos + 2, st |-> [esc |-> TRUE, partial |-> st.partial \/ Len(buf) > 0], eof |-> FALSE]
            ELSE RdPkt(s, pos + 2, Append(buf, Unesc(s[pos + 1])), st)
  ELSE RdPkt(s, pos + 1, Append(buf, c), st)

St0 == [esc |-> FALSE, partial |-> FALSE]

\* a client of the plain Reader: concatenates prefixes until a complete packet
\* (this is SlipMuxReader.ReadPacket's loop); returns [p, pos, st, eof]
RECURSIVE Whole(_, _, _, _, _)
Whole(s, pos, acc, st, fuel) ==
  LET r == RdPkt(s, pos, << >>, st)
      acc2 == acc \o r.p
  IN IF r.eof \/ fuel = 0 THEN [p |-> acc2, pos |-> r.pos, st |-> r.st, eof |-> TRUE]
     ELSE IF ~r.prefix /\ (Len(r.p) > 0 \/ (FixState /\ Len(acc2) > 0)) THEN [p |-> acc2, pos |-> r.pos, st |-> r.st, eof |-> FALSE]
     ELSE Whole(s, r.pos, acc2, r.st, fuel - 1)

Invalid(f) == f = END \/ f = ESC \/ f = 0
\* SlipMuxReader.ReadPacket: frame checks on a whole packet; << >> = skipped
MuxDecode(res) ==
  LET f == res[1] IN
  IF Invalid(f) THEN << >>
  ELSE IF f = COAP THEN (IF Len(res) < 7 \/ ~FcsGood(res) THEN << >>
                         ELSE <<[f |-> f, p |-> SubSeq(res, 2, Len(res) - 2)]>>)
  ELSE IF IsIp(f) THEN <<[f |-> f, p |-> res]>>
  ELSE <<[f |-> f, p |-> SubSeq(res, 2, Len(res))]>>

RECURSIVE ReadAll(_, _, _, _, _)
ReadAll(s, pos, st, mux, fuel) ==
  LET w == Whole(s, pos, << >>, st, 4 * Len(s) + 4) IN
  IF w.eof \/ fuel = 0 THEN << >>
  ELSE (IF mux THEN MuxDecode(w.p) ELSE <<[f |-> PLAIN, p |-> w.p]>>) \o ReadAll(s, w.pos, w.st, mux, fuel - 1)

\* ---- the case space ----
Payloads == UNION { [1..k -> Alphabet] : k \in 1..MaxLen }
OkPacket(f, p) == IF f = IPF THEN IsIp(p[1])
                  ELSE IF f = COAP THEN Len(p) >= 4       \* domain restriction of slipmux.go (len(res) >= 7)
                  ELSE TRUE
Packets == { [f |-> IF f = IPF THEN p[1] ELSE f, p |-> p] : <<f, p>> \in { fp \in Frames \X Payloads : OkPacket(fp[1], fp[2]) } }
PktSeqs == UNION { [1..k -> Packets] : k \in 1..MaxPkts }
\* built by size (MaxCuts <= 2): filtering SUBSET (1..(n-1)) enumerates 2^(n-1) sets for every wire
CutSets(n) == {{}} \cup (IF MaxCuts >= 1 THEN {{i} : i \in 1..(n - 1)} ELSE {}) \cup (IF MaxCuts >= 2 THEN {{i, j} : i, j \in 1..(n - 1)} ELSE {})

VARIABLES sent, cuts, delivered, done
vars == <<sent, cuts, delivered, done>>

Init == /\ sent \in PktSeqs
        /\ cuts \in CutSets(Len(Wire(sent)))
        /\ delivered = << >> /\ done = FALSE
Mux == Frames # {PLAIN}
Deliver ==
  /\ ~done
  /\ LET w == Wire(sent)
         s == IF ZeroReads THEN WithGaps(w, cuts, 1) ELSE w
     IN /\ delivered' = ReadAll(s, 1, St0, Mux, MaxPkts + 2)
        /\ (Emit => PrintT(<<"T", ToJson([sent |-> sent, cuts |-> cuts, wire |-> w, zero |-> ZeroReads, idle |-> IdlePolls, mux |-> Mux, predicted |-> delivered'])>>))
  /\ done' = TRUE /\ UNCHANGED <<sent, cuts>>
Next == Deliver

\* the property
DeliveredIsSent == done => delivered = sent
=============================================================================
