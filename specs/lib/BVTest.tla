------------------------------- MODULE BVTest -------------------------------
(* Self-validation of BV.tla: every operator against TLC integer arithmetic,  *)
(* exhaustively for all pairs at W = 8 and on carry-crossing pairs at W = 16. *)
EXTENDS BV
CONSTANTS W, Vals
VARIABLES a, b
M == 2 ^ W
V(x) == FromInt(x, W)
S(x) == IF x >= M \div 2 THEN x - M ELSE x          \* signed reading
U(n) == ((n % M) + M) % M
TDiv(x, y) == IF (x >= 0) = (y >= 0) THEN (IF x >= 0 THEN x \div y ELSE (-x) \div (-y)) ELSE -((IF x >= 0 THEN x ELSE -x) \div (IF y >= 0 THEN y ELSE -y))
TRem(x, y) == x - y * TDiv(x, y)
Init == a \in Vals /\ b \in Vals
Next == UNCHANGED <<a, b>>
BitI(x, k) == (x \div (2 ^ k)) % 2
RECURSIVE AndI(_, _, _), OrI(_, _, _), XorI(_, _, _)
AndI(x, y, k) == IF k = W THEN 0 ELSE (BitI(x, k) * BitI(y, k)) * (2 ^ k) + AndI(x, y, k + 1)
OrI(x, y, k)  == IF k = W THEN 0 ELSE ((BitI(x, k) + BitI(y, k)) - (BitI(x, k) * BitI(y, k))) * (2 ^ k) + OrI(x, y, k + 1)
XorI(x, y, k) == IF k = W THEN 0 ELSE ((BitI(x, k) + BitI(y, k)) % 2) * (2 ^ k) + XorI(x, y, k + 1)
RECURSIVE PopI(_, _)
PopI(x, k) == IF k = W THEN 0 ELSE BitI(x, k) + PopI(x, k + 1)
Laws ==
  /\ ToNat(V(a)) = a
  /\ ToNat(Add(V(a), V(b))) = U(a + b)
  /\ ToNat(Sub(V(a), V(b))) = U(a - b)
  /\ ToNat(Neg(V(a))) = U(-a)
  /\ ToNat(BNot(V(a))) = M - 1 - a
  /\ ((W = 8 \/ a <= 32767) => ToNat(Mul(V(a), V(b))) = U(a * b))
  /\ ToNat(BAnd(V(a), V(b))) = AndI(a, b, 0)
  /\ ToNat(BOr(V(a), V(b))) = OrI(a, b, 0)
  /\ ToNat(BXor(V(a), V(b))) = XorI(a, b, 0)
  /\ LtU(V(a), V(b)) = (a < b)
  /\ LtS(V(a), V(b)) = (S(a) < S(b))
  /\ IsNeg(V(a)) = (S(a) < 0)
  /\ (b # 0 => ToNat(DivU(V(a), V(b))) = a \div b /\ ToNat(RemU(V(a), V(b))) = a % b)
  /\ (b # 0 => ToNat(DivS(V(a), V(b))) = U(TDiv(S(a), S(b))) /\ ToNat(RemS(V(a), V(b))) = U(TRem(S(a), S(b))))
  /\ LET k == b % W IN
       /\ ToNat(Shl(V(a), k)) = U(a * (2 ^ k))
       /\ ToNat(ShrU(V(a), k)) = a \div (2 ^ k)
       /\ ToNat(ShrS(V(a), k)) = U(IF S(a) >= 0 THEN S(a) \div (2 ^ k) ELSE -(((-S(a)) + (2 ^ k) - 1) \div (2 ^ k)))
       /\ ToNat(Rotl(V(a), k)) = U(a * (2 ^ k)) + (a \div (2 ^ (W - k)))
       /\ Rotr(Rotl(V(a), k), k) = V(a)
  /\ Shl(V(a), W) = Zero(W) /\ ShrU(V(a), W + 3) = Zero(W)
  /\ Popcnt(V(a)) = PopI(a, 0)
  /\ (a = 0 => Clz(V(a)) = W /\ Ctz(V(a)) = W)
  /\ (a # 0 => a \div (2 ^ (W - 1 - Clz(V(a)))) = 1 /\ a % (2 ^ Ctz(V(a))) = 0 /\ BitI(a, Ctz(V(a))) = 1)
  /\ ToNat(SExt(Trunc(V(a), 8), W)) = U((a % 256) + (IF (a % 256) >= 128 THEN M - 256 ELSE 0))
  /\ ToNat(ZExt(Trunc(V(a), 8), W)) = a % 256
  /\ FromInt(S(a), W) = V(a)
=============================================================================
