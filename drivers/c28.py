"""C28 -- concurrent API use: ApiConc.tla (the compile pipeline's process-global current
module; locked and unlocked variants).  TLC proves the locked design safe, deadlock-free
and live; the interleavings of the UNLOCKED variant are replayed on the real compiler with
blocking hooks as scheduler gates (they must be infeasible or harmless); free-running
stress logs are validated by TLC (ApiConcTrace)."""
import json
import os
import random
import re

import common
from common import MachineryError

LEVEL = "model_checking"


def run(chk):
    b = common.go_build("api")
    thorough = chk.tier == "thorough"
    rng = random.Random(common.seed())
    chk.assume("programs are the six sources of harness/api/main.go (structs with pointer fields, interfaces, closures, maps, strings; one .wz); calls are BuildFile / RunCode / FormatCode / GetCodeSyntax")
    chk.assume("a scheduling step of a TLC interleaving = let that call run to its next hook (set / use / done of wir's current-module global)")
    # 1. the locked design: safety, deadlock freedom, liveness
    res = common.run_tlc("api", "ApiConc", "locked.cfg", timeout=900, deadlock=True)
    if res.violated:
        raise MachineryError("the locked design itself violates %s in TLC" % res.violated)
    chk.tlc(res, "locked design, 3 calls x 2 uses: SameAsSequential, NoForeignUse, deadlock, AllFinish")
    # 2. interleavings of the unlocked variant, replayed with gates
    cfgu = open(os.path.join(common.SPECS, "api", "unlocked.cfg")).read()
    if thorough:
        cfgu = cfgu.replace("MaxSched = 5", "MaxSched = 7")
    resu = common.run_tlc("api", "ApiConc", "u.cfg", files={"u.cfg": cfgu}, timeout=900, collect_prefix='<<"T"')
    chk.tlc(resu, "unlocked variant: schedule generator")
    scheds = [l for l in resu.lines]
    if not scheds:
        raise MachineryError("no schedules")
    if not thorough and len(scheds) > 36:
        scheds = rng.sample(scheds, 36)
    d = common.subdir("c28")
    path = os.path.join(d, "sched.txt")
    open(path, "w").write("\n".join(scheds) + "\n")
    rc, so, se, to = common.run_child([b, "sched", path], timeout=3000)
    lines = [json.loads(l) for l in so.splitlines() if l.strip().startswith("{")]
    for l in lines:
        if "sequential_leak" in l:
            chk.report("C28:sequential-leak:" + l["sequential_leak"], "a default-config build of %s returns %s when run first and %s after calls with another configuration: state leaks between calls" % (
                l["sequential_leak"], l["first"], l["again"]), l)
    results = [l for l in lines if "schedule" in l]
    begun = [l["begin"] for l in lines if "begin" in l]
    finished = any(l.get("done") for l in lines)
    for r in results:
        chk.add("traces_validated_against_impl", 1)
        if r["differs"] or r["foreign"]:
            chk.report("C28:schedule:%s" % ("foreign-use" if r["foreign"] else "result-differs"),
                       "interleaving %s of %s: %s; results %s vs sequential %s" % (r["schedule"], r["progs"], r["foreign"][:2], r["results"], r["baseline"]), r)
    if results:
        chk.sample({"schedule": results[0]["schedule"], "progs": results[0]["progs"], "blocked_steps": results[0]["blocked_steps"], "events": results[0]["events"][:8]})
        chk.cov["schedules_with_a_step_blocked_by_the_compile_lock"] = sum(1 for r in results if r["blocked_steps"])
    if not finished:
        at = begun[-1] if begun else 0
        sched = json.loads(common.parse_printt(scheds[at - 1], "T")[0]) if at else None
        crash = [l for l in se.splitlines() if l.startswith("fatal error") or l.startswith("panic")][:2]
        if to:
            chk.report("C28:schedule:hang", "the process hung while replaying interleaving %s" % sched, {"schedule": sched, "stderr": se[-1500:]})
        else:
            chk.report("C28:schedule:crash", "the process crashed (%s) while replaying interleaving %s" % (crash, sched), {"schedule": sched, "rc": rc, "stderr": se[-3000:]})
    # 3. free-running stress, validated by TLC
    runs = [(8, 8), (16, 4)] if not thorough else [(8, 30), (16, 20), (4, 40), (12, 25)]
    seeds = [rng.randrange(1 << 30) for _ in runs]

    def stress(a):
        (g, n), sd = a
        rc, so, se, to = common.run_child([b, "stress", "-g", str(g), "-n", str(n), "-seed", str(sd)], timeout=3000)
        return g, n, sd, rc, so, se, to
    for g, n, sd, rc, so, se, to in common.parallel(stress, list(zip(runs, seeds)), workers=2):
        if rc != 0 or to:
            crash = [l for l in se.splitlines() if l.startswith("fatal error") or l.startswith("panic")][:2]
            chk.report("C28:stress:%s" % ("hang" if to else "crash"), "%d goroutines x %d calls (seed %d): process %s %s" % (g, n, sd, "hung" if to else "crashed", crash),
                       {"g": g, "n": n, "seed": sd, "stderr": se[-3000:]})
            continue
        evs = so.splitlines()
        res = common.run_tlc("api", "ApiConcTrace", "trace.cfg", workers=1, files={"trace.ndjson": so}, timeout=2400, collect_prefix='<<"V"', heap="6g")
        if res.postcond_failed or res.generated != len(evs) + 1:
            raise MachineryError("TLC did not consume the stress log (%d of %d)" % (res.generated - 1, len(evs)))
        chk.tlc(res, "stress log %dx%d" % (g, n))
        chk.add("traces_validated_against_impl", 1)
        chk.add("hook_events_validated", len(evs))
        for v in res.lines:
            m = re.match(r'<<"V", (\d+), "([^"]+)">>', v)
            if m:
                e = json.loads(evs[int(m.group(1)) - 1])
                chk.report("C28:stress:" + m.group(2), "%s at event %s of a %dx%d stress run (seed %d): %s" % (m.group(2), m.group(1), g, n, sd, json.dumps(e)[:300]),
                           {"g": g, "n": n, "seed": sd, "event": e})
    chk.cov["exhaustive"] = False
    chk.cov["explanation"] = ("TLC: the locked design is safe, deadlock-free and live for 3 calls; every interleaving prefix of the unlocked variant (2 calls) was forced on the real "
                              "compiler through blocking hooks - a step the compile lock forbids shows up as blocked; outputs compared with the sequential baseline; stress logs "
                              "judged event by event by TLC")


def replay(chk, path):
    rec = json.load(open(path))["record"]
    b = common.go_build("api")
    if "schedule" in rec and rec["schedule"]:
        d = common.subdir("c28")
        p = os.path.join(d, "r.txt")
        js = json.dumps({"schedule": rec["schedule"], "n": 2}).replace("\\", "\\\\").replace('"', '\\"')
        open(p, "w").write('<<"T", "%s">>\n' % js)
        rc, so, se, to = common.run_child([b, "sched", p], timeout=300)
        if rc != 0 or to:
            chk.report("C28:schedule:crash", "crash on replay", {"stderr": se[-2000:]})
        for l in so.splitlines():
            if l.startswith("{") and "schedule" in l:
                r = json.loads(l)
                if r["differs"] or r["foreign"]:
                    chk.report("C28:schedule:replayed", "differs", r)
