"""C31 -- the embedded engine executes modules like an independent engine: every case of
the WasmNum hub is run on the embedded wazero (compiler and interpreter modes) and on V8;
the oracle is the TLC-specified outcome; a deviation of the embedded engine that V8 does
not share is attributed to the embedded engine."""
import json

import common
import hub
from common import MachineryError

LEVEL = "model_checking"


def run(chk):
    thorough = chk.tier == "thorough"
    chk.assume("integer subset: i32/i64 arithmetic, comparisons, bit counting, shifts/rotations, wrap/extend; operands from the boundary sets of WasmNum.tla; float instructions are not decided")
    b, out, cases, _ = hub.prepare(chk, thorough)
    wz = hub.run_wazero(b, out)
    v8 = hub.run_node(out)
    v8bad = {l["i"]: l for l in v8 if "i" in l}
    if any(l.get("invalid") for l in v8):
        chk.notes.append("V8 rejects the binary (attributed to C04)")
    for l in wz:
        if l.get("instantiate_error"):
            chk.report("C31:instantiate:" + l["engine"], "embedded engine (%s) cannot instantiate the module: %s" % (l["engine"], l["instantiate_error"]), l)
        if l.get("done"):
            chk.add("traces_validated_against_impl", l["n"])
            chk.cov.setdefault("cases_by_engine", {})[l["engine"]] = l["n"]
        if "i" in l:
            o = v8bad.get(l["i"])
            if o and o["got"] == l["got"] and bool(o["trap"]) == bool(l["trap"]):
                chk.add("deviations_shared_with_v8", 1)     # both engines contradict the spec the same way: the binary (C04) or the spec
                continue
            c = l["case"]
            chk.report("C31:%s:%s" % (l["engine"], hub.case_key(c)),
                       "embedded engine (%s): %s(%s) = %s %s; specified %s" % (l["engine"], c["fn"], ", ".join(c["args"]), l["got"], l["trap"], c["want"] or ("trap: " + c["trap"])), l)
    done8 = [l for l in v8 if l.get("done")]
    if done8:
        chk.cov["cases_by_engine"]["v8"] = done8[0]["n"]
        chk.cov["v8_deviations_from_spec"] = done8[0]["bad"]
        if done8[0]["bad"] and done8[0]["bad"] == chk.cov.get("deviations_shared_with_v8", 0) * 1 and done8[0]["bad"] > 20:
            raise MachineryError("both engines contradict WasmNum.tla on many cases in the same way: the specification is suspected")
    chk.sample(cases[0])
    chk.sample(cases[len(cases) // 2])
    chk.cov["exhaustive"] = True
    chk.cov["explanation"] = "every (operator, operand pair) of the hub's operand set executed through exported functions on wazero's compiler and interpreter engines and on V8"


def replay(chk, path):
    run(chk)
