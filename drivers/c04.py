"""C04 -- wat2wasm: the binaries Wa's assembler produces for the hub modules (numeric and
memory operators, constant immediates at the LEB128 group edges, index spaces crossing 64
and 128 entries for block types, calls, locals and globals) must validate on V8, compute
the TLC-specified results on both engines, and carry a name section that assigns every
function and local index the name written in the text, strictly increasing."""
import json
import os
import re

import common
import hub
from common import MachineryError

LEVEL = "model_checking"


def leb(b, i):
    r = s = 0
    while True:
        x = b[i]
        i += 1
        r |= (x & 0x7f) << s
        s += 7
        if x < 0x80:
            return r, i


def name_section(wasm):
    """-> {'funcs': [(idx,name)], 'locals': {fidx: [(lidx,name)]}} or None"""
    i = 8
    while i < len(wasm):
        sid = wasm[i]
        size, j = leb(wasm, i + 1)
        body = wasm[j:j + size]
        i = j + size
        if sid != 0:
            continue
        n, k = leb(body, 0)
        if body[k:k + n] != b"name":
            continue
        k += n
        out = {"funcs": [], "locals": {}, "order_ok": True}
        last_sub = -1
        while k < len(body):
            sub = body[k]
            ssize, k2 = leb(body, k + 1)
            sb = body[k2:k2 + ssize]
            k = k2 + ssize
            if sub <= last_sub:
                out["order_ok"] = False
            last_sub = sub
            if sub == 1:
                cnt, p = leb(sb, 0)
                for _ in range(cnt):
                    idx, p = leb(sb, p)
                    ln, p = leb(sb, p)
                    out["funcs"].append((idx, sb[p:p + ln].decode("utf-8", "replace")))
                    p += ln
            elif sub == 2:
                cnt, p = leb(sb, 0)
                for _ in range(cnt):
                    fidx, p = leb(sb, p)
                    lc, p = leb(sb, p)
                    ls = []
                    for _ in range(lc):
                        lidx, p = leb(sb, p)
                        ln, p = leb(sb, p)
                        ls.append((lidx, sb[p:p + ln].decode("utf-8", "replace")))
                        p += ln
                    out["locals"].setdefault(fidx, []).extend(ls)
                    out.setdefault("local_func_order", []).append(fidx)
        return out
    return None


def expected_names(wat):
    """index assignment rule (NameSec): functions in order of definition (the hub modules import none);
    per function, params first, then locals, each named exactly as written."""
    funcs = []
    for m in re.finditer(r"\(func \$(\S+)((?:.|\n)*?)\n\t\)", wat):
        hdr = m.group(2)
        names = re.findall(r"\((?:param|local) \$(\S+) ", hdr)
        funcs.append((m.group(1), names))
    return funcs


def check_names(chk, mod, wat, wasm):
    ns = name_section(wasm)
    if ns is None:
        chk.notes.append("no name section in " + mod)
        return
    exp = expected_names(wat)
    chk.add("name_section_functions_checked", len(exp))
    fn_idx = [i for i, _ in ns["funcs"]]
    if fn_idx != sorted(set(fn_idx)):
        chk.report("C04:names:function-order", "%s: function name entries are not strictly increasing: %s" % (mod, fn_idx[:12]), {"mod": mod})
    got = dict(ns["funcs"])
    for i, (fname, locs) in enumerate(exp):
        if i in got and got[i].lstrip("$") != fname:
            chk.report("C04:names:function-name", "%s: function %d is named %r in the binary, %r in the text" % (mod, i, got[i], fname), {"mod": mod})
            break
    lfo = ns.get("local_func_order", [])
    if lfo != sorted(set(lfo)):
        chk.report("C04:names:local-func-order", "%s: local-name entries are not strictly increasing by function index: %s" % (mod, lfo[:12]), {"mod": mod})
    for i, (fname, locs) in enumerate(exp):
        if not locs or i not in ns["locals"]:
            continue
        gl = ns["locals"][i]
        idxs = [x for x, _ in gl]
        if idxs != sorted(set(idxs)):
            chk.report("C04:names:local-order", "%s: local names of %s are not strictly increasing: %s" % (mod, fname, gl[:8]), {"mod": mod, "func": fname, "got": gl[:20]})
            break
        want = list(enumerate(locs))
        if [(a, b.lstrip("$")) for a, b in gl] != want:
            chk.report("C04:names:local-index", "%s: local names of %s are %s in the binary; the text declares %s" % (mod, fname, gl[:6], want[:6]),
                       {"mod": mod, "func": fname, "got": gl[:20], "want": want[:20]})
            break


def run(chk):
    thorough = chk.tier == "thorough"
    chk.assume("modules are the hub's renderings (flat instruction syntax, inline exports, no imports); 'reference-equal to WABT' is replaced by: validates on V8, computes the TLA+-specified results on two engines, name section follows the index rule")
    b, out, cases, prep = hub.prepare(chk, thorough)
    for l in prep.splitlines():
        if l.startswith("WAT2WASM-ERROR"):
            chk.report("C04:rejects-valid-module:" + l.split()[1].rsplit("_", 1)[0], "wat2wasm rejects a well-formed module: " + l[:300], {"line": l})
    wz = hub.run_wazero(b, out)
    v8 = hub.run_node(out)
    for l in v8:
        if l.get("invalid"):
            mod = l.get("mod", "module")
            if os.path.exists(os.path.join(out, mod + ".wasm")):
                chk.report("C04:invalid-binary:" + mod.rsplit("_", 1)[0], "the binary of %s does not validate on V8: %s" % (mod, l.get("error", "")), l)
    wzbad = {(l["engine"], l["i"]): l for l in wz if "i" in l}
    for l in v8:
        if "i" not in l:
            continue
        c = l["case"]
        same = [e for e in ("compiler", "interpreter") if (e, l["i"]) in wzbad and wzbad[(e, l["i"])]["got"] == l["got"]]
        # V8 contradicts the text's specified meaning: the binary is not the module the text describes
        chk.report("C04:wrong-module:%s" % (c["mod"].rsplit("_", 1)[0] if c["mod"] != "module" else hub.case_key(c)),
                   "%s.%s(%s) = %s %s on V8%s; the text specifies %s" % (c["mod"], c["fn"], ", ".join(c["args"]), l["got"], l["trap"],
                                                                       " and on the embedded engine" if same else "", c["want"] or ("trap: " + c["trap"])), l)
    n8 = [l for l in v8 if l.get("done")]
    if n8:
        chk.add("traces_validated_against_impl", n8[0]["n"])
    mods = sorted(set(c["mod"] for c in cases))
    chk.cov["modules_assembled"] = len(mods)
    for mod in mods:
        wp = os.path.join(out, mod + ".wasm")
        if os.path.exists(wp):
            check_names(chk, mod, open(os.path.join(out, mod + ".wat")).read(), open(wp, "rb").read())
    chk.sample([c for c in cases if c["mod"] != "module"][0])
    chk.sample(cases[0])
    chk.cov["exhaustive"] = True
    chk.cov["explanation"] = ("every hub case executed on V8 from the binary Wa's assembler produced (plus validation of each binary), index-space modules for block "
                              "types / calls / locals / globals with 0..200 leading entries (every count across 64 and 128), name sections decoded and compared with the index rule")


def replay(chk, path):
    run(chk)
