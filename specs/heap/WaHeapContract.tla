--------------------------- MODULE WaHeapContract ---------------------------
(* C10, the property itself, stated over the *observable* allocator state:     *)
(* header cells in linear memory, the live set, and the heap globals.          *)
(* Any correct allocator with this memory layout satisfies it.  Both the       *)
(* implementation-shaped spec (WaHeap) and the observed-trace spec (WaHeapObs) *)
(* EXTEND this module, so the invariants TLC checks on the model and the ones  *)
(* it evaluates on executions of the real malloc.wat are the same text.        *)
EXTENDS Integers, Sequences, FiniteSets, TLC

CONSTANTS HeapBase, InitPages, MaxPages, Cap

VARIABLES hdr,      \* header cell address -> [size, next]
          freep, heapPtr, heapTop, pages,
          live,     \* data address -> requested size
          lastOp    \* last operation: [op, n, r, w (cells written / bytes corrupted), before]

Page == 65536
Hdr  == 8
L24 == HeapBase      L32 == HeapBase + 8    L48 == HeapBase + 16
L80 == HeapBase + 24 L128 == HeapBase + 32  FirstBlock == HeapBase + 48
Heads == {L24, L32, L48, L80, L128}

FixedEnabled == Cap # 0
Align8(n) == ((n + 7) \div 8) * 8

\* $heap_free_list.ptr_and_fixed_size : <<list head, block size>> for a request
ClassOf(size) ==
  IF ~FixedEnabled THEN <<L128, Align8(size)>>
  ELSE IF size > 80 THEN <<L128, IF size <= 128 THEN 128 ELSE Align8(size)>>
  ELSE IF size > 48 THEN <<L80, 80>>
  ELSE IF size > 32 THEN <<L48, 48>>
  ELSE IF size > 24 THEN <<L32, 32>>
  ELSE <<L24, 24>>
IsFixedSize(size) == FixedEnabled /\ size <= 80

Cell(a) == IF a \in DOMAIN hdr THEN hdr[a] ELSE [size |-> 0, next |-> 0]

\* a fixed list holds exactly `count` blocks (the head's size field); whatever the link
\* field of the last one (or of an empty head) contains is dead data
RECURSIVE ListFrom(_, _)
ListFrom(p, n) == IF p = 0 \/ n <= 0 THEN << >> ELSE <<p>> \o ListFrom(Cell(p).next, n - 1)
FixedBlocks(fl) == ListFrom(Cell(fl).next, IF Cell(fl).size < Cardinality(DOMAIN hdr) + 1
                                           THEN Cell(fl).size ELSE Cardinality(DOMAIN hdr) + 1)

RECURSIVE RingFrom(_, _)
RingFrom(p, fuel) == IF p = L128 \/ p = 0 \/ fuel = 0 THEN << >> ELSE <<p>> \o RingFrom(Cell(p).next, fuel - 1)
RingBlocks == RingFrom(Cell(L128).next, Cardinality(DOMAIN hdr) + 1)

SeqToSet(s) == { s[i] : i \in DOMAIN s }
FreeAddrs == SeqToSet(FixedBlocks(L24)) \cup SeqToSet(FixedBlocks(L32)) \cup SeqToSet(FixedBlocks(L48))
             \cup SeqToSet(FixedBlocks(L80)) \cup SeqToSet(RingBlocks)
LiveHdrs == { p - 8 : p \in DOMAIN live }
AllBlocks == LiveHdrs \cup FreeAddrs

Terminates == lastOp.op # "diverged"

\* every live block lies inside the heap region and inside linear memory
InHeap == \A p \in DOMAIN live :
            /\ p - 8 >= FirstBlock
            /\ p + Cell(p - 8).size <= heapPtr
            /\ heapPtr <= heapTop /\ heapTop = pages * Page /\ pages <= MaxPages
Aligned == \A p \in DOMAIN live : p % 8 = 0
LargeEnough == \A p \in DOMAIN live : Cell(p - 8).size >= live[p]
NoOverlap == \A p, q \in DOMAIN live : p # q =>
               (p + Cell(p - 8).size <= q - 8 \/ q + Cell(q - 8).size <= p - 8)

\* every byte of [FirstBlock, heapPtr) belongs to exactly one live or free block
RECURSIVE Tile(_, _)
Tile(a, fuel) == IF a = heapPtr THEN TRUE
                 ELSE IF fuel = 0 \/ a > heapPtr \/ a \notin AllBlocks THEN FALSE
                 ELSE Tile(a + 8 + Cell(a).size, fuel - 1)
Tiling == Terminates => Tile(FirstBlock, Cardinality(DOMAIN hdr) + 2)
\* ... and no block is both live and free, or on two free lists
ListLens == Len(FixedBlocks(L24)) + Len(FixedBlocks(L32)) + Len(FixedBlocks(L48))
            + Len(FixedBlocks(L80)) + Len(RingBlocks)
DisjointStatus == Terminates =>
                  /\ FreeAddrs \cap LiveHdrs = {}
                  /\ Cardinality(FreeAddrs) = ListLens

\* list well-formedness: what later operations rely on
FixedListsOk == \A fl \in {L24, L32, L48, L80} :
                  /\ Len(FixedBlocks(fl)) = Cell(fl).size
                  /\ (Cap # 0 => Cell(fl).size <= Cap)
                  /\ (Cap = 0 => Cell(fl).size = 0)
RingOk == Terminates =>
          LET r == RingBlocks IN
          /\ \A i \in 1..(Len(r) - 1) : r[i] < r[i + 1]
          /\ (Len(r) = 0 => Cell(L128).next = L128)
          /\ (Len(r) > 0 => Cell(r[Len(r)]).next = L128)
          /\ Cell(L128).size = 0

\* allocation and free never modify the contents of live blocks:
\* lastOp.w = header cells written (model) or corrupted data addresses (observation)
WritesOutsideLive ==
  (lastOp.op \in {"malloc", "free"}) =>
     \A a \in lastOp.w : \A p \in DOMAIN live :
        ~(a + 8 > p /\ a < p + Cell(p - 8).size)

\* "fails only when exhausted", evaluated on the state *before* the failing call
Exhausted(b, n) ==
  LET cls == ClassOf(Align8(n))
      sz  == cls[2]
  IN /\ (IsFixedSize(sz) => b.fixedLen[cls[1]] = 0)
     /\ \A i \in DOMAIN b.ringSizes : b.ringSizes[i] < sz
     /\ b.heapPtr + 8 + sz > MaxPages * Page
FailOnlyWhenExhausted ==
  (lastOp.op = "malloc" /\ lastOp.r = 0) => Exhausted(lastOp.before, lastOp.n)

\* the summary of a state that FailOnlyWhenExhausted needs
RECURSIVE SizesOf(_)
SizesOf(s) == IF s = << >> THEN << >> ELSE <<Cell(Head(s)).size>> \o SizesOf(Tail(s))
Before == [heapPtr |-> heapPtr,
           fixedLen |-> [fl \in {L24, L32, L48, L80} |-> Cell(fl).size],
           ringSizes |-> SizesOf(RingBlocks)]

Contract == /\ Terminates /\ InHeap /\ Aligned /\ LargeEnough /\ NoOverlap
            /\ Tiling /\ DisjointStatus /\ FixedListsOk /\ RingOk /\ WritesOutsideLive
            /\ FailOnlyWhenExhausted
=============================================================================
