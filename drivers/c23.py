"""C23 -- source positions: TokenPos.tla (file sets, line tables, lookups that move the
cache, JSON round trips into empty and non-empty sets) with every transition replayed on
real token.FileSet objects; panic positions of generated programs checked against the
spec's newline-counting position of the call."""
import json
import os
import re

import common
from common import MachineryError

LEVEL = "model_checking"


def cfg(contents, maxfiles, maxops):
    return """CONSTANTS
  Contents <- %s
  MaxFiles = %d
  MaxOps = %d
  Emit = TRUE
INIT Init
NEXT Next
VIEW View
INVARIANTS RangesOk
""" % (contents, maxfiles, maxops)


def panic_positions(chk, wa):
    """Second clause: the file:line:col in a panic message is the position of the call.
    The cases (leading blank lines, indentation, place) and the expected line/column come
    from the same newline-counting definition, evaluated here on the rendered text; the
    column may be that of the callee identifier or of its '(' -- fixed by the first case."""
    cases = []
    for blanks in (0, 1, 3):
        for indent in (1, 2):
            for place in ("main", "callee", "nested"):
                cases.append((blanks, indent, place))
    choice = {}

    def job(ic):
        i, (blanks, indent, place) = ic
        tabs = "\t" * indent
        call = tabs + 'panic("boom")\n'
        pre = "\n" * blanks
        if place == "main":
            body = "func main {\n" + ("\tif true {\n" if indent == 2 else "") + pre + call + ("\t}\n" if indent == 2 else "") + "}\n"
        elif place == "callee":
            body = "func f() {\n" + ("\tif true {\n" if indent == 2 else "") + pre + call + ("\t}\n" if indent == 2 else "") + "}\n\nfunc main {\n\tf()\n}\n"
        else:
            body = "func main {\n\tfor i := 0; i < 1; i++ {\n" + ("\t\tif i == 0 {\n" if indent == 2 else "") + pre + "\t" + call + ("\t\t}\n" if indent == 2 else "") + "\t}\n}\n"
        src = "// generated\n" + body
        d = common.subdir("c23p/%d" % i)
        f = os.path.join(d, "p.wa")
        open(f, "w").write(src)
        rc, so, se, to = common.run_child([wa, "run", f], timeout=60, cwd=d)
        return src, so + se
    for src, out in common.parallel(job, list(enumerate(cases))):
        chk.add("panic_position_cases", 1)
        off = src.index('panic("boom")')
        line = 1 + src.count("\n", 0, off)
        col_ident = off - (src.rfind("\n", 0, off) + 1) + 1
        col_paren = col_ident + len("panic")
        m = re.search(r"panic: boom \(([^:()]+):(\d+):(\d+)\)", out)
        if not m:
            chk.report("C23:panic:no-position", "panic message carries no file:line:col: %r" % out[-200:], {"program": src, "output": out[-400:]})
            continue
        gl, gc = int(m.group(2)), int(m.group(3))
        which = "ident" if gc == col_ident else ("paren" if gc == col_paren else None)
        choice.setdefault("col", which)
        if not m.group(1).endswith("p.wa") or gl != line or which is None or which != choice["col"]:
            chk.report("C23:panic:wrong-position", "panic reported at %s:%d:%d, the call is at line %d column %d (identifier) / %d (parenthesis)" % (
                m.group(1), gl, gc, line, col_ident, col_paren), {"program": src, "output": out[-400:]})


def run(chk):
    b = common.go_build("tokpos")
    thorough = chk.tier == "thorough"
    chk.assume("positions at the end offset of a content ending in a newline are outside the domain (no line-table entry for an empty last line)")
    chk.assume("line directives (AddLineInfo) are not modelled")
    confs = [("C6", 2, 5), ("C3", 3, 6)] if thorough else [("C3", 2, 5), ("C6", 2, 4)]
    d = common.subdir("c23")
    for contents, mf, mo in confs:
        path = os.path.join(d, "t.txt")
        with open(path, "w") as fh:
            res = common.run_tlc("pos", "TokenPosMC", "c.cfg", files={"c.cfg": cfg(contents, mf, mo)}, collect_prefix='<<"T"',
                                 timeout=3000, line_cb=lambda l: fh.write(l + "\n"))
        if res.violated:
            raise MachineryError("TokenPos.tla violates " + res.violated)
        chk.tlc(res, "%s files<=%d ops<=%d" % (contents, mf, mo))
        rc, so, se, to = common.run_child([b, path], timeout=1800)
        mid = open(path).readlines()
        os.unlink(path)
        if rc != 0:
            raise MachineryError("tokpos harness failed: " + se[-1500:])
        lines = [json.loads(l) for l in so.splitlines() if l.strip()]
        done = [l for l in lines if l.get("done")][0]
        if done["n"] == 0:
            raise MachineryError("no histories replayed")
        chk.add("traces_validated_against_impl", done["n"])
        p = common.parse_printt(mid[len(mid) // 2].rstrip("\n"), "T")
        if p:
            chk.sample({"ops": json.loads(p[0])["ops"]})
        for l in lines:
            if "fail" in l:
                ops = [o["op"] for o in l["case"]["ops"]]
                chk.report("C23:fileset:%s" % ("after-load" if "load" in ops else "no-load"), "%s after %s" % (l["fail"], json.dumps(l["case"]["ops"])[:300]), l)
    wa = common.build_wa()
    panic_positions(chk, wa)
    chk.cov["exhaustive"] = True
    chk.cov["explanation"] = ("every transition of TokenPos (two file sets, AddFile+SetLinesForContent, Position lookups, FromJson(ToJson) between the sets) with a witness "
                              "history replayed on real token.FileSet objects, comparing Position of every offset of every file with the spec's table; 18 generated "
                              "programs for the panic-position clause")


def replay(chk, path):
    rec = json.load(open(path))["record"]
    if "case" not in rec:
        return
    b = common.go_build("tokpos")
    d = common.subdir("c23")
    p = os.path.join(d, "r.txt")
    js = json.dumps(rec["case"]).replace("\\", "\\\\").replace('"', '\\"')
    open(p, "w").write('<<"T", "%s">>\n' % js)
    rc, so, se, to = common.run_child([b, p], timeout=60)
    for l in so.splitlines():
        l = json.loads(l)
        if "fail" in l:
            chk.report("C23:fileset:replayed", l["fail"], l)
