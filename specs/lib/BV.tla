--------------------------------- MODULE BV ---------------------------------
(* Fixed-width bit-vectors on TLC's 32-bit integers: a W-bit value is a       *)
(* little-endian sequence of W \div 8 byte limbs (0..255).  Every 32/64-bit   *)
(* quantity of the role-F specifications (WebAssembly i32/i64, Go integers,   *)
(* RISC-V registers, PCs, offsets) is one of these; byte limbs keep every     *)
(* intermediate below 2^20.  BVTest.tla validates every operator exhaustively *)
(* at W = 8 and on carry-crossing sets at W = 16 against integer arithmetic.  *)
EXTENDS Integers, Sequences, TLC, Bitwise

NB(W) == W \div 8
Width(a) == Len(a) * 8
Zero(W) == [i \in 1..NB(W) |-> 0]
One(W) == [i \in 1..NB(W) |-> IF i = 1 THEN 1 ELSE 0]
AllOnes(W) == [i \in 1..NB(W) |-> 255]

\* n: any TLC integer (also negative), two's complement at width W >= 32 or truncated below
FromInt(n, W) ==
  LET m == IF n >= 0 THEN n ELSE -(n + 1)                        \* n = -(m+1) = NOT m
      raw == [i \in 1..NB(W) |-> IF i > 4 THEN 0 ELSE (m \div (256 ^ (i - 1))) % 256]
  IN IF n >= 0 THEN raw ELSE [i \in 1..NB(W) |-> 255 - raw[i]]
\* value as a TLC integer; only when it fits (W <= 24, or small values)
RECURSIVE ToNatFrom(_, _)
ToNatFrom(a, i) == IF i > Len(a) THEN 0 ELSE a[i] + 256 * ToNatFrom(a, i + 1)
ToNat(a) == ToNatFrom(a, 1)
IsNeg(a) == a[Len(a)] >= 128

\* ---- bits ----
Bit(a, k) == (a[(k \div 8) + 1] \div (2 ^ (k % 8))) % 2             \* k from 0
ToBits(a) == [k \in 1..Width(a) |-> Bit(a, k - 1)]
FromBits(b) == [i \in 1..(Len(b) \div 8) |->
                  b[8 * i - 7] + 2 * b[8 * i - 6] + 4 * b[8 * i - 5] + 8 * b[8 * i - 4]
                  + 16 * b[8 * i - 3] + 32 * b[8 * i - 2] + 64 * b[8 * i - 1] + 128 * b[8 * i]]

\* ---- add / sub / neg ----
RECURSIVE AddC(_, _, _, _)
AddC(a, b, i, c) == IF i > Len(a) THEN << >>
                    ELSE LET s == a[i] + b[i] + c IN <<s % 256>> \o AddC(a, b, i + 1, s \div 256)
Add(a, b) == AddC(a, b, 1, 0)
BNot(a) == [i \in 1..Len(a) |-> 255 - a[i]]
Neg(a) == AddC(BNot(a), Zero(Width(a)), 1, 1)
Sub(a, b) == AddC(a, BNot(b), 1, 1)

\* ---- bitwise (per limb; Bitwise's operators have Java overrides) ----
BAnd(a, b) == [i \in 1..Len(a) |-> a[i] & b[i]]
BOr(a, b)  == [i \in 1..Len(a) |-> a[i] | b[i]]
BXor(a, b) == [i \in 1..Len(a) |-> a[i] ^^ b[i]]

\* ---- comparisons ----
RECURSIVE LtUFrom(_, _, _)
LtUFrom(a, b, i) == IF i = 0 THEN FALSE
                    ELSE IF a[i] # b[i] THEN a[i] < b[i] ELSE LtUFrom(a, b, i - 1)
LtU(a, b) == LtUFrom(a, b, Len(a))
LeU(a, b) == a = b \/ LtU(a, b)
LtS(a, b) == IF IsNeg(a) # IsNeg(b) THEN IsNeg(a) ELSE LtU(a, b)
LeS(a, b) == a = b \/ LtS(a, b)

\* ---- shifts and rotations by k bits, 0 <= k (limb moves + intra-limb arithmetic) ----
Limb(a, i, fill) == IF i < 1 THEN 0 ELSE IF i > Len(a) THEN fill ELSE a[i]
Shl(a, k)  == LET q == k \div 8  r == k % 8 IN
              [i \in 1..Len(a) |-> ((Limb(a, i - q, 0) * (2 ^ r)) % 256) + (Limb(a, i - q - 1, 0) \div (2 ^ (8 - r)))]
ShrFill(a, k, fill) == LET q == k \div 8  r == k % 8 IN
              [i \in 1..Len(a) |-> (Limb(a, i + q, fill) \div (2 ^ r)) + ((Limb(a, i + q + 1, fill) * (2 ^ (8 - r))) % 256)]
ShrU(a, k) == ShrFill(a, k, 0)
ShrS(a, k) == ShrFill(a, k, IF IsNeg(a) THEN 255 ELSE 0)
Rotl(a, k) == LET W == Width(a)  m == k % W IN IF m = 0 THEN a ELSE BOr(Shl(a, m), ShrU(a, W - m))
Rotr(a, k) == LET W == Width(a)  m == k % W IN IF m = 0 THEN a ELSE BOr(ShrU(a, m), Shl(a, W - m))

\* ---- counting ----
RECURSIVE ClzFrom(_, _)
ClzFrom(a, k) == IF k < 0 THEN 0 ELSE IF Bit(a, k) = 1 THEN 0 ELSE 1 + ClzFrom(a, k - 1)
Clz(a) == ClzFrom(a, Width(a) - 1)
RECURSIVE CtzFrom(_, _)
CtzFrom(a, k) == IF k >= Width(a) THEN 0 ELSE IF Bit(a, k) = 1 THEN 0 ELSE 1 + CtzFrom(a, k + 1)
Ctz(a) == CtzFrom(a, 0)
RECURSIVE PopFrom(_, _)
PopFrom(a, k) == IF k >= Width(a) THEN 0 ELSE Bit(a, k) + PopFrom(a, k + 1)
Popcnt(a) == PopFrom(a, 0)

\* ---- multiply (schoolbook, truncated to the width) ----
RECURSIVE ColSum(_, _, _, _)
ColSum(a, b, k, i) == IF i > k THEN 0 ELSE a[i] * b[k - i + 1] + ColSum(a, b, k, i + 1)
RECURSIVE MulC(_, _, _, _)
MulC(a, b, k, c) == IF k > Len(a) THEN << >>
                    ELSE LET s == ColSum(a, b, k, 1) + c IN <<s % 256>> \o MulC(a, b, k + 1, s \div 256)
Mul(a, b) == MulC(a, b, 1, 0)

\* ---- unsigned division (restoring), b # 0 ----
RECURSIVE Shl1C(_, _, _)
Shl1C(a, i, c) == IF i > Len(a) THEN << >>
                  ELSE LET s == a[i] * 2 + c IN <<s % 256>> \o Shl1C(a, i + 1, s \div 256)
Shl1(a, bit) == Shl1C(a, 1, bit)
RECURSIVE DivStep(_, _, _, _, _)
DivStep(a, b, k, q, r) ==
  IF k < 0 THEN <<q, r>>
  ELSE LET r1 == Shl1(r, Bit(a, k))
           ge == ~LtU(r1, b)
           r2 == IF ge THEN Sub(r1, b) ELSE r1
           q1 == Shl1(q, IF ge THEN 1 ELSE 0)
       IN DivStep(a, b, k - 1, q1, r2)
DivModU(a, b) == DivStep(a, b, Width(a) - 1, Zero(Width(a)), Zero(Width(a)))
DivU(a, b) == DivModU(a, b)[1]
RemU(a, b) == DivModU(a, b)[2]
\* signed, truncating toward zero; the caller decides what MIN / -1 and x / 0 mean
Abs(a) == IF IsNeg(a) THEN Neg(a) ELSE a
DivS(a, b) == LET q == DivU(Abs(a), Abs(b)) IN IF IsNeg(a) # IsNeg(b) THEN Neg(q) ELSE q
RemS(a, b) == LET r == RemU(Abs(a), Abs(b)) IN IF IsNeg(a) THEN Neg(r) ELSE r
MinS(W) == [i \in 1..NB(W) |-> IF i = NB(W) THEN 128 ELSE 0]
MaxS(W) == [i \in 1..NB(W) |-> IF i = NB(W) THEN 127 ELSE 255]

\* ---- width changes ----
Trunc(a, W) == SubSeq(a, 1, NB(W))
ZExt(a, W) == [i \in 1..NB(W) |-> IF i <= Len(a) THEN a[i] ELSE 0]
SExt(a, W) == [i \in 1..NB(W) |-> IF i <= Len(a) THEN a[i] ELSE (IF IsNeg(a) THEN 255 ELSE 0)]
\* sign-extend the low `bits` bits of a (bits need not be a multiple of 8) to the width of a
SExtBits(a, bits) == LET W == Width(a) IN ShrS(Shl(a, W - bits), W - bits)
ZExtBits(a, bits) == LET W == Width(a) IN ShrU(Shl(a, W - bits), W - bits)

\* ---- text ----
HexDigit(n) == SubSeq("0123456789abcdef", n + 1, n + 1)
=============================================================================
