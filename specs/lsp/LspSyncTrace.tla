---------------------------- MODULE LspSyncTrace ----------------------------
(* C21, trace validation: sessions recorded from a random client against the   *)
(* real LSPServer.  TLC recomputes the client's document from the logged       *)
(* (range, text) pairs with the LSP position definition of LspSync and         *)
(* requires the server's stored text, logged after every notification, to be   *)
(* equal to it.  Sessions are concatenated ("open" starts a new one).          *)
EXTENDS LspSync
VARIABLES l
TraceLog == ndJsonDeserialize("trace.ndjson")
N == Len(TraceLog)

HasBnd(d, p) == \E i \in 0..Len(d) : ValidBoundary(d, i) /\ Pos(d, i) = p
Bnd(d, p) == CHOOSE i \in 0..Len(d) : ValidBoundary(d, i) /\ Pos(d, i) = p

RECURSIVE ClientApply(_, _)
ClientApply(d, chs) ==
  IF chs = << >> THEN d
  ELSE LET c == Head(chs) IN
       IF ~HasBnd(d, c.rng.start) \/ ~HasBnd(d, c.rng.end) THEN <<"?">>      \* not a client position
       ELSE ClientApply(Splice(d, Bnd(d, c.rng.start), Bnd(d, c.rng.end), c.t), Tail(chs))

TInit == cdoc = << >> /\ sdoc = << >> /\ lastErr = FALSE /\ expectErr = FALSE /\ nops = 0 /\ l = 1
Rest == lastErr' = FALSE /\ expectErr' = FALSE /\ nops' = nops /\ l' = l + 1
TOpen == /\ l <= N /\ TraceLog[l].ev = "open"
         /\ cdoc' = TraceLog[l].doc /\ sdoc' = TraceLog[l].doc /\ Rest
TFull == /\ l <= N /\ TraceLog[l].ev = "full"
         /\ cdoc' = TraceLog[l].text /\ sdoc' = TraceLog[l].server_cps /\ Rest
TIncr == /\ l <= N /\ TraceLog[l].ev = "incr"
         /\ "error" \notin DOMAIN TraceLog[l]
         /\ cdoc' = ClientApply(cdoc, TraceLog[l].changes)
         /\ sdoc' = TraceLog[l].server_cps /\ Rest
TNext == TOpen \/ TFull \/ TIncr

HighWater == TLCSet(1, IF l > TLCGet(1) THEN l ELSE TLCGet(1))
Accepted == IF TLCGet(1) = N + 1 THEN TRUE ELSE PrintT(<<"STUCK", TLCGet(1)>>) /\ FALSE
ASSUME TLCSet(1, 0)
TView == <<l>>
=============================================================================
