#!/usr/bin/env python3
"""Print the prompt given to an independent sub-agent that seeds a property-breaking change."""
import json, sys
pid, wt = sys.argv[1], sys.argv[2]
hint = sys.argv[3] if len(sys.argv) > 3 else ""
p = [json.loads(l) for l in open('/verif/properties.jsonl') if json.loads(l)['id'] == pid][0]
print(f"""You are working in a scratch git worktree of the wa-lang/wa repository (the Wa language: a Go-derived language with its own parser, type checker, SSA, WAT/C backends, WAT tooling) at {wt}. Work ONLY inside {wt}; never read or write /repo or /verif. There is no network. Run go with: export GOFLAGS=-mod=mod GOPROXY=off GOSUMDB=off GOTOOLCHAIN=local

A semantic property of this code base that should always hold:

  {p['id']}: {p['title']}
  Statement: {p['statement']}
  Quantified over: {p['quantifier']['text']}
  Code it is anchored in: {', '.join(p['anchors']['files'])}

Your task: make ONE realistic change to the repository's source (not tests) that BREAKS this property, such that
  (a) the repository still compiles: (cd {wt} && go build ./... ) succeeds, and
  (b) the existing test suite still passes: (cd {wt} && go test -vet=off -count=1 ./... ) has no failures, and
  (c) the breakage needs something specific to manifest -- a particular multi-step sequence of operations, an unusual input or boundary value, a particular interleaving or fault point, or two cooperating sites that each look fine alone -- NOT something ordinary use would expose at once.
The change should look like a plausible developer mistake or a plausible 'optimisation' (off-by-one, wrong comparison, a missed update of a second copy, a dropped case, a wrong mask/sign, a stale cache ...), small (a few lines). {hint}

Also write a demonstration: a Go test file or small program (plus the exact command) that FAILS with your change and PASSES without it, showing the property violated on the real code.

Verify all of it yourself: build; full test suite passes with the change; demonstration fails with the change; demonstration passes with the change reverted (save `git diff` to a file, `git checkout -- .`, run, then `git apply` the file again; do NOT use `git stash`: the stash is shared with other worktrees of this repository).

Deliverables, in {wt}/_seed/ (create it; keep it out of patch.diff):
  patch.diff  -- `git diff` of the source change only (must apply with `git apply` on a clean checkout of this commit)
  demo files  -- the demonstration and a run.sh that runs it (exit 0 = property holds, non-zero = violated); the demo may live outside the module tree or be copied in by run.sh
  NOTES.md    -- what the change breaks, what it needs in order to manifest, the commands you ran and their outcomes
Leave the worktree with the change applied. Your final answer must be at most 10 lines: the file(s) changed, one sentence on the bug, what triggers it, and whether every verification step succeeded.""")
