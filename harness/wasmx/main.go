// Harness for the WebAssembly hub (C31 embedded engine, C04 assembler, C03 wat2c):
//
//	wasmx prep <cases file> <outdir>   build one module with a function per operator; write
//	                                   module.wat, module.wasm (Wa's assembler), app.c/app.h/host.c
//	                                   (wat2c) and cases.json for the external executors
//	wasmx wazero <outdir>              run every case on the embedded engine (both engine modes)
//
// The oracle is always the TLC-specified outcome carried by the cases.
package main

import (
	"bufio"
	"context"
	"encoding/binary"
	"encoding/json"
	"fmt"
	"math/big"
	"os"
	"path/filepath"
	"sort"
	"strings"

	"wa-lang.org/wa/internal/3rdparty/wazero"
	"wa-lang.org/wa/internal/3rdparty/wazero/api"
	"wa-lang.org/wa/internal/wat/watutil"
	"wa-lang.org/wa/internal/wat/watutil/wat2c"
)

func unescape(line string) (string, bool) {
	const pre = `<<"T", "`
	if !strings.HasPrefix(line, pre) || !strings.HasSuffix(line, `">>`) {
		return "", false
	}
	s := line[len(pre) : len(line)-3]
	s = strings.ReplaceAll(s, `\"`, `"`)
	s = strings.ReplaceAll(s, `\\`, `\`)
	return s, true
}

type SpecCase struct {
	Kind string `json:"kind"`
	W    int    `json:"w"`
	Op   string `json:"op"`
	A    []int  `json:"a"`
	B    []int  `json:"b"`
	Trap string `json:"trap"`
	R    []int  `json:"r"`
	Op2  string `json:"op2"`
	Addr int    `json:"addr"`
	Off  int    `json:"off"`
	// kind "ctl" (WasmCtl.tla): a statement tree and its specified result for the arguments 0, 1, 2
	// kind "ftrunc" (WasmTrunc.tla): sign, 72-bit magnitude in A, optional half, nan/inf
	Neg     bool   `json:"neg"`
	Half    int    `json:"half"`
	Special string `json:"special"`
	Prog  []CtlStmt         `json:"prog"`
	Cases map[string]CtlRes `json:"cases"`
}

type CtlRes struct {
	Trap string `json:"trap"`
	V    int64  `json:"v"`
}

type CtlExpr struct {
	E string   `json:"e"`
	X string   `json:"x"`
	V int64    `json:"v"`
	L *CtlExpr `json:"l"`
	R *CtlExpr `json:"r"`
}

type CtlStmt struct {
	S    string    `json:"s"`
	X    string    `json:"x"`
	E    *CtlExpr  `json:"e"`
	K    int       `json:"k"`
	Ks   []int     `json:"ks"`
	D    int       `json:"d"`
	Body []CtlStmt `json:"body"`
	Th   []CtlStmt `json:"th"`
	El   []CtlStmt `json:"el"`
}

func (e *CtlExpr) wat(sb *strings.Builder, ind string) {
	switch e.E {
	case "get":
		fmt.Fprintf(sb, "%slocal.get $%s\n", ind, e.X)
	case "const":
		fmt.Fprintf(sb, "%si32.const %d\n", ind, e.V)
	case "eqz":
		e.L.wat(sb, ind)
		fmt.Fprintf(sb, "%si32.eqz\n", ind)
	default:
		e.L.wat(sb, ind)
		e.R.wat(sb, ind)
		fmt.Fprintf(sb, "%si32.%s\n", ind, e.E)
	}
}

func ctlSeq(sb *strings.Builder, ss []CtlStmt, ind string) {
	for i := range ss {
		ss[i].wat(sb, ind)
	}
}

func (st *CtlStmt) wat(sb *strings.Builder, ind string) {
	switch st.S {
	case "set":
		st.E.wat(sb, ind)
		fmt.Fprintf(sb, "%slocal.set $%s\n", ind, st.X)
	case "br":
		fmt.Fprintf(sb, "%sbr %d\n", ind, st.K)
	case "brif":
		st.E.wat(sb, ind)
		fmt.Fprintf(sb, "%sbr_if %d\n", ind, st.K)
	case "brtable":
		st.E.wat(sb, ind)
		fmt.Fprintf(sb, "%sbr_table", ind)
		for _, k := range st.Ks {
			fmt.Fprintf(sb, " %d", k)
		}
		fmt.Fprintf(sb, " %d\n", st.D)
	case "ret":
		fmt.Fprintf(sb, "%slocal.get $b\n%sreturn\n", ind, ind)
	case "block":
		fmt.Fprintf(sb, "%sblock\n", ind)
		ctlSeq(sb, st.Body, ind+"\t")
		fmt.Fprintf(sb, "%send\n", ind)
	case "loop":
		fmt.Fprintf(sb, "%sloop\n", ind)
		// every entry of the loop body takes one unit of fuel; none left is a trap (termination of every generated program)
		fmt.Fprintf(sb, "%s\tlocal.get $fuel\n%s\ti32.eqz\n%s\tif\n%s\t\tunreachable\n%s\tend\n", ind, ind, ind, ind, ind)
		fmt.Fprintf(sb, "%s\tlocal.get $fuel\n%s\ti32.const 1\n%s\ti32.sub\n%s\tlocal.set $fuel\n", ind, ind, ind, ind)
		ctlSeq(sb, st.Body, ind+"\t")
		fmt.Fprintf(sb, "%send\n", ind)
	case "if":
		st.E.wat(sb, ind)
		fmt.Fprintf(sb, "%sif\n", ind)
		ctlSeq(sb, st.Th, ind+"\t")
		fmt.Fprintf(sb, "%selse\n", ind)
		ctlSeq(sb, st.El, ind+"\t")
		fmt.Fprintf(sb, "%send\n", ind)
	}
}

var ctlCount, ctlTraps, ftruncCount int

// Case: what the executors see
type Case struct {
	Mod    string   `json:"mod"`
	Fn     string   `json:"fn"`
	Args   []string `json:"args"`   // unsigned decimal
	ArgTy  []string `json:"argty"`  // i32 | i64
	ResTy  string   `json:"resty"`
	Want   string   `json:"want"`   // unsigned decimal, or "" when a trap is specified
	Trap   string   `json:"trap"`
}

func le(v []int) uint64 {
	var b [8]byte
	for i := range v {
		if i < 8 {
			b[i] = byte(v[i])
		}
	}
	return binary.LittleEndian.Uint64(b[:])
}

func ty(w int) string { return fmt.Sprintf("i%d", w) }

type fnDef struct {
	name, text string
}

var idxMods = map[string]string{}

// distinct function signatures: the i-th has the parameter list given by the bits of i+1
func sigParams(i int) string {
	var sb strings.Builder
	for n := i + 1; n > 0; n >>= 1 {
		if n&1 == 1 {
			sb.WriteString(" i64")
		} else {
			sb.WriteString(" i32")
		}
	}
	return sb.String()
}

// renderIdx: a module with k entries of one index space in front of the entry the probe uses
func renderIdx(fam string, k int) string {
	var sb strings.Builder
	fmt.Fprintf(&sb, "(module $idx_%s_%d\n", fam, k)
	// separately declared types (with named parameters): they are not functions and must
	// not show up in the name section
	sb.WriteString("\t(type $sep0 (func (param $x i32) (result i32)))\n\t(type $sep1 (func (param $y i64) (param $z i32)))\n")
	switch fam {
	case "blocktype":
		for i := 0; i < k; i++ {
			fmt.Fprintf(&sb, "\t(func $sig%d (param%s)\n\t)\n", i, sigParams(i))
		}
		sb.WriteString("\t(func $probe (export \"probe\") (result i32)\n\t\tblock (result i32 i32)\n\t\t\ti32.const 7\n\t\t\ti32.const 9\n\t\tend\n\t\ti32.add\n\t)\n")
	case "call":
		for i := 0; i < k; i++ {
			fmt.Fprintf(&sb, "\t(func $pad%d (result i32)\n\t\ti32.const %d\n\t)\n", i, i)
		}
		fmt.Fprintf(&sb, "\t(func $target (result i32)\n\t\ti32.const %d\n\t)\n", 3000+k)
		sb.WriteString("\t(func $probe (export \"probe\") (result i32)\n\t\tcall $target\n\t)\n")
	case "local":
		sb.WriteString("\t(func $probe (export \"probe\") (param $p0 i32) (param $p1 i64) (result i32)\n")
		for i := 0; i < k; i++ {
			fmt.Fprintf(&sb, "\t\t(local $l%d i32)\n", i)
		}
		fmt.Fprintf(&sb, "\t\t(local $target i32)\n\t\ti32.const %d\n\t\tlocal.set $target\n\t\tlocal.get $target\n\t)\n", 1000+k)
	case "global":
		for i := 0; i < k; i++ {
			fmt.Fprintf(&sb, "\t(global $g%d i32 (i32.const %d))\n", i, i)
		}
		fmt.Fprintf(&sb, "\t(global $target i32 (i32.const %d))\n", 2000+k)
		sb.WriteString("\t(func $probe (export \"probe\") (result i32)\n\t\tglobal.get $target\n\t)\n")
	}
	sb.WriteString(")\n")
	return sb.String()
}

func build(cases []SpecCase) (string, []Case) {
	fns := map[string]fnDef{}
	var out []Case
	for _, c := range cases {
		var name string
		var def string
		cs := Case{Trap: c.Trap}
		switch c.Kind {
		case "bin":
			t := ty(c.W)
			name = fmt.Sprintf("%s_%s", t, c.Op)
			res := t
			switch c.Op {
			case "eq", "ne", "lt_s", "lt_u", "gt_s", "gt_u", "le_s", "le_u", "ge_s", "ge_u":
				res = "i32"
			}
			def = fmt.Sprintf("\t(func $%s (export \"%s\") (param $a %s) (param $b %s) (result %s)\n\t\tlocal.get $a\n\t\tlocal.get $b\n\t\t%s.%s\n\t)\n", name, name, t, t, res, t, c.Op)
			cs.Args = []string{fmt.Sprint(le(c.A)), fmt.Sprint(le(c.B))}
			cs.ArgTy = []string{t, t}
			cs.ResTy = res
		case "un":
			t := ty(c.W)
			name = fmt.Sprintf("%s_%s", t, c.Op)
			res := t
			if c.Op == "eqz" {
				res = "i32"
			}
			def = fmt.Sprintf("\t(func $%s (export \"%s\") (param $a %s) (result %s)\n\t\tlocal.get $a\n\t\t%s.%s\n\t)\n", name, name, t, res, t, c.Op)
			cs.Args = []string{fmt.Sprint(le(c.A))}
			cs.ArgTy = []string{t}
			cs.ResTy = res
		case "const":
			t := ty(c.W)
			v := le(c.A)
			name = fmt.Sprintf("const_%s_%d", t, v)
			lit := fmt.Sprint(int64(v))
			if c.W == 32 {
				lit = fmt.Sprint(int32(uint32(v)))
			}
			def = fmt.Sprintf("\t(func $%s (export \"%s\") (result %s)\n\t\t%s.const %s\n\t)\n", name, name, t, t, lit)
			cs.Args = []string{}
			cs.ArgTy = []string{}
			cs.ResTy = t
		case "ftrunc":
			// a parameterless function applying the conversion to an exact constant
			mag := new(big.Int)
			for i := len(c.A) - 1; i >= 0; i-- {
				mag.Lsh(mag, 8)
				mag.Or(mag, big.NewInt(int64(c.A[i])))
			}
			lit := mag.String()
			if c.Half == 1 {
				lit += ".5"
			}
			if c.Special != "" {
				lit = c.Special
			}
			if c.Neg {
				lit = "-" + lit
			}
			src := "f64"
			if strings.Contains(c.Op, "_f32_") {
				src = "f32"
			}
			ftruncCount++
			name = fmt.Sprintf("ftrunc_%s_%03d", strings.ReplaceAll(c.Op, ".", "_"), ftruncCount)
			t := ty(c.W)
			operand := fmt.Sprintf("\t\t%s.const %s\n", src, lit)
			if c.Special != "" {
				// Wa's WAT parser has no inf/nan literals: the operand is computed (x / 0)
				num := map[string]string{"nan": "0", "inf": "1"}[c.Special]
				if c.Neg {
					num = "-" + num
				}
				operand = fmt.Sprintf("\t\t%s.const %s\n\t\t%s.const 0\n\t\t%s.div\n", src, num, src, src)
			}
			def = fmt.Sprintf("\t(func $%s (export \"%s\") (result %s)\n%s\t\t%s\n\t)\n", name, name, t, operand, c.Op)
			cs.Args = []string{}
			cs.ArgTy = []string{}
			cs.ResTy = t
		case "ctl":
			name = fmt.Sprintf("ctl_%05d", ctlCount)
			ctlCount++
			var sb strings.Builder
			fmt.Fprintf(&sb, "\t(func $%s (export \"%s\") (param $a i32) (result i32) (local $b i32) (local $c i32) (local $fuel i32)\n\t\ti32.const 5\n\t\tlocal.set $fuel\n", name, name)
			ctlSeq(&sb, c.Prog, "\t\t")
			sb.WriteString("\t\tlocal.get $b\n\t)\n")
			fns[name] = fnDef{name, sb.String()}
			for _, a := range []string{"0", "1", "2"} {
				r := c.Cases[a]
				if r.Trap != "" {
					// a trapping case costs the C and native executors a process each: every 25th is kept
					ctlTraps++
					if ctlTraps%25 != 1 {
						continue
					}
				}
				k := Case{Mod: "module", Fn: name, Args: []string{a}, ArgTy: []string{"i32"}, ResTy: "i32", Trap: r.Trap}
				if r.Trap == "" {
					k.Want = fmt.Sprint(uint32(int32(r.V)))
				}
				out = append(out, k)
			}
			continue
		case "idx":
			k := int(le(c.A))
			cs.Mod = fmt.Sprintf("idx_%s_%d", c.Op, k)
			cs.Fn = "probe"
			cs.Args = []string{}
			cs.ArgTy = []string{}
			cs.ResTy = "i32"
			if c.Op == "local" {
				cs.Args = []string{"0", "0"}
				cs.ArgTy = []string{"i32", "i64"}
			}
			cs.Want = fmt.Sprint(le(c.R))
			idxMods[cs.Mod] = renderIdx(c.Op, k)
			out = append(out, cs)
			continue
		case "mem":
			st, ld := c.Op, c.Op2
			stT, ldT := st[:3], ld[:3]
			name = fmt.Sprintf("mem_%s_%s_o%d", strings.ReplaceAll(st, ".", "_"), strings.ReplaceAll(ld, ".", "_"), c.Off)
			def = fmt.Sprintf("\t(func $%s (export \"%s\") (param $addr i32) (param $v %s) (result %s)\n", name, name, stT, ldT) +
				fmt.Sprintf("\t\tlocal.get $addr\n\t\ti64.const 0\n\t\ti64.store offset=%d\n\t\tlocal.get $addr\n\t\ti64.const 0\n\t\ti64.store offset=%d\n", c.Off, c.Off+8) +
				fmt.Sprintf("\t\tlocal.get $addr\n\t\tlocal.get $v\n\t\t%s offset=%d\n\t\tlocal.get $addr\n\t\t%s offset=%d\n\t)\n", st, c.Off, ld, c.Off)
			cs.Args = []string{fmt.Sprint(c.Addr), fmt.Sprint(le(c.A))}
			cs.ArgTy = []string{"i32", stT}
			cs.ResTy = ldT
		case "ldb":
			ld := c.Op2
			ldT := ld[:3]
			name = fmt.Sprintf("ldb_%s_o%d", strings.ReplaceAll(ld, ".", "_"), c.Off)
			def = fmt.Sprintf("\t(func $%s (export \"%s\") (param $addr i32) (result %s)\n\t\tlocal.get $addr\n\t\t%s offset=%d\n\t)\n", name, name, ldT, ld, c.Off)
			cs.Args = []string{fmt.Sprint(c.Addr)}
			cs.ArgTy = []string{"i32"}
			cs.ResTy = ldT
		case "conv":
			name = strings.ReplaceAll(c.Op, ".", "_")
			from, to := "i64", "i32"
			if c.Op != "i32.wrap_i64" {
				from, to = "i32", "i64"
			}
			def = fmt.Sprintf("\t(func $%s (export \"%s\") (param $a %s) (result %s)\n\t\tlocal.get $a\n\t\t%s\n\t)\n", name, name, from, to, c.Op)
			cs.Args = []string{fmt.Sprint(le(c.A))}
			cs.ArgTy = []string{from}
			cs.ResTy = to
		}
		fns[name] = fnDef{name, def}
		cs.Mod = "module"
		cs.Fn = name
		if c.Trap == "" {
			cs.Want = fmt.Sprint(le(c.R))
		}
		out = append(out, cs)
	}
	var names []string
	for n := range fns {
		names = append(names, n)
	}
	sort.Strings(names)
	var sb strings.Builder
	sb.WriteString("(module $cases\n\t(memory 1)\n\t(export \"memory\" (memory 0))\n")
	for _, n := range names {
		sb.WriteString(fns[n].text)
	}
	sb.WriteString(")\n")
	return sb.String(), out
}

const hostC = `#include <stdio.h>
#include <stdint.h>
#include <stdlib.h>
#include <string.h>
#include "app.h"

static uint8_t host_memory[1<<16];
void app_memory_init(uint8_t** pp_memory, int32_t* page_size) { *pp_memory = host_memory; *page_size = 1; }

typedef struct { int fn; uint64_t a, b; } kase;
static const kase cases[] = {
%s};
static uint64_t run(int i) {
  const kase *k = &cases[i];
  switch (k->fn) {
%s  default: return 0;
  }
  return 0;
}
int main(int argc, char **argv) {
  int from = argc > 1 ? atoi(argv[1]) : 0;
  int n = (int)(sizeof(cases)/sizeof(cases[0]));
  int to = argc > 2 ? atoi(argv[2]) : n;
  int i;
  app_init();
  for (i = from; i < to && i < n; i++) {
    printf("%%d %%llu\n", i, (unsigned long long)run(i));
    fflush(stdout);
  }
  return 0;
}
`

func prep(casesPath, outdir string) {
	f, err := os.Open(casesPath)
	must(err)
	var specs []SpecCase
	sc := bufio.NewScanner(f)
	sc.Buffer(make([]byte, 1<<20), 1<<24)
	for sc.Scan() {
		if js, ok := unescape(sc.Text()); ok {
			var c SpecCase
			must(json.Unmarshal([]byte(js), &c))
			specs = append(specs, c)
		}
	}
	wat, cases := build(specs)
	must(os.MkdirAll(outdir, 0777))
	must(os.WriteFile(filepath.Join(outdir, "module.wat"), []byte(wat), 0666))
	cj, _ := json.Marshal(cases)
	must(os.WriteFile(filepath.Join(outdir, "cases.json"), cj, 0666))
	assemble := func(name, text string) {
		defer func() {
			if e := recover(); e != nil {
				fmt.Printf("WAT2WASM-ERROR %s panic: %v\n", name, e)
			}
		}()
		must(os.WriteFile(filepath.Join(outdir, name+".wat"), []byte(text), 0666))
		wasm, err := watutil.Wat2Wasm(name+".wat", []byte(text))
		if err != nil {
			fmt.Printf("WAT2WASM-ERROR %s %v\n", name, err)
			return
		}
		must(os.WriteFile(filepath.Join(outdir, name+".wasm"), wasm, 0666))
	}
	assemble("module", wat)
	for name, text := range idxMods {
		assemble(name, text)
	}
	func() {
		defer func() {
			if e := recover(); e != nil {
				fmt.Println("WAT2C-ERROR panic:", e)
			}
		}()
		_, code, header, err := wat2c.Wat2C("module.wat", []byte(wat), wat2c.Options{Prefix: "app"})
		if err != nil {
			fmt.Println("WAT2C-ERROR", err)
			return
		}
		must(os.WriteFile(filepath.Join(outdir, "app.c"), code, 0666))
		must(os.WriteFile(filepath.Join(outdir, "app.h"), header, 0666))
		// host: a table of cases and a dispatch switch
		idx := map[string]int{}
		var names []string
		var tab, sw strings.Builder
		for _, c := range cases {
			if c.Mod != "module" {
				fmt.Fprintf(&tab, "  {-1, 0ull, 0ull},\n") // not run in C (keeps indices aligned)
				continue
			}
			if _, ok := idx[c.Fn]; !ok {
				idx[c.Fn] = len(names)
				names = append(names, c.Fn)
				cast := func(t, v string) string {
					if t == "i32" {
						return "(int32_t)(uint32_t)" + v
					}
					return "(int64_t)" + v
				}
				call := fmt.Sprintf("app_%s(", c.Fn)
				if len(c.Args) >= 1 {
					call += cast(c.ArgTy[0], "k->a")
				}
				if len(c.Args) == 2 {
					call += ", " + cast(c.ArgTy[1], "k->b")
				}
				call += ")"
				if c.ResTy == "i32" {
					call = "(uint64_t)(uint32_t)" + call
				} else {
					call = "(uint64_t)" + call
				}
				fmt.Fprintf(&sw, "  case %d: return %s;\n", idx[c.Fn], call)
			}
			a, b := "0", "0"
			if len(c.Args) >= 1 {
				a = c.Args[0]
			}
			if len(c.Args) == 2 {
				b = c.Args[1]
			}
			fmt.Fprintf(&tab, "  {%d, %sull, %sull},\n", idx[c.Fn], a, b)
		}
		must(os.WriteFile(filepath.Join(outdir, "host.c"), []byte(fmt.Sprintf(hostC, tab.String(), sw.String())), 0666))
	}()
	fmt.Printf("{\"cases\":%d}\n", len(cases))
}

var ctx = context.Background()

func runWazero(outdir string) {
	cj, err := os.ReadFile(filepath.Join(outdir, "cases.json"))
	must(err)
	var cases []Case
	must(json.Unmarshal(cj, &cases))
	out := bufio.NewWriter(os.Stdout)
	defer out.Flush()
	enc := json.NewEncoder(out)
	for _, mode := range []string{"compiler", "interpreter"} {
		cfg := wazero.NewRuntimeConfig()
		if mode == "interpreter" {
			cfg = wazero.NewRuntimeConfigInterpreter()
		}
		rt := wazero.NewRuntimeWithConfig(ctx, cfg)
		mods := map[string]api.Module{}
		failed := map[string]bool{}
		bad := 0
		for i, c := range cases {
			mod, ok := mods[c.Mod]
			if !ok && !failed[c.Mod] {
				wasm, err := os.ReadFile(filepath.Join(outdir, c.Mod+".wasm"))
				if err == nil {
					mod, err = rt.InstantiateModuleFromBinary(ctx, wasm)
				}
				if err != nil {
					failed[c.Mod] = true
					enc.Encode(map[string]interface{}{"engine": mode, "mod": c.Mod, "instantiate_error": strings.Split(err.Error(), "\n")[0]})
				} else {
					mods[c.Mod] = mod
				}
			}
			if failed[c.Mod] {
				bad++
				continue
			}
			fn := mod.ExportedFunction(c.Fn)
			if fn == nil {
				bad++
				enc.Encode(map[string]interface{}{"engine": mode, "i": i, "case": c, "got": "missing export"})
				continue
			}
			args := make([]uint64, len(c.Args))
			for k, a := range c.Args {
				fmt.Sscan(a, &args[k])
			}
			got := ""
			trap := ""
			func() {
				defer func() {
					if e := recover(); e != nil {
						trap = fmt.Sprint("panic: ", e)
					}
				}()
				r, err := fn.Call(ctx, args...)
				if err != nil {
					trap = strings.Split(err.Error(), "\n")[0]
					return
				}
				v := r[0]
				if c.ResTy == "i32" {
					v = uint64(uint32(v))
				}
				got = fmt.Sprint(v)
			}()
			ok = (c.Trap == "" && trap == "" && got == c.Want) || (c.Trap != "" && trap != "" && strings.Contains(trap, c.Trap))
			if !ok {
				bad++
				if bad <= 60 {
					enc.Encode(map[string]interface{}{"engine": mode, "i": i, "case": c, "got": got, "trap": trap})
				}
			}
		}
		enc.Encode(map[string]interface{}{"engine": mode, "done": true, "n": len(cases), "bad": bad})
		rt.Close(ctx)
	}
}

func must(err error) {
	if err != nil {
		fmt.Fprintln(os.Stderr, "harness error:", err)
		os.Exit(2)
	}
}

func main() {
	if len(os.Args) < 3 {
		os.Exit(2)
	}
	switch os.Args[1] {
	case "prep":
		prep(os.Args[2], os.Args[3])
	case "wazero":
		runWazero(os.Args[2])
	default:
		os.Exit(2)
	}
}
