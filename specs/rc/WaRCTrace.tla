------------------------------ MODULE WaRCTrace ------------------------------
(* C11 / C12: the reference-counting protocol of the Wa runtime as a trace     *)
(* specification.  Events are logged by host functions wrapped around          *)
(* $runtime.HeapAlloc / HeapFree / Block.Retain / Block.Release in the         *)
(* compiler's own output, and by the program's checkpoint() calls.             *)
(* State: the live blocks (payload address -> size, reference count as the     *)
(* protocol implies it).  Contract, judged per event:                          *)
(*   alloc    returns a non-null block that overlaps no live block and reads   *)
(*            as zero;                                                          *)
(*   retain / release  touch live blocks only;                                  *)
(*   free     only of a live block whose count the preceding release brought   *)
(*            to zero; never twice;                                             *)
(*   checkpoint k >= 3: no more live blocks / bytes than at checkpoint 2 (C12). *)
EXTENDS Integers, Sequences, FiniteSets, TLC, Json
Log == ndJsonDeserialize("trace.ndjson")
N == Len(Log)
VARIABLES l, live, base, verdict
vars == <<l, live, base, verdict>>

Init == l = 1 /\ live = << >> /\ base = [count |-> -1, bytes |-> -1] /\ verdict = "ok"

Overlaps(p, n) == \E q \in DOMAIN live : ~(p + n <= q \/ q + live[q].n <= p)
Bytes == LET RECURSIVE Sum(_)
             Sum(S) == IF S = {} THEN 0 ELSE LET q == CHOOSE x \in S : TRUE IN live[q].n + Sum(S \ {q})
         IN Sum(DOMAIN live)

Judge(e) ==
  CASE e.ev = "alloc" -> IF e.p = 0 THEN "alloc-returns-null"
                         ELSE IF e.p \in DOMAIN live \/ Overlaps(e.p, e.n) THEN "alloc-overlaps-live-block"
                         ELSE IF ~e.zero THEN "alloc-not-zeroed" ELSE "ok"
    [] e.ev = "retain" -> IF e.p \notin DOMAIN live THEN "retain-on-freed-block" ELSE "ok"
    [] e.ev = "release" -> IF e.p \notin DOMAIN live THEN "release-on-freed-block"
                           ELSE IF live[e.p].rc <= 0 THEN "release-below-zero" ELSE "ok"
    [] e.ev = "free" -> IF e.p \notin DOMAIN live THEN "double-free"
                        ELSE IF live[e.p].rc # 0 THEN "free-while-referenced" ELSE "ok"
    [] e.ev = "checkpoint" -> IF e.k >= 3 /\ base.count >= 0 /\ (Cardinality(DOMAIN live) > base.count \/ Bytes > base.bytes)
                              THEN "heap-grows" ELSE "ok"
    [] OTHER -> "ok"

\* the logged count (read from the block's memory before the call) must agree with the protocol state
Drift(e) == e.ev \in {"retain", "release"} /\ e.p \in DOMAIN live /\ e.rc # live[e.p].rc

Next == /\ l <= N
        /\ LET e == Log[l] IN
           /\ verdict' = Judge(e)
           /\ (verdict' # "ok" => PrintT(<<"V", l, verdict'>>))
           /\ (Drift(e) => PrintT(<<"D", l>>))
           /\ (e.ev = "checkpoint" => PrintT(<<"C", e.k, Cardinality(DOMAIN live), Bytes>>))
           /\ live' = CASE e.ev = "alloc" /\ e.p # 0 -> (e.p :> [n |-> e.n, rc |-> 1]) @@ live
                        [] e.ev = "retain" /\ e.p \in DOMAIN live -> [live EXCEPT ![e.p].rc = @ + 1]
                        [] e.ev = "release" /\ e.p \in DOMAIN live -> [live EXCEPT ![e.p].rc = @ - 1]
                        [] e.ev = "free" /\ e.p \in DOMAIN live -> [q \in DOMAIN live \ {e.p} |-> live[q]]
                        [] OTHER -> live
           /\ base' = IF e.ev = "checkpoint" /\ e.k = 2 THEN [count |-> Cardinality(DOMAIN live), bytes |-> Bytes] ELSE base
        /\ l' = l + 1
HighWater == TLCSet(1, IF l > TLCGet(1) THEN l ELSE TLCGet(1))
Accepted == IF TLCGet(1) = N + 1 THEN TRUE ELSE PrintT(<<"STUCK", TLCGet(1)>>) /\ FALSE
ASSUME TLCSet(1, 0)
=============================================================================
