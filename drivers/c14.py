"""C14 -- standard-library functions agree with their Go counterparts: StdLib.tla defines
the functions declaratively (strings/bytes, strconv integers, unicode/utf8, hex, base64,
math/bits, sort, adler32/crc32/fnv); TLC evaluates them on a bounded argument space; generated
Wa programs call the real library with the same arguments and print the results."""
import json
import os
import re

import common
from common import MachineryError

LEVEL = "model_checking"


def q(chars):
    """Wa string literal of a character sequence"""
    return '"' + "".join(chars).replace("\\", "\\\\").replace('"', '\\"') + '"'


def blit(bs):
    return "[]byte{%s}" % ", ".join(str(b) for b in bs)


def arg(a, as_bytes=False):
    t, v = a["t"], a["v"]
    if t == "s":
        return "[]byte(%s)" % q(v) if as_bytes else q(v)
    if t == "i":
        return str(v)
    if t == "l":
        if v and isinstance(v[0], list):
            return ("[][]byte{%s}" % ", ".join("[]byte(%s)" % q(x) for x in v)) if as_bytes else ("[]string{%s}" % ", ".join(q(x) for x in v))
        return "[]int{%s}" % ", ".join(str(x) for x in v)
    if t == "y":
        return blit(v)
    raise MachineryError("argument type " + t)


def unsigned(limbs):
    return sum(b << (8 * i) for i, b in enumerate(limbs))


def want_text(c):
    """the line the spec expects (after the case index)"""
    w = c["want"]
    t, v = w["t"], w["v"]
    if t == "s":
        return "[" + "".join(v) + "]"
    if t == "i":
        return str(v)
    if t == "b":
        return "true" if v else "false"
    if t == "l":
        if v and isinstance(v[0], list) or c["fn"] in ("Split", "Fields"):
            return "%d" % len(v) + "".join("|" + "".join(x) for x in v)
        return "%d" % len(v) + "".join("|%d" % x for x in v)
    if t == "y":
        if c["fn"] == "base64.RoundTrip":
            return "%d" % len(v) + "".join("|%d" % x for x in v)
        return str(unsigned(v))
    if t == "pe":
        val, err = v
        s = "".join(c["a"][0]["v"])
        msg = {"nil": "nil", "syntax": 'strconv.ParseInt: parsing "%s": invalid syntax' % s, "range": 'strconv.ParseInt: parsing "%s": value out of range' % s}[err]
        return "%d %s" % (val, msg)
    if t == "rw":
        return "%d %d" % (v[0], v[1])
    if t == "he":
        n, err = v
        msg = {"nil": "nil", "length": "encoding/hex: odd length hex string"}.get(err)
        if msg is None:
            msg = "encoding/hex: invalid byte: U+%04X '%s'" % (ord(err), err)
        return "%d %s" % (n, msg)
    if t == "ab":
        return str(v[1] * 65536 + v[0])
    raise MachineryError("want type " + t)


LISTP = "\tprint(len(r%d))\n\tfor _, x := range r%d {\n\t\tprint(\"|\")\n\t\tprint(%s)\n\t}\n\tprintln()\n"


def stmt(i, fam, c, pkg):
    """Wa statements printing `<i> <result>` for one case; pkg is strings or bytes for the strings family"""
    fn, a = c["fn"], c["a"]
    head = "\tprint(%d)\n\tprint(\" \")\n" % i
    if fam == "strings":
        by = pkg == "bytes"
        # the cut set of bytes.Trim* is a string
        call = "%s.%s(%s)" % (pkg, fn, ", ".join(arg(x, by and not (fn in ("Trim", "TrimLeft", "TrimRight") and n == 1)) for n, x in enumerate(a)))
        t = c["want"]["t"]
        if t == "l":
            return head + "\tr%d := %s\n" % (i, call) + LISTP % (i, i, "string(x)" if by else "x")
        if t == "s":
            return head + "\tprintln(\"[\" + %s + \"]\")\n" % (("string(%s)" % call) if by else call)
        return head + "\tprintln(%s)\n" % call
    if fam == "strconv":
        if fn == "FormatInt":
            return head + "\tprintln(\"[\" + strconv.FormatInt(i64(%s), %s) + \"]\")\n" % (arg(a[0]), arg(a[1]))
        if fn == "Itoa":
            return head + "\tprintln(\"[\" + strconv.Itoa(%s) + \"]\")\n" % arg(a[0])
        return head + ("\tv%d, e%d := strconv.ParseInt(%s, %s, %s)\n\tif e%d == nil {\n\t\tprintln(v%d, \"nil\")\n\t} else {\n\t\tprintln(v%d, e%d.Error())\n\t}\n"
                       % (i, i, arg(a[0]), arg(a[1]), arg(a[2]), i, i, i, i))
    if fam == "utf8":
        s = "string(%s)" % blit(a[0]["v"])
        if fn == "DecodeRuneInString":
            return head + "\tr%d, w%d := utf8.DecodeRuneInString(%s)\n\tprintln(int(r%d), w%d)\n" % (i, i, s, i, i)
        return head + "\tprintln(utf8.%s(%s))\n" % (fn, s)
    if fam == "codec":
        if fn == "hex.EncodeToString":
            return head + "\tprintln(\"[\" + hex.EncodeToString(%s) + \"]\")\n" % blit(a[0]["v"])
        if fn == "hex.DecodeString":
            return head + ("\tb%d, e%d := hex.DecodeString(%s)\n\tif e%d == nil {\n\t\tprintln(len(b%d), \"nil\")\n\t} else {\n\t\tprintln(len(b%d), e%d.Error())\n\t}\n"
                           % (i, i, q(a[0]["v"]), i, i, i, i))
        if fn == "base64.EncodeToString":
            return head + "\tprintln(\"[\" + base64.StdEncoding.EncodeToString(%s) + \"]\")\n" % blit(a[0]["v"])
        return head + ("\tr%d, _ := base64.StdEncoding.DecodeString(base64.StdEncoding.EncodeToString(%s))\n" % (i, blit(a[0]["v"]))) + LISTP % (i, i, "int(x)")
    if fam == "bits":
        w = c["w"]
        x = "u%d(%d)" % (w, unsigned(a[0]["v"]))
        name = fn + str(w)
        if fn == "RotateLeft":
            return head + "\tprintln(u64(bits.%s(%s, %s)))\n" % (name, x, arg(a[1]))
        if fn in ("Reverse", "ReverseBytes"):
            return head + "\tprintln(u64(bits.%s(%s)))\n" % (name, x)
        return head + "\tprintln(bits.%s(%s))\n" % (name, x)
    if fam == "sort":
        if fn == "sort.Ints":
            return head + "\tr%d := %s\n\tsort.Ints(r%d)\n" % (i, arg(a[0]), i) + LISTP % (i, i, "x")
        return head + "\tprintln(sort.SearchInts(%s, %s))\n" % (arg(a[0]), arg(a[1]))
    if fam == "hash":
        b = blit(a[0]["v"])
        if fn == "adler32.Checksum":
            return head + "\tprintln(u64(adler32.Checksum(%s)))\n" % b
        if fn == "crc32.ChecksumIEEE":
            return head + "\tprintln(u64(crc32.ChecksumIEEE(%s)))\n" % b
        if fn == "md5.Sum":
            return head + "\td%d := md5.New()\n\td%d.Write(%s)\n\tprintln(\"[\" + hex.EncodeToString(d%d.Sum(nil)) + \"]\")\n" % (i, i, b, i)
        ctor = fn.split(".")[1]
        return head + "\th%d := fnv.%s()\n\th%d.Write(%s)\n\tprintln(u64(h%d.Sum32()))\n" % (i, ctor, i, b, i)
    raise MachineryError("family " + fam)


IMPORTS = {"strings": ["strings"], "bytes": ["bytes"], "strconv": ["strconv"], "utf8": ["unicode/utf8"], "codec": ["encoding/hex", "encoding/base64"], "bits": ["math/bits"],
           "sort": ["sort"], "hash": ["hash/adler32", "hash/crc32", "hash/fnv", "crypto/md5", "encoding/hex"]}


def skip(fam, pkg, c):
    """cases outside a package's domain"""
    if c["fn"] == "ReverseBytes" and c.get("w") == 8:
        return True
    return False


def program(fam, pkg, items):
    imps = "".join('import "%s"\n' % p for p in IMPORTS[pkg])
    # one function per 40 cases keeps the compiled functions small
    fns, calls = [], []
    for k in range(0, len(items), 40):
        body = "".join(stmt(i, fam, c, pkg) for i, c in items[k:k + 40])
        fns.append("func part%d {\n%s}\n\n" % (k // 40, body))
        calls.append("\tpart%d()\n" % (k // 40))
    return imps + "\n" + "".join(fns) + "func main {\n" + "".join(calls) + "}\n"


def run(chk):
    wa = common.build_wa()
    thorough = chk.tier == "thorough"
    chk.assume("argument spaces: strings over {a, b, space} up to length %d (plus two mixed-case strings), separators up to length 2; integers from a 25-value boundary set below 2^31 "
               "(TLC integers are 32-bit: 64-bit formatting/parsing limits, floating-point conversion and the container packages are not decided); byte strings over UTF-8 byte "
               "classes up to length 3 plus named 4-byte sequences; math/bits at 8/16/32/64 bits on 9 bit patterns; hashes on byte strings up to length 3 plus three longer ones; md5 on 14 message lengths around its padding boundaries"
               % (4 if thorough else 3))
    res = common.run_tlc("std", "StdLib", "std4.cfg" if thorough else "std.cfg", collect_prefix='<<"T"', timeout=3000)
    if res.violated:
        raise MachineryError("StdLib.tla disagrees with the documented values: " + res.violated)
    chk.tlc(res, "StdLib (declarative definitions)")
    by_fam = {}
    for l in res.lines:
        r = json.loads(common.parse_printt(l, "T")[0])
        by_fam.setdefault(r["fam"], []).append(r["c"])
    jobs = []
    for fam, cs in sorted(by_fam.items()):
        cs.sort(key=lambda c: json.dumps(c, sort_keys=True))
        pkgs = ["strings", "bytes"] if fam == "strings" else [fam]
        for pkg in pkgs:
            items = [(i, c) for i, c in enumerate(cs) if not skip(fam, pkg, c)]
            for k, chunk in enumerate(common.chunks(items, 600)):
                jobs.append((fam, pkg, k, chunk))
    d = common.subdir("c14")

    def job(j):
        fam, pkg, k, chunk = j
        out = {}
        notes = []
        rest = chunk
        for attempt in range(12):
            if not rest:
                break
            f = os.path.join(d, "%s_%s_%d_%d.wa" % (fam, pkg, k, attempt))
            open(f, "w").write(program(fam, pkg, rest))
            rc, so, se, to = common.run_child([wa, "run", f], timeout=300, cwd=d)
            os.unlink(f)
            lines = so.splitlines()
            seen = 0
            for l in lines:
                t = l.split(" ", 1)
                if t[0].isdigit() and seen < len(rest) and int(t[0]) == rest[seen][0]:
                    out[rest[seen][0]] = t[1] if len(t) > 1 else ""
                    seen += 1
            if seen >= len(rest):
                break
            if rc != 0 and re.search(r"\.wa:\d+:\d+:", se + so):
                raise MachineryError("the generated driver is not accepted by the compiler: " + (se + so)[-300:])
            if seen == 0 and rc != 0 and not lines:
                notes.append(("build", (so + se)[-600:]))
                break
            # the program stopped inside case rest[seen]
            notes.append(("abort", rest[seen][0], ("timeout" if to else (se.strip().splitlines() or lines[-1:] or ["?"])[-1])[:200]))
            rest = rest[seen + 1:]
        return j, out, notes
    ncases = 0
    for (fam, pkg, k, chunk), out, notes in common.parallel(job, jobs):
        cmap = dict(chunk)
        for n in notes:
            if n[0] == "build":
                chk.report("C14:does-not-compile:%s" % pkg, "the driver for package %s does not compile or start: %s" % (pkg, n[1][-300:]), {"package": pkg, "output": n[1]})
            else:
                c = cmap[n[1]]
                chk.report("C14:abort:%s.%s" % (pkg, c["fn"]), "%s.%s(%s) stops the program: %s; the definition gives %s" % (pkg, c["fn"], json.dumps([x["v"] for x in c["a"]])[:120], n[2], want_text(c)),
                           {"package": pkg, "case": c, "note": n[2]})
        for i, c in chunk:
            if i not in out:
                continue
            ncases += 1
            chk.add("traces_validated_against_impl", 1)
            want = want_text(c)
            if out[i] != want:
                # a result that differs only in the text of an error message is keyed apart
                kind = "message" if c["want"]["t"] in ("he", "pe") and out[i].split(" ", 1)[0] == want.split(" ", 1)[0] and (out[i].endswith(" nil") == want.endswith(" nil")) else "value"
                chk.report("C14:%s:%s.%s%s" % (kind, pkg, c["fn"], c.get("w", "")), "%s.%s%s(%s) gives %r; the definition (Go's behaviour) gives %r" % (
                    pkg, c["fn"], c.get("w", ""), json.dumps([x["v"] for x in c["a"]], ensure_ascii=False)[:160], out[i][:120], want[:120]), {"package": pkg, "case": c, "got": out[i], "want": want})
    if ncases < 0.8 * sum(len(j[3]) for j in jobs):
        raise MachineryError("only %d of %d cases produced an observation" % (ncases, sum(len(j[3]) for j in jobs)))
    chk.cov["cases_by_family"] = {f: len(cs) for f, cs in by_fam.items()}
    chk.cov["exhaustive"] = True
    chk.cov["explanation"] = "every case of StdLib.tla executed against the Wa standard library in compiled Wa programs (the strings cases against both strings and bytes)"
    for f, cs in sorted(by_fam.items()):
        chk.sample({"family": f, "case": cs[len(cs) // 2], "expected_line": want_text(cs[len(cs) // 2])})


def replay(chk, path):
    run(chk)
