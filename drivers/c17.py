"""C17 -- native instruction encoders: EncFmt.tla gives, from the ISA manuals, the fixed
bits of every RV64I+M and LoongArch64 integer mnemonic and the placement, range and
read-back of every operand field; TLC evaluates the encoding of operand tuples at the field
limits; the harness encodes the same tuples with the repository's encoders, compares the
words and decodes them with the repository's decoders."""
import json
import subprocess

import common
from common import MachineryError

LEVEL = "model_checking"
WIDTH = {"I": 12, "S": 12, "IS6": 6, "IS5": 5, "B": 13, "U": 20, "J": 21, "2RI12S": 12, "2RI12U": 12, "2RI5": 5, "2RI6": 6, "1RI20": 20, "BR16": 18, "JIRL": 18, "BR21": 23, "BR26": 28,
         "3RSA2": 2, "3RSA3": 3}


def imm_class(c):
    if c["fmt"] in ("R", "3R"):
        return "none"
    return "representable" if c["representable"] else "unrepresentable"


def run(chk):
    h = common.go_build("enc")
    chk.assume("RISC-V: RV64I + M (51 mnemonics; no CSR, fence, ecall, atomics, floating point); LoongArch64: 82 integer mnemonics (3R, shifts, 12-bit immediates, loads/stores, 20-bit "
               "immediates, branches, alsl/bytepick); x86-64: eight two-operand 64-bit integer instructions in register-register, load and store forms over all 16 registers and 12 displacements, "
               "disassembled with the repository's copy of golang.org/x/arch x86asm; AArch64 is not covered; for RISC-V/LoongArch the independent decoder is the "
               "specification's field read-back, the repository's own decoders are checked against it")
    res = common.run_tlc("isa", "EncFmt", "encfmt.cfg", collect_prefix='<<"T"', timeout=3000)
    if res.violated:
        raise MachineryError("EncFmt.tla disagrees with the encodings printed in the manuals: " + res.violated)
    chk.tlc(res, "EncFmt (fixed bits, field placement, representable immediates)")
    cases = [json.loads(common.parse_printt(l, "T")[0]) for l in res.lines]
    cases.sort(key=lambda c: (c["arch"], c["mn"], c["rd"], c["rs1"], c["rs2"], c["imm"]))
    for i, c in enumerate(cases):
        c["id"] = i
    p = subprocess.run([h, "run"], input="".join(json.dumps(c) + "\n" for c in cases), capture_output=True, text=True, timeout=1200)
    if p.returncode != 0:
        raise MachineryError("enc harness failed: " + p.stderr[-400:])
    out = {}
    for l in p.stdout.splitlines():
        r = json.loads(l)
        out[r["id"]] = r
    unknown = set()
    for c in cases:
        r = out[c["id"]]
        name = c["mn"].replace("_", ".")
        if not r["known"]:
            unknown.add((c["arch"], name))
            continue
        chk.add("traces_validated_against_impl", 1)
        where = "%s:%s:%s" % (c["arch"], name, c["fmt"])
        args = "rd=%d rs1=%d rs2=%d imm=%d" % (c["rd"], c["rs1"], c["rs2"], c["imm"])
        want = (c["hi"] << 16) | c["lo"]
        if not r["accepted"]:
            if c["representable"]:
                chk.report("C17:rejects-valid:%s" % where, "%s %s %s is rejected (%s); the instruction exists: 0x%08x" % (c["arch"], name, args, (r["err"] or r["panic"])[:120], want),
                           {"case": c, "result": r})
            continue
        if not c["representable"]:
            chk.report("C17:accepts-unrepresentable:%s" % where, "%s %s %s is accepted (word 0x%08x) although the %s format cannot carry this immediate: no decoder can return it" % (
                c["arch"], name, args, r["word"], c["fmt"]), {"case": c, "result": r})
            continue
        if r["word"] != want:
            chk.report("C17:word:%s" % where, "%s %s %s encodes to 0x%08x; the manual's placement gives 0x%08x (differing bits 0x%08x)" % (c["arch"], name, args, r["word"], want, r["word"] ^ want),
                       {"case": c, "result": r, "want": want})
            continue
        # the repository's decoder on the (correct) word
        if r["dec_err"] or r["dec_panic"]:
            chk.report("C17:decoder-fails:%s" % where, "%s: decoding 0x%08x (%s %s) fails: %s" % (c["arch"], want, name, args, (r["dec_err"] or r["dec_panic"])[:120]), {"case": c, "result": r})
            continue
        w = WIDTH.get(c["fmt"])
        same_imm = True if w is None else (r["dec_imm"] - c["imm"]) % (1 << w) == 0 and (r["dec_imm"] == c["imm"] or c["fmt"] in ("U", "1RI20", "2RI12S"))
        used = c["uses"]
        same_regs = all(r["dec_" + k] == c[k] for k in ("rd", "rs1", "rs2") if k in used)
        if r["dec_as"].lower() != name.lower() or not same_regs or not same_imm:
            chk.report("C17:decoder-differs:%s" % where, "%s: 0x%08x is %s %s; the decoder returns %s rd=%d rs1=%d rs2=%d imm=%d" % (
                c["arch"], want, name, args, r["dec_as"], r["dec_rd"], r["dec_rs1"], r["dec_rs2"], r["dec_imm"]), {"case": c, "result": r})
    if unknown:
        chk.notes.append("mnemonics of the specification that the encoders do not know: %s" % sorted(unknown))
        if len(unknown) > 12:
            raise MachineryError("%d mnemonics unknown to the encoders: the name mapping is wrong: %s" % (len(unknown), sorted(unknown)[:8]))
    chk.cov["cases"] = len(cases)
    chk.cov["unknown_mnemonics"] = sorted("%s:%s" % u for u in unknown)
    chk.cov["exhaustive"] = True
    chk.cov["explanation"] = "every (mnemonic, register tuple, immediate) case of EncFmt.tla encoded by the repository's encoder and, when the word is right, decoded by its decoder"
    chk.sample(cases[0])
    chk.sample(cases[len(cases) // 2])
    x64(chk, h)


def x64(chk, h):
    """X64ModRM.tla: ModRM/SIB/displacement forms against x64.Encode and the repository's copy of the x86asm disassembler"""
    res = common.run_tlc("isa", "X64ModRM", "x64.cfg", collect_prefix='<<"T"', timeout=1200)
    if res.violated:
        raise MachineryError("X64ModRM.tla disagrees with the encodings printed in the manual: " + res.violated)
    chk.tlc(res, "X64ModRM (REX/ModRM/SIB/displacement)")
    cases = [json.loads(common.parse_printt(l, "T")[0]) for l in res.lines]
    cases.sort(key=lambda c: (c["op"], c["form"], c["reg"], c["base"], c["disp"]))
    for i, c in enumerate(cases):
        c["id"] = i
    p = subprocess.run([h, "x64"], input="".join(json.dumps({k: c[k] for k in ("id", "op", "form", "reg", "base", "disp")}) + "\n" for c in cases), capture_output=True, text=True, timeout=1200)
    if p.returncode != 0:
        raise MachineryError("enc x64 failed: " + p.stderr[-400:])
    out = {}
    for l in p.stdout.splitlines():
        r = json.loads(l)
        out[r["id"]] = r
    rejected = noncanon = 0
    for c in cases:
        r = out[c["id"]]
        where = "x64:%s:%s" % (c["op"], c["form"])
        desc = ("%s r%d, [r%d%+d]" % (c["op"], c["reg"], c["base"], c["disp"]) if c["form"] == "load" else
                "%s [r%d%+d], r%d" % (c["op"], c["base"], c["disp"], c["reg"]) if c["form"] == "store" else "%s r%d, r%d" % (c["op"], c["reg"], c["base"]))
        if not r["accepted"]:
            rejected += 1
            continue
        chk.add("traces_validated_against_impl", 1)
        code = " ".join("%02x" % b for b in r["code"])
        # the independent disassembler must return the operation and operands, and consume exactly the produced bytes
        if c["form"] == "load":
            wdst, wsrc = "reg:%d" % c["reg"], "mem:%d:%d" % (c["base"], c["disp"])
        elif c["form"] == "store":
            wdst, wsrc = "mem:%d:%d" % (c["base"], c["disp"]), "reg:%d" % c["reg"]
        else:
            wdst, wsrc = "reg:%d" % c["reg"], "reg:%d" % c["base"]
        if r["dec_err"]:
            chk.report("C17:disassembler-rejects:%s" % where, "%s encodes to %s, which the disassembler rejects: %s" % (desc, code, r["dec_err"][:100]), {"case": c, "result": r})
        elif r["dec_len"] != len(r["code"]) or r["dec_op"] != c["op"] or r["dec_dst"] != wdst or r["dec_src"] != wsrc:
            chk.report("C17:disassembles-differently:%s" % where, "%s encodes to %s (%d bytes), which disassembles to `%s` (%d bytes)" % (desc, code, len(r["code"]), r["dec_text"], r["dec_len"]),
                       {"case": c, "result": r})
        elif r["code"] not in c["enc"]:
            # decodes correctly but is not the manual's shortest form: recorded, not a violation of the property
            noncanon += 1
    chk.cov["x64_cases"] = len(cases)
    chk.cov["x64_rejected_by_encoder"] = rejected
    chk.cov["x64_correct_but_not_shortest_form"] = noncanon
    if rejected > len(cases) // 2:
        raise MachineryError("the x64 encoder rejects %d of %d cases: the harness builds the operands wrongly" % (rejected, len(cases)))
    chk.sample(cases[len(cases) // 3])


def replay(chk, path):
    run(chk)
