CONSTANTS
  Emit = TRUE
  MaxLen = 4
INIT Init
NEXT Next
INVARIANT Known
