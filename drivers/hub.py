"""The WebAssembly semantics hub shared by C31, C04 and C03: TLC evaluates WasmNum.tla on
the operand space and emits (case, specified outcome); the harness builds one module with a
function per operator from the cases; executors run it."""
import json
import os
import subprocess

import common
from common import MachineryError


def cfg(full, laws):
    return """CONSTANTS
  Full = %s
  Emit = TRUE
  Widths = {32, 64}
  MemAddrs = {%s}
INIT Init
NEXT Next
%s
""" % ("TRUE" if full else "FALSE", "0, 1, 3, 1000, 65520" if full else "0, 1, 65520", "INVARIANTS Laws" if laws else "")


def prepare(chk, thorough):
    """-> (outdir, cases, prep_stdout)"""
    b = common.go_build("wasmx")
    d = common.subdir("hub")
    path = os.path.join(d, "cases.txt")
    with open(path, "w") as fh:
        res = common.run_tlc("wasm", "WasmNumCases", "n.cfg", files={"n.cfg": cfg(thorough, thorough)}, collect_prefix='<<"T"',
                             timeout=3000, line_cb=lambda l: fh.write(l + "\n"))
    if res.violated:
        raise MachineryError("WasmNum.tla violates its own algebraic laws: " + res.violated)
    chk.tlc(res, "WasmNum cases (%s operand set)" % ("boundary" if thorough else "small"))
    # structured control flow (WasmCtl.tla): programs of a bounded grammar, evaluated on three arguments
    with open(path, "a") as fh:
        res2 = common.run_tlc("wasm", "WasmCtl", "ctl.cfg", collect_prefix='<<"T"', timeout=3000, line_cb=lambda l: fh.write(l + "\n"))
    if res2.violated:
        raise MachineryError("WasmCtl.tla disagrees with its hand-evaluated programs: " + res2.violated)
    chk.tlc(res2, "WasmCtl programs (one compound statement per level; the grammar with a simple statement beside it, ctlfull.cfg, gives 81 000 functions - too many for one C translation unit)")
    # trapping float-to-integer conversions (WasmTrunc.tla): exact operands at the limits of each target type
    with open(path, "a") as fh:
        res3 = common.run_tlc("wasm", "WasmTrunc", "trunc.cfg", collect_prefix='<<"T"', timeout=600, line_cb=lambda l: fh.write(l + "\n"))
    if res3.violated:
        raise MachineryError("WasmTrunc.tla violates " + res3.violated)
    chk.tlc(res3, "WasmTrunc (iNN.trunc_fMM_s/u at the range limits)")
    out = os.path.join(d, "m")
    rc, so, se, to = common.run_child([b, "prep", path, out], timeout=600)
    if rc != 0:
        raise MachineryError("wasmx prep failed: " + se[-1500:])
    cases = json.load(open(os.path.join(out, "cases.json")))
    if not cases:
        raise MachineryError("no cases")
    return b, out, cases, so


def run_wazero(b, out):
    rc, so, se, to = common.run_child([b, "wazero", out], timeout=1200)
    if rc != 0:
        raise MachineryError("wasmx wazero failed: " + se[-1500:])
    return [json.loads(l) for l in so.splitlines() if l.strip()]


def run_node(out):
    js = os.path.join(common.HARNESS, "wasmx", "run_node.js")
    rc, so, se, to = common.run_child(["node", js, out], timeout=600)
    if rc != 0:
        raise MachineryError("node runner failed: " + se[-1500:])
    return [json.loads(l) for l in so.splitlines() if l.strip()]


def case_key(c):
    if c["fn"].startswith("ftrunc_"):
        return c["fn"][:-4] + ("(out-of-range)" if c["trap"] else "")
    if c["fn"].startswith("mem_") or c["fn"].startswith("ldb_"):
        return c["fn"] + ("(oob)" if c["trap"] else "")
    cls = []
    for a in c["args"]:
        v = int(a)
        w = 32 if c["argty"][0] == "i32" else 64
        if v == 0:
            cls.append("0")
        elif v == (1 << w) - 1:
            cls.append("-1")
        elif v == 1 << (w - 1):
            cls.append("MIN")
        else:
            cls.append("x")
    return "%s(%s)" % (c["fn"], ",".join(cls))


def c_jobs(cases):
    """-> [(from, to)] index ranges, one process each: every case specified to trap alone, the cases between two
    of them together.  wat2c emits no bounds checks (known finding), so an access the specification rejects may
    write into the host program's own data (the `app_memory` pointer lies right behind the 64 KiB array) and go
    on: whatever the same process prints afterwards depends on the address-space layout of that run, not on
    wat2c.  Only cases the specification defines share a process; what a trapping case leaves behind dies with it."""
    jobs = []
    start = None
    for i, c in enumerate(cases):
        if c["mod"] == "module" and c["trap"]:
            if start is not None:
                jobs.append((start, i))
                start = None
            jobs.append((i, i + 1))
        elif start is None:
            start = i
    if start is not None:
        jobs.append((start, len(cases)))
    return jobs


def run_c(out, cases, opt):
    """compile the wat2c output with clang <opt>, run all cases; -> {index: value-string | 'CRASH:<sig>' | 'HANG'}"""
    exe = os.path.join(out, "host" + opt.replace("-", "_"))
    p = subprocess.run(["clang", opt, "-w", "-o", exe, "host.c", "app.c", "-lm"], cwd=out, capture_output=True, text=True, timeout=600)
    if p.returncode != 0:
        return None, p.stderr[-2000:]

    def job(rng):
        start, end = rng
        res = {}
        guard = 0
        while start < end and guard < 2000:
            guard += 1
            rc, so, se, to = common.run_child([exe, str(start), str(end)], timeout=300)
            last = start - 1
            for l in so.splitlines():
                t = l.split()
                if len(t) == 2 and t[0].isdigit() and start <= int(t[0]) < end:
                    res[int(t[0])] = t[1]
                    last = int(t[0])
            if rc == 0 and not to:
                break
            if last + 1 < end:  # (a process that dies after its last case has printed its result: no case to blame)
                res[last + 1] = "HANG" if to else "CRASH:%s" % rc
            start = last + 2
        return res
    res = {}
    for r in common.parallel(job, c_jobs(cases)):
        res.update(r)
    return res, ""
