CONSTANTS
  W = 8
  Vals <- Vals8
INIT Init
NEXT Next
INVARIANTS Laws
