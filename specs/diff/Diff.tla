-------------------------------- MODULE Diff --------------------------------
(* C22: text diffs apply back.  This is a trace specification: each record    *)
(* logged from the real diff package is (before, after, edits, what the       *)
(* package's own Apply returned, the hunks of its unified rendering).  TLC    *)
(* judges every record with the reference definitions below: edits are valid  *)
(* (sorted, in bounds, non-overlapping, on rune boundaries), the sequential   *)
(* splice of the edits into `before` is `after`, the package's Apply agrees,  *)
(* and the unified hunks are a correct line patch from before to after.       *)
EXTENDS Integers, Sequences, FiniteSets, TLC, Json

Log == ndJsonDeserialize("trace.ndjson")
N == Len(Log)
VARIABLES l, verdict
vars == <<l, verdict>>

\* ---- UTF-8: rune boundaries of a byte string that is valid UTF-8 ----
IsCont(b) == b >= 128 /\ b < 192
LeadLen(b) == IF b < 128 THEN 1 ELSE IF b >= 194 /\ b < 224 THEN 2 ELSE IF b >= 224 /\ b < 240 THEN 3
              ELSE IF b >= 240 /\ b < 245 THEN 4 ELSE 0
RECURSIVE ValidFrom(_, _)
ValidFrom(s, i) == IF i > Len(s) THEN TRUE
   ELSE LET n == LeadLen(s[i]) IN
        n > 0 /\ i + n - 1 <= Len(s) /\ (\A k \in 1..(n - 1) : IsCont(s[i + k])) /\ ValidFrom(s, i + n)
ValidUtf8(s) == ValidFrom(s, 1)     \* (overlong / surrogate forms are not in the generated alphabets)
OnBoundary(s, off) == off = Len(s) \/ ~IsCont(s[off + 1])       \* offset = number of bytes before the position

\* ---- edits ----
EditsValid(b, es) ==
  /\ \A i \in 1..Len(es) : 0 <= es[i].s /\ es[i].s <= es[i].e /\ es[i].e <= Len(b)
  /\ \A i \in 1..(Len(es) - 1) : es[i].e <= es[i + 1].s /\                      \* sorted, non-overlapping
                                 (es[i].s < es[i + 1].s \/ es[i].e < es[i + 1].e \/ es[i].s = es[i].e)
  /\ (ValidUtf8(b) => \A i \in 1..Len(es) : OnBoundary(b, es[i].s) /\ OnBoundary(b, es[i].e))
RECURSIVE ApplyFrom(_, _, _, _)
ApplyFrom(b, es, i, last) ==
  IF i > Len(es) THEN SubSeq(b, last + 1, Len(b))
  ELSE SubSeq(b, last + 1, es[i].s) \o es[i].new \o ApplyFrom(b, es, i + 1, es[i].e)
Apply(b, es) == ApplyFrom(b, es, 1, 0)

\* ---- lines and unified hunks ----
RECURSIVE SplitLines(_, _, _)
SplitLines(s, i, cur) == IF i > Len(s) THEN (IF cur = << >> THEN << >> ELSE <<cur>>)
                         ELSE IF s[i] = 10 THEN <<Append(cur, 10)>> \o SplitLines(s, i + 1, << >>)
                         ELSE SplitLines(s, i + 1, Append(cur, s[i]))
Lines(s) == SplitLines(s, 1, << >>)
\* a hunk: [from, to, lines: sequence of [k, c]] with k in {"-", "+", " "}
Old(h) == SelectSeq(h.lines, LAMBDA x : x.k # "+")
New(h) == SelectSeq(h.lines, LAMBDA x : x.k # "-")
Contents(xs) == [i \in 1..Len(xs) |-> xs[i].c]
\* patching: walk the hunks in order over before's lines
RECURSIVE Patch(_, _, _)
Patch(bl, hs, pos) ==      \* pos = next unconsumed line of before (1-based); returns <<ok, lines>>
  IF hs = << >> THEN <<TRUE, SubSeq(bl, pos, Len(bl))>>
  ELSE LET h == Head(hs)
           old == Contents(Old(h))
           start == h.from            \* fromLine: 1-based index of the first old line (of the line inserted before, if none)
       IN IF start < pos \/ start + Len(old) - 1 > Len(bl) \/ SubSeq(bl, start, start + Len(old) - 1) # old
          THEN <<FALSE, << >>>>
          ELSE LET r == Patch(bl, Tail(hs), start + Len(old))
               IN <<r[1], SubSeq(bl, pos, start - 1) \o Contents(New(h)) \o r[2]>>
\* a missing final newline is rendered with a marker by the package; the harness strips the
\* marker and logs line contents exactly as they occur in the texts
UnifiedOk(r) == r.unifiedErr # "" \/
                LET p == Patch(Lines(r.b), r.hunks, 1) IN p[1] /\ p[2] = Lines(r.a)
ChangedOnly(r) == r.unifiedErr # "" \/ \A i \in 1..Len(r.hunks) : \E j \in 1..Len(r.hunks[i].lines) : r.hunks[i].lines[j].k # " "

\* the rendered text, read back by a line-oriented patch reader (harness), carries exactly the lines of the hunks judged above
TextFaithful(r) == r.unifiedErr # "" \/ (r.textErr = "" /\ Len(r.tlines) = Len(r.hunks) /\ \A i \in 1..Len(r.hunks) : r.tlines[i] = r.hunks[i].lines)

Judge(r) ==
  IF ~EditsValid(r.b, r.edits) THEN "invalid-edits"
  ELSE IF Apply(r.b, r.edits) # r.a THEN "apply-differs"
  ELSE IF r.applyErr # "" THEN "package-apply-error"
  ELSE IF r.applied # r.a THEN "package-apply-differs"
  ELSE IF ~UnifiedOk(r) THEN "unified-not-a-patch"
  ELSE IF ~ChangedOnly(r) THEN "unified-empty-hunk"
  ELSE IF ~TextFaithful(r) THEN "unified-text-differs-from-hunks"
  ELSE "ok"

Init == l = 1 /\ verdict = "ok"
Next == /\ l <= N
        /\ verdict' = IF "panic" \in DOMAIN Log[l] THEN "panic" ELSE Judge(Log[l])
        /\ (verdict' # "ok" => PrintT(<<"V", l, verdict'>>))       \* every rejected record is reported, judging continues
        /\ l' = l + 1
AllOk == verdict = "ok"
HighWater == TLCSet(1, IF l > TLCGet(1) THEN l ELSE TLCGet(1))
Accepted == IF TLCGet(1) = N + 1 THEN TRUE ELSE PrintT(<<"STUCK", TLCGet(1)>>) /\ FALSE
ASSUME TLCSet(1, 0)
=============================================================================
