"""C27 -- deterministic compilation: a determinism monitor (ApiConc's memo rule, here
Determinism.tla) over observations recorded from repeated compilations in one process and
in fresh processes (new map-iteration / hash seeds each)."""
import json

import common
from common import MachineryError

LEVEL = "exploration"


def run(chk):
    b = common.go_build("api")
    thorough = chk.tier == "thorough"
    chk.assume("programs are the six sources of harness/api/main.go; the schedule quantifier (Go map iteration order, hash seeds) is sampled by repeated in-process builds and fresh processes")
    procs, k = (12, 6) if thorough else (5, 3)

    def one(i):
        rc, so, se, to = common.run_child([b, "det", "-k", str(k)], timeout=900)
        if rc != 0:
            raise MachineryError("api det failed: " + se[-800:])
        return json.loads(so.strip().splitlines()[-1])
    obs = common.parallel(one, list(range(procs)), workers=procs)
    # the observations as a trace for the monitor: one event per (process, program, build)
    events = []
    for pi, o in enumerate(obs):
        for name in sorted(o):
            for bi, r in enumerate(o[name]):
                events.append({"proc": pi, "prog": name, "build": bi, "result": r})
    text = "\n".join(json.dumps(e) for e in events) + "\n"
    res = common.run_tlc("api", "Determinism", "det.cfg", workers=1, files={"trace.ndjson": text}, timeout=900, collect_prefix='<<"V"')
    if res.postcond_failed or res.generated != len(events) + 1:
        raise MachineryError("TLC did not consume all observations")
    chk.add("evaluations", len(events))
    progs = sorted(obs[0])
    chk.cov["distinct_nontrivial"] = len(progs) * procs
    chk.cov["rule"] = ("one evaluation = one api.BuildFile + Wat2Wasm of one program; distinct = (process, program) pairs (each process has its own hash seeds); "
                       "TLC's monitor memoises the first result per program and rejects any later different one")
    chk.cov["states"] = res.distinct
    chk.cov["transitions"] = res.generated
    chk.sample(events[0])
    import re
    for v in res.lines:
        m = re.match(r'<<"V", (\d+)', v)
        if m:
            e = events[int(m.group(1)) - 1]
            first = [x for x in events if x["prog"] == e["prog"]][0]
            chk.report("C27:nondeterministic:" + e["prog"], "%s compiled differently in process %d build %d: %s vs first observation %s" % (
                e["prog"], e["proc"], e["build"], e["result"], first["result"]), {"event": e, "first": first})


def replay(chk, path):
    run(chk)
