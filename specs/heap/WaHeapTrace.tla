---------------------------- MODULE WaHeapTrace ----------------------------
(* C10, conformance of recorded executions with the implementation-shaped     *)
(* spec: every logged call must be the WaHeap action with the same reply,     *)
(* globals and list shapes.  A rejection that WaHeapObs accepts is model      *)
(* drift (reported, not a violation).                                          *)
EXTENDS WaHeap

VARIABLES l
TraceLog == ndJsonDeserialize("trace.ndjson")
N == Len(TraceLog)

CellsObs(e) == [a \in { e.cells[i][1] : i \in DOMAIN e.cells } |->
                 LET i == CHOOSE j \in DOMAIN e.cells : e.cells[j][1] = a
                 IN [size |-> e.cells[i][2], next |-> e.cells[i][3]]]

Observed(e) == /\ heapPtr' = e.heapPtr
               /\ heapTop' = e.heapTop
               /\ freep' = e.freep
               /\ pages' = e.pages
               /\ \A a \in DOMAIN CellsObs(e) : Cell(a)' = CellsObs(e)[a]

TInit == Init /\ l = 1
TMalloc == /\ l <= N /\ TraceLog[l].op = "m"
           /\ Malloc(TraceLog[l].n)
           /\ lastOp'.op = "malloc" /\ lastOp'.r = TraceLog[l].r
           /\ Observed(TraceLog[l])
           /\ l' = l + 1
TFree == /\ l <= N /\ TraceLog[l].op = "f"
         /\ TraceLog[l].n \in DOMAIN live
         /\ Free(TraceLog[l].n)
         /\ Observed(TraceLog[l])
         /\ l' = l + 1
TReset == /\ l <= N /\ TraceLog[l].op = "reset"
          /\ hdr' = (L24 :> Zero) @@ (L32 :> Zero) @@ (L48 :> Zero) @@ (L80 :> Zero) @@
                    (L128 :> [size |-> 0, next |-> L128]) @@ (HeapBase + 40 :> Zero)
          /\ freep' = L128 /\ heapPtr' = FirstBlock /\ heapTop' = InitPages * Page
          /\ pages' = InitPages /\ live' = << >> /\ lastOp' = [op |-> "init"]
          /\ nops' = 0 /\ hist' = << >>
          /\ l' = l + 1
TNext == TMalloc \/ TFree \/ TReset

HighWater == TLCSet(1, IF l > TLCGet(1) THEN l ELSE TLCGet(1))
Accepted == IF TLCGet(1) = N + 1 THEN TRUE ELSE PrintT(<<"STUCK", TLCGet(1)>>) /\ FALSE
ASSUME TLCSet(1, 0)
TView == <<l>>
=============================================================================
