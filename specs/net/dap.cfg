CONSTANTS
  BodyAlphabet = {120, 13, 10}
  MaxBody = 2
  MaxMsgs = 2
  MaxCuts = 1
  Emit = TRUE
INIT Init
NEXT Next
INVARIANTS DecodedIsSent
