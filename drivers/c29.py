"""C29 -- `wa run` exit status: WaRun.tla enumerates program descriptors (syntax x way of
ending x place x output before it) and the machine's paths; every terminal state is
rendered as a real program, run with the freshly built wa binary in a child process, and
the observed exit status and stdout compared with the contract's."""
import json
import os

import common
from common import MachineryError

LEVEL = "model_checking"

# ---------------------------------------------------------------- renderers

WA_END = {
    ("return", None): "",
    ("panic", "explicit"): '\tpanic("boom")\n',
    ("panic", "nilmap"): '\tgm["a"] = 1\n',
    ("panic", "typeassert"): '\ti: interface{} = 1\n\ts := i.(string)\n\tprintln(s)\n',
    ("trap", "divzero"): "\tz := zero()\n\tprintln(1 / z)\n",
    ("trap", "stack"): "\tprintln(rec(1))\n",
    ("trap", "unreachable"): "\tunreachable()\n",
}
WA_HELPERS = """
func zero() => int {
	return 0
}

func rec(n: int) => int {
	return rec(n+1) + n
}

#wa:linkname $unreachable_impl
func unreachable()
"""


def wa_end(e):
    if e["k"] == "exit":
        return "\tjs.ProcExit(%d)\n" % e["n"]
    return WA_END[(e["k"], e.get("why"))]


def render_wa(p):
    e, where, prints = p["end"], p["where"], p["prints"]
    if e["k"] == "builderr":
        if e["why"] == "syntax":
            return 'func main {\n\tprintln("a"\n}\n'
        return 'func main {\n\tx: int = "s"\n\tprintln(x)\n}\n'
    body = "".join('\tprintln("line %d")\n' % (i + 1) for i in range(prints))
    src = 'import "syscall/js"\n\nglobal gm: map[string]int\n\nfunc keep() {\n\tjs.ProcExit(77)\n}\n'
    helpers = "\nfunc zero() => int {\n\treturn 0\n}\n\nfunc rec(n: int) => int {\n\treturn rec(n+1) + n\n}\n"
    src += helpers
    endcode = wa_end(e)
    if where == "main":
        src += "\nfunc main {\n" + body + endcode + "}\n"
    elif where == "callee":
        src += "\nfunc callee() {\n" + endcode + "}\n\nfunc main {\n" + body + "\tcallee()\n}\n"
    elif where == "deferred":
        src += "\nfunc main {\n\tdefer func() {\n" + endcode.replace("\t", "\t\t") + "\t}()\n" + body + "}\n"
    elif where == "init":
        src += "\nfunc init {\n" + endcode + "}\n\nfunc main {\n" + body + "}\n"
    return src


def render_wz(p):
    e, where, prints = p["end"], p["where"], p["prints"]
    if e["k"] == "builderr":
        if e["why"] == "syntax":
            return '函数·主控:\n\t输出("a"\n完毕\n'
        return '函数·主控:\n\t设定·数: 整型 = "s"\n\t输出(数)\n完毕\n'
    body = "".join('\t输出("line %d")\n' % (i + 1) for i in range(prints))
    src = '引入 "syscall/js"\n\n函数·保留():\n\tjs.ProcExit(77)\n完毕\n\n函数·零() => 整型:\n\t返回 0\n完毕\n'
    if e["k"] == "return":
        endcode = ""
    elif e["k"] == "exit":
        endcode = "\tjs.ProcExit(%d)\n" % e["n"]
    elif e["k"] == "panic":
        endcode = '\t崩溃("boom")\n'
    else:
        endcode = "\t数 := 零()\n\t输出(1 / 数)\n"
    if where == "main":
        src += "\n函数·主控:\n" + body + endcode + "完毕\n"
    else:
        src += "\n函数·被调():\n" + (endcode or "\t返回\n") + "完毕\n\n函数·主控:\n" + body + "\t被调()\n完毕\n"
    return src


def render_wat(p):
    e, where, prints = p["end"], p["where"], p["prints"]
    if e["k"] == "builderr":
        return '(module\n  (func $main (export "_main")\n    i32.const\n  )\n'
    body = "".join("    i32.const %d\n    call $print_i32\n    i32.const 10\n    call $print_rune\n" % (i + 1) for i in range(prints))
    end = {
        ("return", None): "",
        ("trap", "divzero"): "    i32.const 1\n    i32.const 0\n    i32.div_s\n    drop\n",
        ("trap", "unreachable"): "    unreachable\n",
        ("trap", "oob"): "    i32.const 70000\n    i32.load\n    drop\n",
        ("trap", "stack"): "    i32.const 1\n    call $rec\n    drop\n",
        ("trap", "indirect"): "    i32.const 5\n    call_indirect (type $v)\n",
    }
    endcode = "    i32.const %d\n    call $proc_exit\n" % e["n"] if e["k"] == "exit" else end[(e["k"], e.get("why"))]
    src = """(module
  (import "syscall_js" "print_i32" (func $print_i32 (param i32)))
  (import "syscall_js" "print_rune" (func $print_rune (param i32)))
  (import "syscall_js" "proc_exit" (func $proc_exit (param i32)))
  (type $v (func))
  (memory 1)
  (export "memory" (memory 0))
  (table 2 funcref)
  (func $rec (param $n i32) (result i32)
    local.get $n
    i32.const 1
    i32.add
    call $rec
    local.get $n
    i32.add
  )
"""
    if where == "main":
        src += '  (func $main (export "_main")\n' + body + endcode + "  )\n)\n"
    else:
        src += "  (func $callee\n" + endcode + '  )\n  (func $main (export "_main")\n' + body + "    call $callee\n  )\n)\n"
    return src


RENDER = {"wa": render_wa, "wz": render_wz, "wat": render_wat}
EXT = {"wa": ".wa", "wz": ".wz", "wat": ".wat"}


def expected_stdout(p, out):
    if p["lang"] == "wat":
        return ["%d" % n for n in out]
    return ["line %d" % n for n in out]


def key_of(p, what):
    e = p["end"]
    return "C29:%s:%s:%s:%s" % (what, p["lang"], e["k"] + ("-" + e["why"] if "why" in e else ""), p["where"])


def run_case(wa, case, idx):
    p = case["prog"]
    d = common.subdir("c29/%d" % idx)
    f = os.path.join(d, "prog" + EXT[p["lang"]])
    with open(f, "w") as fh:
        fh.write(RENDER[p["lang"]](p))
    rc, so, se, to = common.run_child([wa, "run", f], timeout=60, cwd=d)
    return case, rc, so, se, to


def judge(chk, case, rc, so, se, to):
    p, st = case["prog"], case["status"]
    rec = {"case": case, "rc": rc, "stdout": so[-400:], "stderr": se[-400:], "program": RENDER[p["lang"]](p)}
    if to:
        chk.report(key_of(p, "hang"), "wa run does not terminate for %s" % json.dumps(p), rec)
        return
    ok = (st["class"] == "zero" and rc == 0) or (st["class"] == "code" and rc == st["n"]) or (st["class"] == "nonzero" and rc != 0)
    if not ok:
        chk.report(key_of(p, "status"), "wa run exits with status %s for a program that %s (%s, %s): expected %s" % (
            rc, p["end"]["k"] + (" " + p["end"].get("why", "") if "why" in p["end"] else (" %d" % p["end"]["n"] if "n" in p["end"] else "")),
            p["lang"], p["where"], st), rec)
        return
    want = expected_stdout(p, case["out"])
    got = [l for l in so.splitlines()]
    if got[:len(want)] != want:
        chk.report(key_of(p, "stdout"), "stdout lacks output printed before termination: want prefix %s got %s (%s)" % (want, got[:4], json.dumps(p)), rec)


def run(chk):
    wa = common.build_wa()
    chk.assume("exit function = syscall/js.ProcExit (proc_exit import for .wat); `wa run <file>` on single-file programs; .wasm inputs are not rendered")
    res = common.run_tlc("cli", "WaRun", "run.cfg", collect_prefix='<<"T"', timeout=600)
    if res.violated:
        raise MachineryError("WaRun.tla violates its own contract invariant %s" % res.violated)
    chk.tlc(res, "all descriptors and paths")
    cases = [json.loads(common.parse_printt(l, "T")[0]) for l in res.lines]
    if not cases:
        raise MachineryError("no terminal states emitted")
    results = common.parallel(lambda ic: run_case(wa, ic[1], ic[0]), list(enumerate(cases)))
    kinds = {}
    for case, rc, so, se, to in results:
        chk.add("traces_validated_against_impl", 1)
        k = case["prog"]["lang"] + ":" + case["prog"]["end"]["k"]
        kinds[k] = kinds.get(k, 0) + 1
        judge(chk, case, rc, so, se, to)
    chk.cov["terminal_states_by_kind"] = kinds
    chk.sample(cases[0])
    chk.sample(cases[len(cases) // 2])
    chk.cov["exhaustive"] = True
    chk.cov["explanation"] = "every terminal state of WaRun.tla (154) rendered as a .wa/.wz/.wat program and run with the wa binary built from the working tree"


def replay(chk, path):
    rec = json.load(open(path))["record"]
    wa = common.build_wa()
    judge(chk, *run_case(wa, rec["case"], 0))
